// factsdrv: rustc_private driver that dumps a JSON rendering of the type-checked
// program (MIR with resolved callees, ADT definitions, evaluated constants, trait
// impls) for every crate it is wrapped around. One JSON file per rustc process.
//
// Use: RUSTC_WORKSPACE_WRAPPER=factsdrv FACTS_OUT=<dir> cargo +nightly check ...
#![feature(rustc_private)]
extern crate rustc_abi;
extern crate rustc_driver;
extern crate rustc_hir;
extern crate rustc_interface;
extern crate rustc_middle;
extern crate rustc_span;

use rustc_driver::{Callbacks, Compilation};
use rustc_hir::def::DefKind;
use rustc_hir::def_id::{DefId, LOCAL_CRATE};
use rustc_interface::interface::Compiler;
use rustc_middle::mir::{
    self, AggregateKind, BinOp, BorrowKind, CastKind, Const, ConstValue, Operand, Place,
    ProjectionElem, Rvalue, StatementKind, TerminatorKind, UnOp,
};
use rustc_middle::ty::{self, Ty, TyCtxt, TyKind};
use rustc_span::Span;
use std::collections::BTreeMap;
use std::fmt::Write as _;

// ---------------------------------------------------------------- tiny JSON value
enum V {
    Null,
    B(bool),
    I(i128),
    S(String),
    A(Vec<V>),
    O(Vec<(&'static str, V)>),
}
fn esc(s: &str, out: &mut String) {
    out.push('"');
    for c in s.chars() {
        match c {
            '"' => out.push_str("\\\""),
            '\\' => out.push_str("\\\\"),
            '\n' => out.push_str("\\n"),
            '\r' => out.push_str("\\r"),
            '\t' => out.push_str("\\t"),
            c if (c as u32) < 0x20 => {
                let _ = write!(out, "\\u{:04x}", c as u32);
            }
            c => out.push(c),
        }
    }
    out.push('"');
}
impl V {
    fn ser(&self, out: &mut String) {
        match self {
            V::Null => out.push_str("null"),
            V::B(b) => out.push_str(if *b { "true" } else { "false" }),
            V::I(i) => {
                let _ = write!(out, "{}", i);
            }
            V::S(s) => esc(s, out),
            V::A(a) => {
                out.push('[');
                for (i, v) in a.iter().enumerate() {
                    if i > 0 {
                        out.push(',');
                    }
                    v.ser(out);
                }
                out.push(']');
            }
            V::O(o) => {
                out.push('{');
                for (i, (k, v)) in o.iter().enumerate() {
                    if i > 0 {
                        out.push(',');
                    }
                    esc(k, out);
                    out.push(':');
                    v.ser(out);
                }
                out.push('}');
            }
        }
    }
}
fn s<T: Into<String>>(x: T) -> V {
    V::S(x.into())
}
fn opt_s(x: Option<String>) -> V {
    match x {
        Some(x) => V::S(x),
        None => V::Null,
    }
}

// ---------------------------------------------------------------- context
struct Cx<'tcx> {
    tcx: TyCtxt<'tcx>,
    adts: BTreeMap<String, DefId>,
}

impl<'tcx> Cx<'tcx> {
    fn span(&self, sp: Span) -> V {
        let sm = self.tcx.sess.source_map();
        // Use the outermost call site so that macro-expanded code points at the use.
        let sp0 = sp.source_callsite();
        let lo = sm.lookup_char_pos(sp0.lo());
        let file = match &lo.file.name {
            rustc_span::FileName::Real(r) => match r.local_path() {
                Some(p) => p.to_string_lossy().to_string(),
                None => format!("{:?}", lo.file.name),
            },
            other => format!("{:?}", other),
        };
        V::O(vec![
            ("file", s(file)),
            ("line", V::I(lo.line as i128)),
            ("col", V::I(lo.col.0 as i128 + 1)),
            ("exp", V::B(sp.from_expansion())),
        ])
    }

    fn note_ty(&mut self, ty: Ty<'tcx>) {
        // remember every ADT mentioned (peeled) so that its definition is emitted
        for t in ty.walk() {
            if let ty::GenericArgKind::Type(t) = t.kind() {
                if let TyKind::Adt(def, _) = t.kind() {
                    let p = self.tcx.def_path_str(def.did());
                    self.adts.entry(p).or_insert(def.did());
                }
            }
        }
    }

    fn ty(&mut self, ty: Ty<'tcx>) -> V {
        self.note_ty(ty);
        s(format!("{}", ty))
    }

    fn place(&mut self, body: &mir::Body<'tcx>, p: &Place<'tcx>) -> V {
        let mut projs = Vec::new();
        let mut cur = mir::PlaceTy::from_ty(body.local_decls[p.local].ty);
        for elem in p.projection.iter() {
            let v = match elem {
                ProjectionElem::Deref => s("deref"),
                ProjectionElem::Field(f, fty) => {
                    let mut name = format!("{}", f.index());
                    if let TyKind::Adt(def, _) = cur.ty.kind() {
                        let vidx = cur.variant_index.unwrap_or(rustc_abi::FIRST_VARIANT);
                        if def.is_enum() || def.is_struct() || def.is_union() {
                            if let Some(vd) = def.variants().get(vidx) {
                                if let Some(fd) = vd.fields.get(f) {
                                    name = fd.name.to_string();
                                }
                            }
                        }
                    }
                    V::O(vec![
                        ("f", V::I(f.index() as i128)),
                        ("name", s(name)),
                        ("of", s(format!("{}", cur.ty))),
                        ("ty", s(format!("{}", fty))),
                    ])
                }
                ProjectionElem::Index(l) => V::O(vec![("idx", V::I(l.index() as i128))]),
                ProjectionElem::ConstantIndex { offset, min_length, from_end } => V::O(vec![
                    ("cidx", V::I(offset as i128)),
                    ("min", V::I(min_length as i128)),
                    ("from_end", V::B(from_end)),
                ]),
                ProjectionElem::Subslice { from, to, from_end } => V::O(vec![
                    ("sub_from", V::I(from as i128)),
                    ("sub_to", V::I(to as i128)),
                    ("from_end", V::B(from_end)),
                ]),
                ProjectionElem::Downcast(name, vidx) => V::O(vec![
                    ("down", V::I(vidx.index() as i128)),
                    ("name", opt_s(name.map(|n| n.to_string()))),
                ]),
                ProjectionElem::OpaqueCast(_) => s("opaque"),
                ProjectionElem::UnwrapUnsafeBinder(_) => s("unwrap_binder"),
            };
            projs.push(v);
            cur = cur.projection_ty(self.tcx, elem);
        }
        V::O(vec![("l", V::I(p.local.index() as i128)), ("p", V::A(projs))])
    }

    fn bytes_of_alloc(&self, alloc_id: mir::interpret::AllocId, start: u64, len: u64) -> Option<Vec<u8>> {
        let ga = self.tcx.try_get_global_alloc(alloc_id)?;
        let mem = match ga {
            mir::interpret::GlobalAlloc::Memory(m) => m,
            _ => return None,
        };
        let a = mem.inner();
        let end = start.checked_add(len)?;
        if end > a.size().bytes() {
            return None;
        }
        Some(
            a.inspect_with_uninit_and_ptr_outside_interpreter(start as usize..end as usize).to_vec(),
        )
    }

    fn constant(&mut self, owner: DefId, c: &Const<'tcx>, sp: Span) -> V {
        let tcx = self.tcx;
        let cty = c.ty();
        let mut o: Vec<(&'static str, V)> = vec![("ty", self.ty(cty))];
        o.push(("txt", s(format!("{}", c))));
        // function items / closures
        if let TyKind::FnDef(did, args) = cty.kind() {
            o.push(("fn", s(tcx.def_path_str(*did))));
            o.push(("fn_args", s(tcx.def_path_str_with_args(*did, args))));
            return V::O(vec![("k", V::O(o))]);
        }
        if let Const::Unevaluated(u, _) = c {
            o.push(("def", s(tcx.def_path_str(u.def))));
            if let Some(p) = u.promoted {
                o.push(("promoted", V::I(p.index() as i128)));
                // a promoted `&Enum::Variant` (e.g. `x == Component::ParentDir`): name the variant the promoted body builds
                if u.def.is_local() {
                    let pm = tcx.promoted_mir(u.def);
                    if let Some(pb) = pm.get(p) {
                        let mut variants: Vec<String> = Vec::new();
                        for bbd in pb.basic_blocks.iter() {
                            for st in bbd.statements.iter() {
                                if let StatementKind::Assign(bx) = &st.kind {
                                    if let Rvalue::Aggregate(ak, _) = &bx.1 {
                                        if let mir::AggregateKind::Adt(did, vidx, _, _, _) = **ak {
                                            let ad = tcx.adt_def(did);
                                            variants.push(format!("{}::{}", tcx.def_path_str(did), ad.variant(vidx).name));
                                        }
                                    }
                                }
                            }
                        }
                        if variants.len() == 1 {
                            o.push(("promoted_variant", s(variants[0].clone())));
                        }
                        // a promoted `&NAMED_CONST` / `&literal` (e.g. `x.cmp(&CHUNK_SIZE)`): name the constant the promoted body copies
                        let mut named: Vec<String> = Vec::new();
                        let mut ints: Vec<i128> = Vec::new();
                        for bbd in pb.basic_blocks.iter() {
                            for st in bbd.statements.iter() {
                                if let StatementKind::Assign(bx) = &st.kind {
                                    if let Rvalue::Use(Operand::Constant(cc), ..) = &bx.1 {
                                        if let Const::Unevaluated(u2, _) = cc.const_ {
                                            if u2.promoted.is_none() {
                                                named.push(tcx.def_path_str(u2.def));
                                            }
                                        }
                                        let tenv2 = ty::TypingEnv::post_analysis(tcx, owner);
                                        if let Ok(ConstValue::Scalar(mir::interpret::Scalar::Int(i))) = cc.const_.eval(tcx, tenv2, sp) {
                                            if matches!(cc.const_.ty().kind(), TyKind::Uint(_)) {
                                                ints.push(i.to_bits(i.size()) as i128);
                                            }
                                        }
                                    }
                                }
                            }
                        }
                        if named.len() == 1 {
                            o.push(("promoted_def", s(named[0].clone())));
                        }
                        if ints.len() == 1 {
                            o.push(("promoted_int", V::I(ints[0])));
                        }
                    }
                }
            }
        }
        let tenv = ty::TypingEnv::post_analysis(tcx, owner);
        if let Ok(val) = c.eval(tcx, tenv, sp) {
            match val {
                ConstValue::Scalar(mir::interpret::Scalar::Int(i)) => {
                    let bits = i.to_bits(i.size());
                    let signed = matches!(cty.kind(), TyKind::Int(_));
                    let v: i128 = if signed {
                        let sz = i.size().bits();
                        if sz == 0 {
                            0
                        } else if sz >= 128 {
                            bits as i128
                        } else {
                            let shift = 128 - sz;
                            ((bits << shift) as i128) >> shift
                        }
                    } else if bits > i128::MAX as u128 {
                        -1
                    } else {
                        bits as i128
                    };
                    o.push(("int", V::I(v)));
                }
                ConstValue::Scalar(mir::interpret::Scalar::Ptr(ptr, _)) => {
                    // &[u8; N] and friends: pointer into a memory allocation
                    if let TyKind::Ref(_, inner, _) = cty.kind() {
                        if let TyKind::Array(elem, n) = inner.kind() {
                            if *elem == tcx.types.u8 {
                                if let Some(n) = n.try_to_target_usize(tcx) {
                                    let (prov, off) = ptr.prov_and_relative_offset();
                                    if let Some(b) = self.bytes_of_alloc(prov.alloc_id(), off.bytes(), n) {
                                        o.push(("bytes", V::A(b.iter().map(|x| V::I(*x as i128)).collect())));
                                    }
                                }
                            }
                        }
                    }
                }
                ConstValue::Slice { alloc_id, meta } => {
                    let is_bytes = match cty.kind() {
                        TyKind::Ref(_, inner, _) => match inner.kind() {
                            TyKind::Str => true,
                            TyKind::Slice(e) => *e == tcx.types.u8,
                            _ => false,
                        },
                        _ => false,
                    };
                    if is_bytes {
                        if let Some(b) = self.bytes_of_alloc(alloc_id, 0, meta) {
                            o.push(("bytes", V::A(b.iter().map(|x| V::I(*x as i128)).collect())));
                        }
                    }
                }
                ConstValue::Indirect { alloc_id, offset } => {
                    let is_bytes_ref = match cty.kind() {
                        TyKind::Ref(_, inner, _) => match inner.kind() {
                            TyKind::Str => true,
                            TyKind::Slice(e) => *e == tcx.types.u8,
                            _ => false,
                        },
                        _ => false,
                    };
                    if is_bytes_ref {
                        if let Some(b) = val.try_get_slice_bytes_for_diagnostics(tcx) {
                            o.push(("bytes", V::A(b.iter().map(|x| V::I(*x as i128)).collect())));
                        }
                    }
                    if let TyKind::Array(elem, n) = cty.kind() {
                        if *elem == tcx.types.u8 {
                            if let Some(n) = n.try_to_target_usize(tcx) {
                                if let Some(b) = self.bytes_of_alloc(alloc_id, offset.bytes(), n) {
                                    o.push(("bytes", V::A(b.iter().map(|x| V::I(*x as i128)).collect())));
                                }
                            }
                        }
                    }
                }
                ConstValue::ZeroSized => {}
            }
        }
        V::O(vec![("k", V::O(o))])
    }

    fn operand(&mut self, owner: DefId, body: &mir::Body<'tcx>, op: &Operand<'tcx>) -> V {
        match op {
            Operand::Copy(p) => V::O(vec![("c", self.place(body, p))]),
            Operand::Move(p) => V::O(vec![("m", self.place(body, p))]),
            Operand::Constant(c) => self.constant(owner, &c.const_, c.span),
            #[allow(unreachable_patterns)]
            _ => V::O(vec![("other", s(format!("{:?}", op)))]),
        }
    }

    fn rvalue(&mut self, owner: DefId, body: &mir::Body<'tcx>, rv: &Rvalue<'tcx>) -> V {
        match rv {
            Rvalue::Use(op, ..) => V::O(vec![("r", s("use")), ("op", self.operand(owner, body, op))]),
            Rvalue::Repeat(op, n) => V::O(vec![
                ("r", s("repeat")),
                ("op", self.operand(owner, body, op)),
                ("n", s(format!("{}", n))),
                ("n_int", match n.try_to_target_usize(self.tcx) { Some(x) => V::I(x as i128), None => V::Null }),
            ]),
            Rvalue::Ref(_, bk, p) => V::O(vec![
                ("r", s("ref")),
                ("mut", V::B(matches!(bk, BorrowKind::Mut { .. }))),
                ("place", self.place(body, p)),
            ]),
            Rvalue::RawPtr(k, p) => V::O(vec![
                ("r", s("rawptr")),
                ("mut", V::B(format!("{:?}", k).contains("Mut"))),
                ("place", self.place(body, p)),
            ]),
            Rvalue::Cast(kind, op, ty) => {
                let k = match kind {
                    CastKind::IntToInt => "IntToInt".to_string(),
                    CastKind::Transmute => "Transmute".to_string(),
                    other => format!("{:?}", other),
                };
                V::O(vec![
                    ("r", s("cast")),
                    ("kind", s(k)),
                    ("op", self.operand(owner, body, op)),
                    ("from", { let t = op.ty(&body.local_decls, self.tcx); self.ty(t) }),
                    ("ty", self.ty(*ty)),
                ])
            }
            Rvalue::BinaryOp(bop, ab) => {
                let (a, b) = &**ab;
                let name = match bop {
                    BinOp::Add => "Add", BinOp::AddUnchecked => "AddUnchecked", BinOp::AddWithOverflow => "AddWithOverflow",
                    BinOp::Sub => "Sub", BinOp::SubUnchecked => "SubUnchecked", BinOp::SubWithOverflow => "SubWithOverflow",
                    BinOp::Mul => "Mul", BinOp::MulUnchecked => "MulUnchecked", BinOp::MulWithOverflow => "MulWithOverflow",
                    BinOp::Div => "Div", BinOp::Rem => "Rem", BinOp::BitXor => "BitXor", BinOp::BitAnd => "BitAnd",
                    BinOp::BitOr => "BitOr", BinOp::Shl => "Shl", BinOp::ShlUnchecked => "ShlUnchecked",
                    BinOp::Shr => "Shr", BinOp::ShrUnchecked => "ShrUnchecked", BinOp::Eq => "Eq", BinOp::Lt => "Lt",
                    BinOp::Le => "Le", BinOp::Ne => "Ne", BinOp::Ge => "Ge", BinOp::Gt => "Gt", BinOp::Cmp => "Cmp",
                    BinOp::Offset => "Offset",
                };
                V::O(vec![
                    ("r", s("binop")),
                    ("op", s(name)),
                    ("a", self.operand(owner, body, a)),
                    ("b", self.operand(owner, body, b)),
                    ("aty", { let t = a.ty(&body.local_decls, self.tcx); self.ty(t) }),
                ])
            }
            Rvalue::UnaryOp(uop, a) => {
                let name = match uop {
                    UnOp::Not => "Not",
                    UnOp::Neg => "Neg",
                    UnOp::PtrMetadata => "PtrMetadata",
                };
                V::O(vec![("r", s("unop")), ("op", s(name)), ("a", self.operand(owner, body, a))])
            }
            Rvalue::Discriminant(p) => V::O(vec![
                ("r", s("discr")),
                ("place", self.place(body, p)),
                ("of", { let t = p.ty(&body.local_decls, self.tcx).ty; self.ty(t) }),
            ]),
            Rvalue::Aggregate(kind, ops) => {
                let mut o: Vec<(&'static str, V)> = vec![("r", s("aggregate"))];
                match &**kind {
                    AggregateKind::Array(t) => {
                        o.push(("agg", s("array")));
                        o.push(("elem", self.ty(*t)));
                    }
                    AggregateKind::Tuple => o.push(("agg", s("tuple"))),
                    AggregateKind::Adt(did, vidx, args, _, _) => {
                        let def = self.tcx.adt_def(*did);
                        let p = self.tcx.def_path_str(*did);
                        self.adts.entry(p.clone()).or_insert(*did);
                        o.push(("agg", s("adt")));
                        o.push(("adt", s(p)));
                        o.push(("adt_args", s(self.tcx.def_path_str_with_args(*did, args))));
                        o.push(("variant", s(def.variant(*vidx).name.to_string())));
                        o.push(("vidx", V::I(vidx.index() as i128)));
                        o.push((
                            "fields",
                            V::A(def.variant(*vidx).fields.iter().map(|f| s(f.name.to_string())).collect()),
                        ));
                    }
                    AggregateKind::Closure(did, _) => {
                        o.push(("agg", s("closure")));
                        o.push(("closure", s(self.tcx.def_path_str(*did))));
                    }
                    AggregateKind::Coroutine(did, _) | AggregateKind::CoroutineClosure(did, _) => {
                        o.push(("agg", s("coroutine")));
                        o.push(("closure", s(self.tcx.def_path_str(*did))));
                    }
                    AggregateKind::RawPtr(t, _) => {
                        o.push(("agg", s("rawptr")));
                        o.push(("elem", self.ty(*t)));
                    }
                }
                let opsv: Vec<V> = ops.iter().map(|op| self.operand(owner, body, op)).collect();
                o.push(("ops", V::A(opsv)));
                V::O(o)
            }
            Rvalue::CopyForDeref(p) => V::O(vec![("r", s("use")), ("op", V::O(vec![("c", self.place(body, p))]))]),
            Rvalue::ThreadLocalRef(d) => V::O(vec![("r", s("tls")), ("def", s(self.tcx.def_path_str(*d)))]),
            other => V::O(vec![("r", s("other")), ("txt", s(format!("{:?}", other)))]),
        }
    }

    fn callee(&mut self, owner: DefId, body: &mir::Body<'tcx>, func: &Operand<'tcx>) -> V {
        let tcx = self.tcx;
        if let Some((did, args)) = func.const_fn_def() {
            let mut o: Vec<(&'static str, V)> = vec![
                ("def", s(tcx.def_path_str(did))),
                ("def_args", s(tcx.def_path_str_with_args(did, args))),
                ("krate", s(tcx.crate_name(did.krate).to_string())),
                ("targs", V::A(args.iter().map(|a| s(format!("{}", a))).collect())),
            ];
            // trait method?
            if let Some(tr) = tcx.trait_of_assoc(did) {
                o.push(("trait", s(tcx.def_path_str(tr))));
                o.push(("method", s(tcx.item_name(did).to_string())));
                if let Some(self_ty) = args.types().next() {
                    o.push(("self_ty", self.ty(self_ty)));
                }
            } else if let Some(imp) = tcx.impl_of_assoc(did) {
                let st = tcx.type_of(imp).instantiate_identity().skip_norm_wip();
                o.push(("impl_self", s(format!("{}", st))));
                o.push(("method", s(tcx.item_name(did).to_string())));
            } else if matches!(tcx.def_kind(did), DefKind::Fn | DefKind::AssocFn) {
                o.push(("method", s(tcx.item_name(did).to_string())));
            }
            let tenv = ty::TypingEnv::post_analysis(tcx, owner);
            let res = match ty::Instance::try_resolve(tcx, tenv, did, args) {
                Ok(Some(inst)) => match inst.def {
                    ty::InstanceKind::Item(d) => {
                        o.push(("resolved", s(tcx.def_path_str(d))));
                        "item"
                    }
                    ty::InstanceKind::Virtual(d, _) => {
                        o.push(("resolved", s(tcx.def_path_str(d))));
                        "virtual"
                    }
                    other => {
                        o.push(("resolved", s(tcx.def_path_str(other.def_id()))));
                        "shim"
                    }
                },
                Ok(None) => "unresolved",
                Err(_) => "error",
            };
            o.push(("res", s(res)));
            V::O(o)
        } else {
            V::O(vec![("indirect", self.operand(owner, body, func)), ("fty", {
                let t = func.ty(&body.local_decls, tcx);
                self.ty(t)
            })])
        }
    }

    fn body(&mut self, did: DefId) -> V {
        let tcx = self.tcx;
        let body = tcx.optimized_mir(did);
        let mut o: Vec<(&'static str, V)> = Vec::new();
        o.push(("def", s(tcx.def_path_str(did))));
        o.push(("kind", s(format!("{:?}", tcx.def_kind(did)))));
        o.push(("span", self.span(tcx.def_span(did))));
        o.push(("arg_count", V::I(body.arg_count as i128)));
        if matches!(tcx.def_kind(did), DefKind::Fn | DefKind::AssocFn) {
            o.push(("name", s(tcx.item_name(did).to_string())));
            o.push(("vis", s(if tcx.visibility(did).is_public() { "pub" } else { "restricted" })));
            let sig = tcx.fn_sig(did).instantiate_identity().skip_norm_wip();
            o.push(("abi", s(format!("{:?}", sig.abi()))));
            o.push(("sig", s(format!("{}", sig))));
            if let Some(imp) = tcx.impl_of_assoc(did) {
                let st = tcx.type_of(imp).instantiate_identity().skip_norm_wip();
                self.note_ty(st);
                o.push(("impl_self", s(format!("{}", st))));
                if let TyKind::Adt(def, _) = st.kind() {
                    o.push(("impl_adt", s(tcx.def_path_str(def.did()))));
                }
                if let Some(tr) = tcx.impl_opt_trait_ref(imp) {
                    let tr = tr.instantiate_identity().skip_norm_wip();
                    o.push(("impl_trait", s(tcx.def_path_str(tr.def_id))));
                    o.push(("impl_trait_args", s(format!("{}", tr))));
                }
            }
        } else {
            // closure: parent
            o.push(("parent", s(tcx.def_path_str(tcx.typeck_root_def_id(did)))));
        }
        // generic parameter bounds (trait predicates whose self type is a parameter)
        {
            let owner = tcx.typeck_root_def_id(did);
            let preds = tcx.predicates_of(owner).instantiate_identity(tcx);
            let mut pb: Vec<V> = Vec::new();
            for (clause, _) in preds.predicates.iter().zip(preds.spans.iter()) {
                let clause = clause.clone().skip_norm_wip();
                if let Some(tp) = clause.as_trait_clause() {
                    let tp = tp.skip_binder();
                    let st = tp.self_ty();
                    if let TyKind::Param(_) = st.kind() {
                        pb.push(V::A(vec![s(format!("{}", st)), s(tcx.def_path_str(tp.def_id()))]));
                    }
                }
            }
            o.push(("param_bounds", V::A(pb)));
        }
        // locals
        let mut names: BTreeMap<usize, String> = BTreeMap::new();
        let mut captures: Vec<V> = Vec::new();
        for vdi in &body.var_debug_info {
            if let mir::VarDebugInfoContents::Place(p) = &vdi.value {
                if p.projection.is_empty() {
                    names.entry(p.local.index()).or_insert(vdi.name.to_string());
                } else {
                    captures.push(V::O(vec![("name", s(vdi.name.to_string())), ("place", self.place(body, p))]));
                }
            }
        }
        let mut locals = Vec::new();
        for (l, decl) in body.local_decls.iter_enumerated() {
            locals.push(V::O(vec![
                ("ty", self.ty(decl.ty)),
                ("name", opt_s(names.get(&l.index()).cloned())),
            ]));
        }
        o.push(("locals", V::A(locals)));
        o.push(("captures", V::A(captures)));
        // blocks
        let mut blocks = Vec::new();
        for (_bb, data) in body.basic_blocks.iter_enumerated() {
            let mut stmts = Vec::new();
            for st in &data.statements {
                match &st.kind {
                    StatementKind::Assign(b) => {
                        let (p, rv) = &**b;
                        stmts.push(V::O(vec![
                            ("s", s("assign")),
                            ("place", self.place(body, p)),
                            ("rv", self.rvalue(did, body, rv)),
                            ("span", self.span(st.source_info.span)),
                        ]));
                    }
                    StatementKind::SetDiscriminant { place, variant_index } => {
                        stmts.push(V::O(vec![
                            ("s", s("setdiscr")),
                            ("place", self.place(body, place)),
                            ("vidx", V::I(variant_index.index() as i128)),
                            ("span", self.span(st.source_info.span)),
                        ]));
                    }
                    StatementKind::Intrinsic(i) => {
                        stmts.push(V::O(vec![("s", s("intrinsic")), ("txt", s(format!("{:?}", i)))]));
                    }
                    _ => {}
                }
            }
            let term = data.terminator();
            let tspan = self.span(term.source_info.span);
            let t = match &term.kind {
                TerminatorKind::Goto { target } => V::O(vec![("t", s("goto")), ("target", V::I(target.index() as i128))]),
                TerminatorKind::SwitchInt { discr, targets } => {
                    let mut vals = Vec::new();
                    for (v, t) in targets.iter() {
                        vals.push(V::A(vec![
                            if v > i128::MAX as u128 { V::I(-1) } else { V::I(v as i128) },
                            V::I(t.index() as i128),
                        ]));
                    }
                    V::O(vec![
                        ("t", s("switch")),
                        ("discr", self.operand(did, body, discr)),
                        ("dty", { let t = discr.ty(&body.local_decls, tcx); self.ty(t) }),
                        ("targets", V::A(vals)),
                        ("otherwise", V::I(targets.otherwise().index() as i128)),
                    ])
                }
                TerminatorKind::Return => V::O(vec![("t", s("return"))]),
                TerminatorKind::Unreachable => V::O(vec![("t", s("unreachable"))]),
                TerminatorKind::UnwindResume => V::O(vec![("t", s("resume"))]),
                TerminatorKind::UnwindTerminate(_) => V::O(vec![("t", s("terminate"))]),
                TerminatorKind::Drop { place, target, unwind, .. } => V::O(vec![
                    ("t", s("drop")),
                    ("place", self.place(body, place)),
                    ("pty", { let t = place.ty(&body.local_decls, tcx).ty; self.ty(t) }),
                    ("target", V::I(target.index() as i128)),
                    ("unwind", match unwind { mir::UnwindAction::Cleanup(b) => V::I(b.index() as i128), _ => V::Null }),
                ]),
                TerminatorKind::Call { func, args, destination, target, unwind, .. } => {
                    let argv: Vec<V> = args.iter().map(|a| self.operand(did, body, &a.node)).collect();
                    let argt: Vec<V> = args.iter().map(|a| { let t = a.node.ty(&body.local_decls, tcx); self.ty(t) }).collect();
                    V::O(vec![
                        ("t", s("call")),
                        ("callee", self.callee(did, body, func)),
                        ("args", V::A(argv)),
                        ("arg_tys", V::A(argt)),
                        ("dest", self.place(body, destination)),
                        ("target", match target { Some(b) => V::I(b.index() as i128), None => V::Null }),
                        ("unwind", match unwind { mir::UnwindAction::Cleanup(b) => V::I(b.index() as i128), _ => V::Null }),
                    ])
                }
                TerminatorKind::TailCall { func, args, .. } => {
                    let argv: Vec<V> = args.iter().map(|a| self.operand(did, body, &a.node)).collect();
                    V::O(vec![("t", s("tailcall")), ("callee", self.callee(did, body, func)), ("args", V::A(argv))])
                }
                TerminatorKind::Assert { cond, expected, msg, target, unwind } => {
                    use rustc_middle::mir::AssertKind as AK;
                    let (kind, ops): (String, Vec<V>) = match &**msg {
                        AK::BoundsCheck { len, index } => (
                            "BoundsCheck".into(),
                            vec![self.operand(did, body, len), self.operand(did, body, index)],
                        ),
                        AK::Overflow(op, a, b) => (
                            format!("Overflow({:?})", op),
                            vec![self.operand(did, body, a), self.operand(did, body, b)],
                        ),
                        AK::OverflowNeg(a) => ("OverflowNeg".into(), vec![self.operand(did, body, a)]),
                        AK::DivisionByZero(a) => ("DivisionByZero".into(), vec![self.operand(did, body, a)]),
                        AK::RemainderByZero(a) => ("RemainderByZero".into(), vec![self.operand(did, body, a)]),
                        AK::MisalignedPointerDereference { .. } => ("MisalignedPointerDereference".into(), vec![]),
                        AK::NullPointerDereference => ("NullPointerDereference".into(), vec![]),
                        other => (format!("{:?}", other).split('(').next().unwrap_or("other").to_string(), vec![]),
                    };
                    V::O(vec![
                        ("t", s("assert")),
                        ("cond", self.operand(did, body, cond)),
                        ("expected", V::B(*expected)),
                        ("kind", s(kind)),
                        ("ops", V::A(ops)),
                        ("target", V::I(target.index() as i128)),
                        ("unwind", match unwind { mir::UnwindAction::Cleanup(b) => V::I(b.index() as i128), _ => V::Null }),
                    ])
                }
                TerminatorKind::FalseEdge { real_target, .. } => V::O(vec![("t", s("goto")), ("target", V::I(real_target.index() as i128))]),
                TerminatorKind::FalseUnwind { real_target, .. } => V::O(vec![("t", s("goto")), ("target", V::I(real_target.index() as i128))]),
                other => V::O(vec![("t", s("other")), ("txt", s(format!("{:?}", other)))]),
            };
            let mut bo = vec![("cleanup", V::B(data.is_cleanup)), ("stmts", V::A(stmts)), ("term", t), ("tspan", tspan)];
            let _ = &mut bo;
            blocks.push(V::O(bo));
        }
        o.push(("blocks", V::A(blocks)));
        V::O(o)
    }

    fn adt(&mut self, did: DefId) -> V {
        let tcx = self.tcx;
        let def = tcx.adt_def(did);
        let mut variants = Vec::new();
        for (vidx, vd) in def.variants().iter_enumerated() {
            let discr = if def.is_enum() {
                let d = def.discriminant_for_variant(tcx, vidx);
                if d.val > i128::MAX as u128 { V::I(-1) } else { V::I(d.val as i128) }
            } else {
                V::Null
            };
            let fields: Vec<V> = vd
                .fields
                .iter()
                .map(|f| {
                    let fty = tcx.type_of(f.did).instantiate_identity().skip_norm_wip();
                    let nty = if did.is_local() {
                        match tcx.try_normalize_erasing_regions(
                            ty::TypingEnv::post_analysis(tcx, did),
                            tcx.type_of(f.did).instantiate_identity(),
                        ) {
                            Ok(t) => format!("{}", t),
                            Err(_) => format!("{}", fty),
                        }
                    } else {
                        format!("{}", fty)
                    };
                    V::O(vec![
                        ("name", s(f.name.to_string())),
                        ("ty", s(format!("{}", fty))),
                        ("nty", s(nty)),
                        ("pub", V::B(f.vis.is_public())),
                    ])
                })
                .collect();
            variants.push(V::O(vec![
                ("name", s(vd.name.to_string())),
                ("idx", V::I(vidx.index() as i128)),
                ("discr", discr),
                ("fields", V::A(fields)),
            ]));
        }
        V::O(vec![
            ("path", s(tcx.def_path_str(did))),
            ("kind", s(if def.is_enum() { "enum" } else if def.is_struct() { "struct" } else { "union" })),
            ("local", V::B(did.is_local())),
            ("krate", s(tcx.crate_name(did.krate).to_string())),
            ("variants", V::A(variants)),
        ])
    }
}

struct Cb;
impl Callbacks for Cb {
    fn after_analysis<'tcx>(&mut self, _c: &Compiler, tcx: TyCtxt<'tcx>) -> Compilation {
        let out_dir = match std::env::var("FACTS_OUT") {
            Ok(d) => d,
            Err(_) => return Compilation::Continue,
        };
        let crate_name = tcx.crate_name(LOCAL_CRATE).to_string();
        // only workspace members are wrapped (RUSTC_WORKSPACE_WRAPPER); skip build scripts
        if crate_name == "build_script_build" {
            return Compilation::Continue;
        }
        let mut cx = Cx { tcx, adts: BTreeMap::new() };
        let mut bodies = Vec::new();
        for ldid in tcx.hir_body_owners() {
            let did = ldid.to_def_id();
            if !matches!(tcx.def_kind(did), DefKind::Fn | DefKind::AssocFn | DefKind::Closure) {
                continue;
            }
            if !tcx.is_mir_available(did) {
                continue;
            }
            bodies.push(cx.body(did));
        }
        // named constants of the local crate
        let mut consts = Vec::new();
        for ldid in tcx.hir_body_owners() {
            let did = ldid.to_def_id();
            if !matches!(tcx.def_kind(did), DefKind::Const { .. } | DefKind::AssocConst { .. }) {
                continue;
            }
            let cty = tcx.type_of(did).instantiate_identity().skip_norm_wip();
            if cty.has_non_region_param() {
                continue;
            }
            use rustc_middle::ty::TypeVisitableExt;
            let args = ty::GenericArgs::identity_for_item(tcx, did);
            if args.has_non_region_param() {
                continue;
            }
            let uv = mir::UnevaluatedConst::new(did, args);
            let c = Const::Unevaluated(uv, cty);
            let v = cx.constant(did, &c, tcx.def_span(did));
            // the other named constants the initializer refers to (e.g. a lookup table built from named constants)
            let mut refs: Vec<V> = Vec::new();
            {
                let cb = tcx.mir_for_ctfe(did);
                for bbd in cb.basic_blocks.iter() {
                    for st in bbd.statements.iter() {
                        if let StatementKind::Assign(bx) = &st.kind {
                            let mut ops: Vec<&Operand<'_>> = Vec::new();
                            match &bx.1 {
                                Rvalue::Use(o, ..) => ops.push(o),
                                Rvalue::Aggregate(_, os) => {
                                    for o in os.iter() {
                                        ops.push(o);
                                    }
                                }
                                _ => {}
                            }
                            for o in ops {
                                if let Operand::Constant(cc) = o {
                                    if let Const::Unevaluated(u2, _) = cc.const_ {
                                        if u2.promoted.is_none() && u2.def != did {
                                            refs.push(s(tcx.def_path_str(u2.def)));
                                        }
                                    }
                                }
                            }
                        }
                    }
                }
            }
            consts.push(V::O(vec![("path", s(tcx.def_path_str(did))), ("span", cx.span(tcx.def_span(did))), ("val", v), ("refs", V::A(refs))]));
        }
        // trait impls of the local crate
        let mut impls = Vec::new();
        for (tr, imps) in tcx.all_local_trait_impls(()).iter() {
            for imp in imps {
                let idid = imp.to_def_id();
                let st = tcx.type_of(idid).instantiate_identity().skip_norm_wip();
                cx.note_ty(st);
                let adt = if let TyKind::Adt(def, _) = st.kind() { Some(tcx.def_path_str(def.did())) } else { None };
                let methods: Vec<V> = tcx
                    .associated_items(idid)
                    .in_definition_order()
                    .filter(|it| it.is_fn())
                    .map(|it| V::O(vec![("name", s(it.name().to_string())), ("def", s(tcx.def_path_str(it.def_id)))]))
                    .collect();
                let automatic = tcx.is_automatically_derived(idid);
                impls.push(V::O(vec![
                    ("trait", s(tcx.def_path_str(*tr))),
                    ("self_ty", s(format!("{}", st))),
                    ("self_adt", opt_s(adt)),
                    ("derived", V::B(automatic)),
                    ("methods", V::A(methods)),
                ]));
            }
        }
        // ADTs: local ones first (all of them), then everything mentioned
        for ldid in tcx.hir_crate_items(()).definitions() {
            let did = ldid.to_def_id();
            if matches!(tcx.def_kind(did), DefKind::Struct | DefKind::Enum | DefKind::Union) {
                let p = tcx.def_path_str(did);
                cx.adts.entry(p).or_insert(did);
            }
        }
        let adt_ids: Vec<DefId> = cx.adts.values().cloned().collect();
        let adts: Vec<V> = adt_ids.into_iter().map(|d| cx.adt(d)).collect();

        let mut traits = Vec::new();
        for ldid in tcx.hir_crate_items(()).definitions() {
            let did = ldid.to_def_id();
            if matches!(tcx.def_kind(did), DefKind::Trait) {
                let mut sup = Vec::new();
                for (clause, _) in tcx.explicit_super_predicates_of(did).skip_binder().iter() {
                    if let Some(tp) = clause.as_trait_clause() {
                        sup.push(s(tcx.def_path_str(tp.skip_binder().def_id())));
                    }
                }
                traits.push(V::O(vec![("path", s(tcx.def_path_str(did))), ("supertraits", V::A(sup))]));
            }
        }
        let crate_types: Vec<V> = tcx.crate_types().iter().map(|t| s(format!("{:?}", t))).collect();
        let root = V::O(vec![
            ("crate", s(crate_name.clone())),
            ("crate_types", V::A(crate_types)),
            ("run_id", s(std::env::var("FACTS_RUN_ID").unwrap_or_default())),
            ("bodies", V::A(bodies)),
            ("consts", V::A(consts)),
            ("impls", V::A(impls)),
            ("adts", V::A(adts)),
            ("traits", V::A(traits)),
        ]);
        let mut out = String::new();
        root.ser(&mut out);
        let kind = if tcx.crate_types().iter().any(|t| format!("{:?}", t) == "Executable") { "bin" } else { "lib" };
        let pkg = std::env::var("CARGO_PKG_NAME").unwrap_or_else(|_| "nopkg".into());
        let fname = format!("{}/{}.{}.{}.json", out_dir, pkg, crate_name, kind);
        let tmp = format!("{}.tmp{}", fname, std::process::id());
        std::fs::write(&tmp, out).expect("write facts");
        std::fs::rename(&tmp, &fname).expect("rename facts");
        Compilation::Continue
    }
}

fn main() {
    let mut a: Vec<String> = std::env::args().collect();
    // RUSTC_WORKSPACE_WRAPPER passes the real rustc path as argv[1]
    a.remove(1);
    rustc_driver::run_compiler(&a, &mut Cb);
}
