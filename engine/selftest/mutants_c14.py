COMP = 'mla/src/layers/compress.rs'
ENC = 'mla/src/layers/encrypt.rs'
CMP = 'mla/src/layers/compress.rs'
POS = 'mla/src/layers/position.rs'
RAW = 'mla/src/layers/raw.rs'
LIB = 'mla/src/lib.rs'
B = 'bindings/C/src/lib.rs'
MUTANTS = [
    {'id': 'c14-encrypt-flush-noop', 'props': ['C14'], 'expect': 'fire', 'keys': ['EncryptionLayerWriter'],
     'edits': [(ENC, "    fn flush(&mut self) -> io::Result<()> {\n        self.inner.flush()\n    }", "    fn flush(&mut self) -> io::Result<()> {\n        Ok(())\n    }")]},
    {'id': 'c14-position-flush-noop', 'props': ['C14'], 'expect': 'fire', 'keys': ['PositionLayerWriter'],
     'edits': [(POS, "    fn flush(&mut self) -> io::Result<()> {\n        self.inner.flush()\n    }", "    fn flush(&mut self) -> io::Result<()> {\n        Ok(())\n    }")]},
    {'id': 'c14-compress-indata-no-flush', 'props': ['C14'], 'expect': 'fire', 'keys': ['CompressionLayerWriter'],
     'edits': [(CMP, "            CompressionLayerWriterState::InData(_written, compress) => compress.flush(),", "            CompressionLayerWriterState::InData(_written, _compress) => Ok(()),")]},
    {'id': 'c14-archive-flush-conditional', 'props': ['C14'], 'expect': 'fire', 'keys': ['ArchiveWriter::flush'],
     'edits': [(LIB, "    pub fn flush(&mut self) -> io::Result<()> {\n        self.dest.flush()\n    }", "    pub fn flush(&mut self) -> io::Result<()> {\n        if self.files_info.len() > 1_000_000 {\n            return Ok(());\n        }\n        self.dest.flush()\n    }")]},
    {'id': 'c14-writer-with-count-noflush', 'props': ['C14'], 'expect': 'fire', 'keys': ['WriterWithCount'],
     'edits': [(CMP, "    fn flush(&mut self) -> io::Result<()> {\n        self.inner.flush()\n    }\n}\n\nenum CompressionLayerWriterState", "    fn flush(&mut self) -> io::Result<()> {\n        Ok(())\n    }\n}\n\nenum CompressionLayerWriterState")]},
    {'id': 'c14-c-flush-ignores-error', 'props': ['C14', 'C20'], 'expect': 'fire', 'keys': [],
     'edits': [(B, "    let res = match archive.flush() {\n        Ok(()) => MLAStatus::Success,\n        Err(e) => MLAStatus::from(MLAError::IOError(e)),\n    };", "    let res = match archive.flush() {\n        Ok(()) => MLAStatus::Success,\n        Err(_e) => MLAStatus::Success,\n    };")]},
    {'id': 'c14-encrypt-buffers-bytes', 'props': ['C14'], 'expect': 'fire', 'keys': ['R14.2'],
     'edits': [(ENC, "    current_chunk_offset: u64,\n    current_ctr: u32,\n}\n\nimpl<'a, W: 'a + InnerWriterTrait> EncryptionLayerWriter<'a, W> {", "    current_chunk_offset: u64,\n    current_ctr: u32,\n    pending: Vec<u8>,\n}\n\nimpl<'a, W: 'a + InnerWriterTrait> EncryptionLayerWriter<'a, W> {"),
               (ENC, "            current_chunk_offset: 0,\n            current_ctr: 0,\n        })\n    }\n\n    fn renew_cipher", "            current_chunk_offset: 0,\n            current_ctr: 0,\n            pending: Vec::new(),\n        })\n    }\n\n    fn renew_cipher")]},
    {'id': 'c14-benign-flush-via-local', 'props': ['C14'], 'expect': 'silent',
     'edits': [(POS, "    fn flush(&mut self) -> io::Result<()> {\n        self.inner.flush()\n    }", "    fn flush(&mut self) -> io::Result<()> {\n        let inner = &mut self.inner;\n        inner.flush()?;\n        Ok(())\n    }")]},
    # correct twin of the seeded C14 change (buffered encryption writer whose flush drains the buffer through a helper)
    {'id': 'c14-benign-buffered-writer-flush-drains', 'props': ['C14'], 'expect': 'silent', 'patch': 'patches/c14-buffered-encrypt-writer-flush-drains.diff'},
    # revert of fix d335549 (end of input reported without draining the decoder)
    {'id': 'c14-failsafe-eof-before-decode-again', 'props': ['C14'], 'expect': 'fire', 'keys': ['eof-before-decode'],
     'edits': [(COMP, "                                // Inside a stream and no more data available: the\n                                // decoder may still hold already decoded bytes\n                                inner_eof = true;\n", "                                return Err(io::Error::new(\n                                    io::ErrorKind::UnexpectedEof,\n                                    \"No more data from the inner layer\",\n                                ));\n")]},
    {'id': 'c14-benign-eof-check-first-but-guarded', 'props': ['C14', 'C13', 'C02'], 'expect': 'silent', 'patch': 'patches/c14-eof-check-first-but-guarded.diff'},
    {'id': 'c14-handle-helper-flush-dropped', 'props': ['C14'], 'expect': 'fire', 'keys': ['mla_archive_flush|flush-forwarded'], 'patch': 'patches/c14-handle-helper-flush-dropped.diff'},
]
