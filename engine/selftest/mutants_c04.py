ENC = 'mla/src/layers/encrypt.rs'
MLAR = 'mlar/src/main.rs'
MUTANTS = [
    {'id': 'c04-swap-arms', 'props': ['C04'], 'expect': 'fire', 'keys': ['R04.1'],
     'edits': [(ENC, "            FailSafeReaderDecryptionMode::OnlyAuthenticatedData => {\n                if self.authentication_failed {", "            FailSafeReaderDecryptionMode::DataEvenUnauthenticated => {\n                if self.authentication_failed {"),
               (ENC, "            FailSafeReaderDecryptionMode::DataEvenUnauthenticated => {\n                Ok(self.internal.read_internal_unauthenticated(buf)?)", "            FailSafeReaderDecryptionMode::OnlyAuthenticatedData => {\n                Ok(self.internal.read_internal_unauthenticated(buf)?)")]},
    {'id': 'c04-default-unauth', 'props': ['C04'], 'expect': 'fire', 'keys': ['R04.2'],
     'edits': [(ENC, "    #[default]\n    OnlyAuthenticatedData,\n    /// Returns all data, even if not authenticated\n    DataEvenUnauthenticated,", "    OnlyAuthenticatedData,\n    /// Returns all data, even if not authenticated\n    #[default]\n    DataEvenUnauthenticated,")]},
    {'id': 'c04-cli-always-unauth', 'props': ['C04'], 'expect': 'fire', 'keys': ['R04.2'],
     'edits': [(MLAR, "    if matches.get_flag(\"allow_unauthenticated_data\") {\n        eprintln!(\"[WARNING] Some of the data might be unauthenticated, use it at your own risk\");\n        config.failsafe_return_data_even_unauthenticated();\n    }",
                "    if matches.get_flag(\"allow_unauthenticated_data\") {\n        eprintln!(\"[WARNING] Some of the data might be unauthenticated, use it at your own risk\");\n    }\n    config.failsafe_return_data_even_unauthenticated();")]},
    {'id': 'c04-cli-inverted-flag', 'props': ['C04'], 'expect': 'fire', 'keys': ['R04.2'],
     'edits': [(MLAR, "    if matches.get_flag(\"allow_unauthenticated_data\") {\n        eprintln!", "    if !matches.get_flag(\"allow_unauthenticated_data\") {\n        eprintln!")]},
    {'id': 'c04-auth-setter-wrong', 'props': ['C04'], 'expect': 'fire', 'keys': ['R04.2'],
     'edits': [(ENC, "        self.encrypt.failsafe_mode = FailSafeReaderDecryptionMode::OnlyAuthenticatedData;", "        self.encrypt.failsafe_mode = FailSafeReaderDecryptionMode::DataEvenUnauthenticated;")]},
    {'id': 'c04-wrongtag-then-unauth', 'props': ['C04'], 'expect': 'fire', 'keys': ['R04.1'],
     'edits': [(ENC, "                        self.authentication_failed = true;\n                        Ok(0)", "                        self.authentication_failed = true;\n                        Ok(self.internal.read_internal_unauthenticated(buf)?)")]},
    {'id': 'c04-revert-latch', 'props': ['C04'], 'expect': 'fire', 'keys': ['R04.4'],
     'edits': [(ENC, "                if self.authentication_failed {\n                    // A previous chunk failed: do not resume with the chunks following it\n                    return Ok(0);\n                }\n", "")]},
    {'id': 'c04-latch-never-set', 'props': ['C04'], 'expect': 'fire', 'keys': ['R04.4'],
     'edits': [(ENC, "                        self.authentication_failed = true;\n                        Ok(0)", "                        Ok(0)")]},
    {'id': 'c04-benign-iflet', 'props': ['C04'], 'expect': 'silent',
     'edits': [(ENC, "        match self.decryption_mode {\n            FailSafeReaderDecryptionMode::OnlyAuthenticatedData => {", "        match self.decryption_mode {\n            FailSafeReaderDecryptionMode::OnlyAuthenticatedData => {\n                let _unused = buf.len();")]},
]
