#!/bin/bash
# usage: try_seed.sh <patch.diff> <prop...>   -- applies a seeded change to /repo, runs the named checks, restores the tree
set -u
P=$1; shift
cd /repo || exit 2
if [ -n "$(git status --porcelain)" ]; then echo "repo not clean"; exit 2; fi
git apply "$P" || { echo "patch does not apply"; exit 2; }
for prop in "$@"; do
  echo "--- $prop"
  /verif/check $prop 2>&1 | grep -E "violation|key:|VIOLATION|^OK|MACHINERY" | head -12
done
git checkout -- . 
git status --porcelain | head -3
