#!/usr/bin/env python3
"""Development tool (not a registered check): applies small source mutations to /repo one at a time,
runs the named checks, verifies that they fire (naming the instance) or stay silent, and restores the tree.
usage: selftest.py [mutant-id-prefix ...]     (no argument: all)"""
import sys, os, subprocess, json, importlib.util

HERE = os.path.dirname(os.path.abspath(__file__))
VERIF = os.path.dirname(os.path.dirname(HERE))
REPO = '/repo'


def load_mutants():
    muts = []
    for f in sorted(os.listdir(HERE)):
        if f.startswith('mutants_') and f.endswith('.py'):
            spec = importlib.util.spec_from_file_location(f[:-3], os.path.join(HERE, f))
            m = importlib.util.module_from_spec(spec)
            spec.loader.exec_module(m)
            muts += m.MUTANTS
    # the seeded changes kept under /verif/seeded are mutants too: each must be reported by the check of its property
    sd = os.path.join(VERIF, 'seeded')
    for d in sorted(os.listdir(sd)) if os.path.isdir(sd) else []:
        mp = os.path.join(sd, d, 'meta.json')
        if os.path.exists(mp):
            meta = json.load(open(mp))
            if meta.get('not_decided'):
                continue      # kept for the record: breaks a clause this family does not decide (stated in DESIGN.md), no check is expected to fire
            keys = [k.split('|')[0] for k in meta.get('checks', {}).get(meta['property'], {}).get('violation_keys', [])][:1]
            muts.append({'id': 'seed-' + d, 'props': [meta['property']], 'expect': 'fire', 'keys': keys, 'patch': os.path.join(sd, d, 'patch.diff'), 'base_files': meta.get('base_files') or {}})
    return muts


def git_clean():
    r = subprocess.run(['git', '-C', REPO, 'status', '--porcelain'], capture_output=True, text=True)
    return r.stdout.strip() == ''


def apply_patch(path):
    r = subprocess.run(['git', '-C', REPO, 'apply', path], capture_output=True, text=True)
    if r.returncode != 0:
        raise RuntimeError('patch does not apply: %s: %s' % (path, r.stderr.strip()[:200]))


def apply(edits):
    for (path, old, new) in edits:
        p = os.path.join(REPO, path)
        s = open(p).read()
        if s.count(old) != 1:
            raise RuntimeError('mutant anchor not unique/found in %s: %r (count %d)' % (path, old[:60], s.count(old)))
        open(p, 'w').write(s.replace(old, new))


def restore():
    subprocess.run(['git', '-C', REPO, 'checkout', 'HEAD', '--', '.'], check=True)


def main():
    want = sys.argv[1:]
    muts = load_mutants()
    if not git_clean():
        print('refusing: /repo working tree not clean')
        return 2
    results = []
    for m in muts:
        if want and not any(m['id'].startswith(w) for w in want):
            continue
        try:
            for f, c in (m.get('base_files') or {}).items():
                subprocess.run(['git', '-C', REPO, 'checkout', c, '--', f], check=True)
            if m.get('patch'):
                apply_patch(m['patch'] if os.path.isabs(m['patch']) else os.path.join(HERE, m['patch']))
            apply(m.get('edits', []))
            for prop in m['props']:
                r = subprocess.run([os.path.join(VERIF, 'check'), prop], capture_output=True, text=True, cwd=VERIF)
                out = r.stdout + r.stderr
                if m['expect'] == 'fire':
                    ok = r.returncode == 1 and 'VIOLATION property=%s' % prop in out and all(k in out for k in m.get('keys', []))
                else:
                    ok = r.returncode == 0 and 'VIOLATION' not in out
                results.append((m['id'], prop, m['expect'], ok, r.returncode))
                print('%-4s %-40s %-4s expect=%-6s rc=%d' % ('ok' if ok else 'FAIL', m['id'], prop, m['expect'], r.returncode))
                if not ok:
                    print('    ' + '\n    '.join(out.strip().splitlines()[-12:]))
        except Exception as e:
            print('FAIL %s: %s' % (m['id'], e))
            results.append((m['id'], '-', m['expect'], False, -1))
        finally:
            restore()
    bad = [r for r in results if not r[3]]
    print('selftest: %d/%d as expected' % (len(results) - len(bad), len(results)))
    return 1 if bad else 0


if __name__ == '__main__':
    sys.exit(main())
