import os, glob
HERE = os.path.dirname(os.path.abspath(__file__))
ALL = ['C02', 'C03', 'C04', 'C06', 'C07', 'C08', 'C09', 'C10', 'C12', 'C13', 'C14', 'C15', 'C16', 'C18', 'C19', 'C20']
# behaviour-preserving refactorings written by independent sub-agents: every check must stay silent on each of them.

KNOWN_ALARMS = {}
MUTANTS = []
for f in sorted(glob.glob(os.path.join(HERE, 'benign', '*_benign_*.diff'))):
    n = os.path.basename(f)[:-5]
    props = [p for p in ALL if p not in KNOWN_ALARMS.get(n, ())]
    MUTANTS.append({'id': 'benign-' + n, 'props': props, 'expect': 'silent', 'patch': f})
