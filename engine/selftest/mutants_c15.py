LIB = 'mla/src/lib.rs'
ENC = 'mla/src/layers/encrypt.rs'
CMP = 'mla/src/layers/compress.rs'
H = 'mla/src/helpers.rs'
MUTANTS = [
    {'id': 'c15-buffer-whole-content', 'props': ['C15'], 'expect': 'fire', 'keys': ['R15'],
     'edits': [(LIB, "                        let copied = io::copy(&mut content.take(*length), dest)?;", "                        let mut whole = Vec::new();\n                        let copied = content.take(*length).read_to_end(&mut whole)? as u64;\n                        dest.write_all(&whole)?;")]},
    {'id': 'c15-keep-block-list', 'props': ['C15'], 'expect': 'fire', 'keys': ['R15'],
     'edits': [(LIB, "    fn extend_file_size(&mut self, id: ArchiveFileID, block_size: u64) -> Result<(), Error> {\n        match self.ids_info.get_mut(&id) {\n            Some(file_info) => file_info.size += block_size,", "    fn extend_file_size(&mut self, id: ArchiveFileID, block_size: u64) -> Result<(), Error> {\n        match self.ids_info.get_mut(&id) {\n            Some(file_info) => {\n                file_info.size += block_size;\n                file_info.offsets.push(block_size);\n            }")]},
    {'id': 'c15-encrypt-buffer-unbounded', 'props': ['C15'], 'expect': 'fire', 'keys': ['R15'],
     'edits': [(ENC, "        let size = std::cmp::min(\n            std::cmp::min(CIPHER_BUF_SIZE, buf.len() as u64),\n            CHUNK_SIZE - self.current_chunk_offset,\n        );", "        let size = std::cmp::min(buf.len() as u64, u64::MAX - self.current_chunk_offset);")]},
    {'id': 'c15-repair-accumulates', 'props': ['C15'], 'expect': 'fire', 'keys': ['R15'],
     'edits': [(LIB, "        let mut id_failsafe_done = Vec::new();\n", "        let mut id_failsafe_done = Vec::new();\n        let mut seen_lengths: Vec<u64> = Vec::new();\n"),
               (LIB, "                            // Limit the reader to at most the file's content\n", "                            seen_lengths.push(length);\n                            // Limit the reader to at most the file's content\n")]},
    {'id': 'c15-linear-extract-collects', 'props': ['C15'], 'expect': 'fire', 'keys': ['R15'],
     'edits': [(H, "                        io::copy(copy_src, writer)?;", "                        let mut tmp = Vec::new();\n                        copy_src.read_to_end(&mut tmp)?;\n                        writer.write_all(&tmp)?;")]},
    {'id': 'c15-benign-bounded-scratch', 'props': ['C15'], 'expect': 'silent',
     'edits': [(ENC, "        let buf_src = BufReader::new(buf);", "        let _scratch: Vec<u8> = Vec::with_capacity(64);\n        let buf_src = BufReader::new(buf);")]},
]
