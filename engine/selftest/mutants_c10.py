LIB = 'mla/src/lib.rs'
CMP = 'mla/src/layers/compress.rs'
ENC = 'mla/src/layers/encrypt.rs'
MUTANTS = [
    {'id': 'c10-get-hash-no-seek', 'props': ['C10'], 'expect': 'fire', 'keys': ['get_hash'],
     'edits': [(LIB, "            // Set the inner layer at the start of the EoF tag\n            self.src.seek(SeekFrom::Start(file_info.eof_offset))?;\n", "            let _ = file_info.eof_offset;\n")]},
    {'id': 'c10-get-hash-relative-seek', 'props': ['C10'], 'expect': 'fire', 'keys': ['get_hash'],
     'edits': [(LIB, "            self.src.seek(SeekFrom::Start(file_info.eof_offset))?;", "            self.src.seek(SeekFrom::Current(i64::try_from(file_info.eof_offset).unwrap_or(0)))?;")]},
    {'id': 'c10-new-seeks-last-offset', 'props': ['C10'], 'expect': 'fire', 'keys': ['BlocksToFileReader::new'],
     'edits': [(LIB, "        src.seek(SeekFrom::Start(offsets[0]))?;", "        src.seek(SeekFrom::Start(offsets[offsets.len() - 1]))?;")]},
    {'id': 'c10-seek-error-ignored', 'props': ['C10'], 'expect': 'fire', 'keys': ['BlocksToFileReader::new'],
     'edits': [(LIB, "        src.seek(SeekFrom::Start(offsets[0]))?;", "        let _ = src.seek(SeekFrom::Start(offsets[0]));")]},
    {'id': 'c10-next-run-before-increment', 'props': ['C10'], 'expect': 'fire', 'keys': ['move_to_next_block'],
     'edits': [(LIB, "        self.current_offset += 1;\n        if self.current_offset >= self.offsets.len() {\n            return Err(Error::WrongReaderState(\n                \"[BlocksToFileReader] No more continuous blocks\".to_string(),\n            ));\n        }\n        self.src\n            .seek(SeekFrom::Start(self.offsets[self.current_offset]))?;",
                "        if self.current_offset + 1 >= self.offsets.len() {\n            return Err(Error::WrongReaderState(\n                \"[BlocksToFileReader] No more continuous blocks\".to_string(),\n            ));\n        }\n        self.src\n            .seek(SeekFrom::Start(self.offsets[self.current_offset]))?;\n        self.current_offset += 1;")]},
    {'id': 'c10-compress-seek-stale-pos', 'props': ['C10'], 'expect': 'fire', 'keys': ['underlayer_pos'],
     'edits': [(CMP, "                        self.underlayer_pos = pos;\n                        Ok(pos)", "                        if pos != 0 {\n                            self.underlayer_pos = pos;\n                        }\n                        Ok(pos)")]},
    {'id': 'c10-encrypt-seek-stale-chunk', 'props': ['C10'], 'expect': 'fire', 'keys': ['current_chunk_number'],
     'edits': [(ENC, "                self.current_chunk_number = u32::try_from(chunk_number).map_err(|_| {\n                    io::Error::new(io::ErrorKind::InvalidInput, \"Chunk number out of range\")\n                })?;\n                self.load_in_cache()?;", "                let new_chunk = u32::try_from(chunk_number).map_err(|_| {\n                    io::Error::new(io::ErrorKind::InvalidInput, \"Chunk number out of range\")\n                })?;\n                if new_chunk != self.current_chunk_number {\n                    self.current_chunk_number = new_chunk;\n                    self.load_in_cache()?;\n                }")]},
    {'id': 'c10-get-file-wrong-entry', 'props': ['C10'], 'expect': 'fire', 'keys': ['get_file'],
     'edits': [(LIB, "            let reader = BlocksToFileReader::new(&mut self.src, &file_info.offsets)?;", "            let first = files_info.values().next().unwrap_or(file_info);\n            let reader = BlocksToFileReader::new(&mut self.src, &first.offsets)?;")]},
    {'id': 'c10-benign-local-alias', 'props': ['C10'], 'expect': 'silent',
     'edits': [(LIB, "            self.src.seek(SeekFrom::Start(file_info.eof_offset))?;", "            let target = file_info.eof_offset;\n            self.src.seek(SeekFrom::Start(target))?;")]},
    {'id': 'c10-benign-validated-fast-path', 'props': ['C10', 'C03'], 'expect': 'silent',
     'edits': [(ENC, "                // Seek the inner layer at the beginning of the chunk\n                self.inner.seek(SeekFrom::Start(pos_chunk_start))?;\n",
                "                let wanted = u32::try_from(chunk_number).map_err(|_| {\n                    io::Error::new(io::ErrorKind::InvalidInput, \"Chunk number out of range\")\n                })?;\n                let cached_len = self.chunk_cache.get_ref().len() as u64;\n                if wanted == self.current_chunk_number && cached_len != 0 {\n                    // same chunk, valid cache: only reposition\n                    self.inner.seek(SeekFrom::Start(pos_chunk_start + cached_len + TAG_LENGTH as u64))?;\n                    self.chunk_cache.seek(SeekFrom::Start(pos_in_chunk))?;\n                    return Ok(pos);\n                }\n                // Seek the inner layer at the beginning of the chunk\n                self.inner.seek(SeekFrom::Start(pos_chunk_start))?;\n")]},
    {'id': 'c10-empty-block-ends-file', 'props': ['C10'], 'expect': 'fire', 'keys': ['only-at-end-of-file-block'], 'patch': 'patches/c10-empty-block-ends-file.diff'},
]
