M = 'mlar/src/main.rs'
MUTANTS = [
    {'id': 'c16-drop-parentdir-arm', 'props': ['C16'], 'expect': 'fire', 'keys': ['parentdir-refuses'],
     'edits': [(M, "            Component::Prefix(..) | Component::RootDir | Component::CurDir => {}", "            Component::Prefix(..) | Component::RootDir | Component::CurDir | Component::ParentDir => {}"),
               (M, "            Component::ParentDir => {\n                eprintln!(\"[!] Skipping file \\\"{file_name}\\\" because it contains \\\"..\\\"\");\n                return None;\n            }\n", "")]},
    {'id': 'c16-parentdir-continue', 'props': ['C16'], 'expect': 'fire', 'keys': ['parentdir-refuses'],
     'edits': [(M, "                eprintln!(\"[!] Skipping file \\\"{file_name}\\\" because it contains \\\"..\\\"\");\n                return None;", "                eprintln!(\"[!] Skipping file \\\"{file_name}\\\" because it contains \\\"..\\\"\");\n                continue;")]},
    {'id': 'c16-drop-prefix-check', 'props': ['C16'], 'expect': 'fire', 'keys': ['R16.2'],
     'edits': [(M, "    if !containing_directory.starts_with(output_dir) {", "    if false && !containing_directory.starts_with(output_dir) {")]},
    {'id': 'c16-prefix-check-uncanonical', 'props': ['C16'], 'expect': 'fire', 'keys': ['R16.2'],
     'edits': [(M, "    let containing_directory = fs::canonicalize(containing_directory).map_err(|err| {", "    let containing_directory = Ok::<PathBuf, io::Error>(containing_directory.to_path_buf()).map_err(|err: io::Error| {")]},
    {'id': 'c16-glob-opens-fname', 'props': ['C16'], 'expect': 'fire', 'keys': ['R16.4'],
     'edits': [(M, "        let Some((mut extracted_file, _path)) = create_file(&output_dir, &fname)? else {\n            continue;\n        };", "        let Some((mut extracted_file, _path)) = create_file(&output_dir, &fname)? else {\n            continue;\n        };\n        if fname.starts_with(\"/tmp/\") {\n            extracted_file = File::create(&fname)?;\n        }")]},
    {'id': 'c16-filewriter-other-path', 'props': ['C16'], 'expect': 'fire', 'keys': ['R16.3'],
     'edits': [(M, "                    FileWriter {\n                        path,\n                        cache: &cache,", "                    FileWriter {\n                        path: if path.as_os_str().len() > 4000 { PathBuf::from(fname) } else { path },\n                        cache: &cache,")]},
    {'id': 'c16-uncanonical-outdir', 'props': ['C16'], 'expect': 'fire', 'keys': ['create_file-dir-canonical'],
     'edits': [(M, "    let output_dir = fs::canonicalize(output_dir).map_err(|err| {", "    let output_dir = Ok::<PathBuf, io::Error>(output_dir.to_path_buf()).map_err(|err: io::Error| {")]},
    {'id': 'c16-push-raw-name', 'props': ['C16'], 'expect': 'fire', 'keys': ['R16.1'],
     'edits': [(M, "            Component::Prefix(..) | Component::RootDir | Component::CurDir => {}", "            Component::Prefix(..) | Component::RootDir => {}\n            Component::CurDir => file_dst.push(part.as_os_str()),")]},
    {'id': 'c16-benign-iflet', 'props': ['C16'], 'expect': 'silent',
     'edits': [(M, "    if !containing_directory.starts_with(output_dir) {\n        eprintln!(", "    let inside = containing_directory.starts_with(output_dir);\n    if !inside {\n        eprintln!(")]},
    # iterator form of get_extracted_path (benign corpus G2) and two violating variants of it
    {'id': 'c16-benign-iterator-form', 'props': ['C16'], 'expect': 'silent', 'patch': 'benign/G_benign_2.diff'},
    {'id': 'c16-iterform-parentdir-pushed', 'props': ['C16'], 'expect': 'fire', 'keys': ['path-mutation|extend'], 'patch': 'patches/c16-iterform-parentdir-pushed.diff'},
    {'id': 'c16-iterform-wrong-component-tested', 'props': ['C16'], 'expect': 'fire', 'keys': ['parentdir-refuses'], 'patch': 'patches/c16-iterform-wrong-component-tested.diff'},
    # correct twin of the seeded change C16 #4 (OpenOptions with create + truncate and a mode)
    {'id': 'c16-benign-openoptions-create-truncate', 'props': ['C16'], 'expect': 'silent', 'patch': 'patches/c16-openoptions-create-truncate.diff'},
    {'id': 'c16-benign-create-helper-no-fast-path', 'props': ['C16'], 'expect': 'silent', 'patch': 'patches/c16-create-helper-no-fast-path.diff'},
]
