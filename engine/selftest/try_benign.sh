#!/bin/bash
# usage: try_benign.sh <dir with benign_*.diff> [props...]  -- every check must stay silent on each behaviour-preserving patch
D=$1; shift
PROPS=${@:-C02 C03 C04 C06 C07 C08 C09 C10 C12 C13 C14 C15 C16 C18 C19 C20}
cd /repo || exit 2
[ -n "$(git status --porcelain)" ] && { echo "repo not clean"; exit 2; }
for P in $D/benign_*.diff; do
  echo "=== $P"
  git apply "$P" || { echo "  patch does not apply"; continue; }
  for prop in $PROPS; do
    out=$(/verif/check $prop 2>&1)
    if echo "$out" | grep -q "VIOLATION\|MACHINERY"; then echo "  ALARM $prop"; echo "$out" | grep -E "key:|MACHINERY|rule=" | head -8 | sed 's/^/    /'; fi
  done
  git checkout HEAD -- .
done
