COMP = 'mla/src/layers/compress.rs'
POS = 'mla/src/layers/position.rs'
RAW = 'mla/src/layers/raw.rs'
ENC = 'mla/src/layers/encrypt.rs'
CMP = 'mla/src/layers/compress.rs'
HASH = 'mla/src/crypto/hash.rs'
LIB = 'mla/src/lib.rs'
MUTANTS = [
    {'id': 'c13-position-assumes-full', 'props': ['C13'], 'expect': 'fire', 'keys': ['PositionLayerWriter'],
     'edits': [(POS, "        let written = self.inner.write(buf)?;\n        self.pos += written as u64;\n        Ok(written)", "        let _written = self.inner.write(buf)?;\n        self.pos += buf.len() as u64;\n        Ok(buf.len())")]},
    {'id': 'c13-position-counts-requested', 'props': ['C13'], 'expect': 'fire', 'keys': ['from-requested-length'],
     'edits': [(POS, "        let written = self.inner.write(buf)?;\n        self.pos += written as u64;\n        Ok(written)", "        let written = self.inner.write(buf)?;\n        self.pos += buf.len() as u64;\n        Ok(written)")]},
    {'id': 'c13-encrypt-raw-write', 'props': ['C13'], 'expect': 'fire', 'keys': ['EncryptionLayerWriter'],
     'edits': [(ENC, "        self.cipher.encrypt(&mut buf_tmp);\n        self.inner.write_all(&buf_tmp)?;", "        self.cipher.encrypt(&mut buf_tmp);\n        let _n = self.inner.write(&buf_tmp)?;")]},
    {'id': 'c13-chunk-load-single-read', 'props': ['C13'], 'expect': 'fire', 'keys': ['chunk-load-complete'],
     'edits': [(ENC, "        let data_and_tag_read = (&mut self.inner)\n            .take(CHUNK_SIZE + TAG_LENGTH as u64)\n            .read_to_end(&mut data_and_tag)?;", "        data_and_tag.resize(data_and_tag.capacity(), 0);\n        let data_and_tag_read = (&mut self.inner)\n            .take(CHUNK_SIZE + TAG_LENGTH as u64)\n            .read(&mut data_and_tag)?;")]},
    {'id': 'c13-hash-whole-buffer', 'props': ['C13'], 'expect': 'fire', 'keys': ['buffer-use-bounded-by-count'],
     'edits': [(HASH, "self.hash.update(&into[..read]);", "self.hash.update(&into[..]);")]},
    {'id': 'c13-blocks-reader-returns-len', 'props': ['C13'], 'expect': 'fire', 'keys': ['BlocksToFileReader'],
     'edits': [(LIB, "                self.state = BlocksToFileReaderState::Ready;\n            }\n            return Ok(count);", "                self.state = BlocksToFileReaderState::Ready;\n            }\n            let _ = count;\n            return Ok(into.len().min(remaining + 1));")]},
    {'id': 'c13-raw-writer-full', 'props': ['C13'], 'expect': 'fire', 'keys': ['RawLayerWriter'],
     'edits': [(RAW, "    fn write(&mut self, buf: &[u8]) -> io::Result<usize> {\n        self.inner.write(buf)\n    }", "    fn write(&mut self, buf: &[u8]) -> io::Result<usize> {\n        self.inner.write(buf)?;\n        Ok(buf.len())\n    }")]},
    {'id': 'c13-benign-explicit-match', 'props': ['C13'], 'expect': 'silent',
     'edits': [(POS, "        let written = self.inner.write(buf)?;\n        self.pos += written as u64;\n        Ok(written)", "        match self.inner.write(buf) {\n            Ok(written) => {\n                self.pos += written as u64;\n                Ok(written)\n            }\n            Err(e) => Err(e),\n        }")]},
    # reverts of fix d0a4c4e (zero-count decode step returned as Ok(0))
    {'id': 'c13-failsafe-decoder-returns-zero-again', 'props': ['C13'], 'expect': 'fire', 'keys': ['decoder-count-may-be-zero'],
     'edits': [(COMP, "                                // Not enough input to produce a byte yet: fetch more,\n                                // `Ok(0)` would mean end of data\n                                continue;\n", "                                return Ok(0);\n")]},
    {'id': 'c13-failsafe-success-returns-zero-again', 'props': ['C13'], 'expect': 'fire', 'keys': ['decoder-count-may-be-zero'],
     'edits': [(COMP, "                            if output_offset == 0 && !buf.is_empty() {\n                                // Nothing produced by the end of this stream: go on\n                                // with the next one, `Ok(0)` would mean end of data\n                                continue;\n                            }\n", "")]},
    {'id': 'c13-benign-error-context-keeps-kind', 'props': ['C13'], 'expect': 'silent', 'patch': 'patches/c13-error-context-keeps-kind.diff'},
    {'id': 'c13-error-context-drops-kind', 'props': ['C13'], 'expect': 'fire', 'keys': ['io-error-rebuilt-from-io-error'], 'patch': 'patches/c13-error-context-drops-kind.diff'},
    {'id': 'c13-benign-writer-count-and-then-form', 'props': ['C13', 'C20', 'C09'], 'expect': 'silent', 'patch': 'patches/c13-writer-count-and-then-form.diff'},
]
