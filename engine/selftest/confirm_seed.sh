#!/bin/bash
# usage: confirm_seed.sh <worktree> <crate dir (mla|mlar|curve25519-parser|bindings/C)> [package name]
#  confirms a seeded change in its scratch worktree: demo fails with the patch, existing suite passes with the patch,
#  demo passes without it. Writes <worktree>/seed_out/confirm.log
#  For bindings/C the demo is an in-crate test module (src/seed_demo.rs + one `#[cfg(test)] mod seed_demo;` line in lib.rs,
#  a cdylib/staticlib crate has no integration-test surface).
W=$1; CR=${2:-mla}; PKG=${3:-$CR}
cd $W || exit 2
L=$W/seed_out/confirm.log; : > $L
git checkout -- . 2>/dev/null
rm -f $CR/tests/seed_demo.rs $CR/src/seed_demo.rs
INCRATE=0; [ "$CR" = "bindings/C" ] && INCRATE=1
place_demo() {
  if [ $INCRATE = 1 ]; then cp seed_out/seed_demo.rs $CR/src/seed_demo.rs; echo '#[cfg(test)] mod seed_demo;' >> $CR/src/lib.rs
  else mkdir -p $CR/tests; cp seed_out/seed_demo.rs $CR/tests/seed_demo.rs; fi
}
run_demo() {
  if [ $INCRATE = 1 ]; then cargo test -p $PKG --offline seed_demo >> $L 2>&1
  else cargo test -p $PKG --offline --test seed_demo >> $L 2>&1; fi
}
remove_demo() {
  if [ $INCRATE = 1 ]; then rm -f $CR/src/seed_demo.rs; sed -i '$ d' $CR/src/lib.rs; else rm -f $CR/tests/seed_demo.rs; fi
}
git apply seed_out/patch.diff || { echo "APPLY-FAILED" >> $L; exit 2; }
place_demo
echo "== demo with patch" >> $L
run_demo; echo "demo_with_patch_rc=$?" >> $L
remove_demo
echo "== suite with patch" >> $L
cargo test --workspace --no-fail-fast --offline 2>&1 | grep -E "^test result|FAILED|failed" >> $L; echo "suite_done" >> $L
git checkout -- .
place_demo
echo "== demo without patch" >> $L
run_demo; echo "demo_without_patch_rc=$?" >> $L
remove_demo
git checkout -- .
grep -E "demo_with_patch_rc|demo_without_patch_rc|^test result: FAILED|suite_done" $L
