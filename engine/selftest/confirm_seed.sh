#!/bin/bash
# usage: confirm_seed.sh <worktree> <crate (mla|mlar)>  -- confirms a seeded change in its scratch worktree:
#  demo fails with the patch, existing suite passes with the patch, demo passes without it. Writes <worktree>/seed_out/confirm.log
W=$1; CR=${2:-mla}
cd $W || exit 2
L=$W/seed_out/confirm.log; : > $L
git checkout -- . 2>/dev/null
git apply seed_out/patch.diff || { echo "APPLY-FAILED" >> $L; exit 2; }
cp seed_out/seed_demo.rs $CR/tests/seed_demo.rs
echo "== demo with patch" >> $L
cargo test -p $CR --offline --test seed_demo >> $L 2>&1; echo "demo_with_patch_rc=$?" >> $L
mv $CR/tests/seed_demo.rs /tmp/seed_demo_$$.rs
echo "== suite with patch" >> $L
cargo test --workspace --no-fail-fast --offline 2>&1 | grep -E "^test result|FAILED|failed" >> $L; echo "suite_done" >> $L
git checkout -- .
mv /tmp/seed_demo_$$.rs $CR/tests/seed_demo.rs
echo "== demo without patch" >> $L
cargo test -p $CR --offline --test seed_demo >> $L 2>&1; echo "demo_without_patch_rc=$?" >> $L
grep -E "demo_with_patch_rc|demo_without_patch_rc|^test result: FAILED|suite_done" $L
