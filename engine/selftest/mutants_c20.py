B = 'bindings/C/src/lib.rs'
MUTANTS = [
    {'id': 'c20-drop-null-check', 'props': ['C20'], 'expect': 'fire', 'keys': ['mla_archive_flush|param:archive'],
     'edits': [(B, "pub extern \"C\" fn mla_archive_flush(archive: MLAArchiveHandle) -> MLAStatus {\n    if archive.is_null() {\n        return MLAStatus::BadAPIArgument;\n    }\n", "pub extern \"C\" fn mla_archive_flush(archive: MLAArchiveHandle) -> MLAStatus {\n")]},
    {'id': 'c20-partial-null-check', 'props': ['C20'], 'expect': 'fire', 'keys': ['mla_archive_file_append|param:buffer'],
     'edits': [(B, "    if archive.is_null() || file.is_null() || buffer.is_null() {\n        return MLAStatus::BadAPIArgument;\n    }\n    let Ok(length_usize)", "    if archive.is_null() || file.is_null() {\n        return MLAStatus::BadAPIArgument;\n    }\n    let Ok(length_usize)")]},
    {'id': 'c20-inner-handle-unchecked', 'props': ['C20'], 'expect': 'fire', 'keys': ['mla_archive_close|loaded:handle'],
     'edits': [(B, "    let handle = unsafe { *archive };\n    if handle.is_null() {\n        return MLAStatus::BadAPIArgument;\n    }\n\n    // Avoid any use-after-free of this handle by the caller\n    unsafe {\n        *archive = null_mut();", "    let handle = unsafe { *archive };\n\n    // Avoid any use-after-free of this handle by the caller\n    unsafe {\n        *archive = null_mut();")]},
    {'id': 'c20-revert-fix', 'props': ['C20'], 'expect': 'fire', 'keys': ['mla_archive_new|loaded:config_ptr'],
     'edits': [(B, "    let config_ptr = unsafe { *config.cast::<*mut ArchiveWriterConfig>() };\n    if config_ptr.is_null() {\n        // The handle has already been consumed (and cleared) by a previous call\n        return MLAStatus::BadAPIArgument;\n    }\n", "    let config_ptr = unsafe { *config.cast::<*mut ArchiveWriterConfig>() };\n")]},
    {'id': 'c20-early-return-before-leak', 'props': ['C20'], 'expect': 'fire', 'keys': ['R20.2'],
     'edits': [(B, "    let res = match archive.flush() {\n        Ok(()) => MLAStatus::Success,\n        Err(e) => MLAStatus::from(MLAError::IOError(e)),\n    };", "    let res = match archive.flush() {\n        Ok(()) => MLAStatus::Success,\n        Err(e) => return MLAStatus::from(MLAError::IOError(e)),\n    };")]},
    {'id': 'c20-error-swallowed', 'props': ['C20'], 'expect': 'fire', 'keys': ['R20.3'],
     'edits': [(B, "    let res = match archive.end_file(*file) {\n        Ok(()) => MLAStatus::Success,\n        Err(e) => MLAStatus::from(e),\n    };", "    let res = match archive.end_file(*file) {\n        Ok(()) => MLAStatus::Success,\n        Err(MLAError::WrongArchiveWriterState { .. }) => MLAStatus::Success,\n        Err(e) => MLAStatus::from(e),\n    };")]},
    {'id': 'c20-callback-failure-ok', 'props': ['C20'], 'expect': 'fire', 'keys': ['R20.4'],
     'edits': [(B, "        match (self.flush_callback)(self.context) {\n            0 => Ok(()),\n            e => Err(std::io::Error::from_raw_os_error(e)),\n        }", "        match (self.flush_callback)(self.context) {\n            0 | 1 => Ok(()),\n            e => Err(std::io::Error::from_raw_os_error(e)),\n        }")]},
    {'id': 'c20-count-assumed-full', 'props': ['C20'], 'expect': 'fire', 'keys': ['count-from-callback'],
     'edits': [(B, "            0 => Ok(len_written as usize),", "            0 => Ok(len as usize),")]},
    {'id': 'c20-register-on-callback-failure', 'props': ['C20'], 'expect': 'fire', 'keys': ['R20.5'],
     'edits': [(B, "            file_writer.as_mut_ptr(),\n        ) == 0\n        {", "            file_writer.as_mut_ptr(),\n        ) >= 0\n        {")]},
    {'id': 'c20-benign-reorder-checks', 'props': ['C20'], 'expect': 'silent',
     'edits': [(B, "    if archive.is_null() || file.is_null() || buffer.is_null() {\n        return MLAStatus::BadAPIArgument;\n    }\n    let Ok(length_usize)", "    if buffer.is_null() {\n        return MLAStatus::BadAPIArgument;\n    }\n    if file.is_null() || archive.is_null() {\n        return MLAStatus::BadAPIArgument;\n    }\n    let Ok(length_usize)")]},
    # correct twin of the seeded change C20 #2 (BufWriter in front of the callbacks, flushed in a loop with the result examined)
    {'id': 'c20-benign-bufwriter-flushed-in-loop', 'props': ['C20'], 'expect': 'silent', 'patch': 'patches/c20-bufwriter-flushed-in-loop.diff'},
    # correct twin of the seeded change C20 #4 (write adapter that drains the buffer itself, handing over the unwritten tail)
    {'id': 'c20-benign-draining-write-advances', 'props': ['C20', 'C13'], 'expect': 'silent', 'patch': 'patches/c20-draining-write-advances.diff'},
    {'id': 'c20-sink-error-fix-reverted', 'props': ['C20', 'C09'], 'expect': 'fire', 'keys': ['error-examined'], 'patch': 'patches/c20-sink-error-fix-reverted.diff'},
    {'id': 'c20-benign-filewriter-destructured', 'props': ['C20', 'C12'], 'expect': 'silent', 'patch': 'patches/c20-filewriter-destructured.diff'},
]
