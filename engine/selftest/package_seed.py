#!/usr/bin/env python3
"""package_seed.py <id> <worktree> <property> <crate> : copies a confirmed seeded change into /verif/seeded/<id>/ and records which checks catch it"""
import sys, os, json, shutil, subprocess, re
sid, wt, prop, crate = sys.argv[1:5]
# optional: --base path@commit  (the seeded change was written against an older version of that file, since repaired by a fix: commit;
# the checks are run with that version of the file checked out and the patch applied on top)
base_files = {}
rest = []
args = sys.argv[5:]
i = 0
while i < len(args):
    if args[i] == '--base':
        f, c = args[i + 1].split('@')
        base_files[f] = c
        i += 2
    else:
        rest.append(args[i])
        i += 1
extra_props = rest
dst = os.path.join('/verif/seeded', sid)
os.makedirs(dst, exist_ok=True)
so = os.path.join(wt, 'seed_out')
shutil.copy(os.path.join(so, 'patch.diff'), os.path.join(dst, 'patch.diff'))
shutil.copy(os.path.join(so, 'seed_demo.rs'), os.path.join(dst, 'seed_demo.rs'))
shutil.copy(os.path.join(so, 'notes.md'), os.path.join(dst, 'notes.md'))
log = open(os.path.join(so, 'confirm.log')).read()
def rc(name):
    m = re.search(name + r'=(\d+)', log)
    return int(m.group(1)) if m else None
suite = re.findall(r'^test result: (\w+)\. (\d+) passed; (\d+) failed', log, re.M)
failed_tests = re.findall(r'^test (\S+) \.\.\. FAILED', log, re.M)
# run the checks against the patch
verdicts = {}
assert subprocess.run(['git', '-C', '/repo', 'status', '--porcelain'], capture_output=True, text=True).stdout.strip() == ''
for f, c in base_files.items():
    subprocess.run(['git', '-C', '/repo', 'checkout', c, '--', f], check=True)
subprocess.run(['git', '-C', '/repo', 'apply', os.path.join(dst, 'patch.diff')], check=True)
try:
    for p in [prop] + extra_props:
        r = subprocess.run(['/verif/check', p], capture_output=True, text=True, cwd='/verif')
        keys = re.findall(r'key: (.*)', r.stdout)
        verdicts[p] = {'exit': r.returncode, 'violation_keys': keys}
finally:
    subprocess.run(['git', '-C', '/repo', 'checkout', 'HEAD', '--', '.'], check=True)
head = subprocess.run(['git', '-C', '/repo', 'log', '-1', '--format=%h'], capture_output=True, text=True).stdout.strip()
notes = open(os.path.join(dst, 'notes.md')).read()
meta = {
    'id': sid, 'property': prop, 'origin': 'independent sub-agent given only the property text and a scratch worktree',
    'base_commit_of_worktree': subprocess.run(['git', '-C', wt, 'log', '-1', '--format=%h'], capture_output=True, text=True).stdout.strip(),
    'repo_head_when_checked': head,
    'base_files': base_files,
    'needs_to_manifest': notes.split('\n\n')[0][:600],
    'confirmed_by_me': {
        'demo_with_patch_exit': rc('demo_with_patch_rc'), 'demo_without_patch_exit': rc('demo_without_patch_rc'),
        'suite_with_patch': [' '.join(x) for x in suite], 'failed_tests_in_log': failed_tests,
        'commands': ['git apply seed_out/patch.diff', 'cargo test -p %s --offline --test seed_demo' % crate, 'cargo test --workspace --no-fail-fast --offline (demo moved aside)', 'git checkout -- .', 'cargo test -p %s --offline --test seed_demo' % crate],
    },
    'checks': verdicts,
}
json.dump(meta, open(os.path.join(dst, 'meta.json'), 'w'), indent=1)
print(json.dumps(verdicts, indent=1))
