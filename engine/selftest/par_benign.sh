#!/bin/bash
# usage: [PROPS="C02 C03 .."] [LANES=8] par_benign.sh "<glob of patches>"
#   development tool: runs the checks on every patch of the glob, LANES lanes over scratch worktrees /tmp/mla_lane_<i> of /repo (created on demand, removed at
#   the end), through MLA_REPO=<worktree> ./check Cxx. Prints one line per patch; a patch on which every check passes prints only its name.
PROPS=${PROPS:-"C02 C03 C04 C06 C07 C08 C09 C10 C12 C13 C14 C15 C16 C18 C19 C20"}
LANES=${LANES:-8}
files=( $1 )
lane() { W=$1; shift; for P in "$@"; do
  cd $W; git checkout -q -- .; git apply "$P" 2>/dev/null || { echo "NOAPPLY $P"; continue; }
  al=""
  for prop in $PROPS; do
    out=$(MLA_REPO=$W /verif/check $prop 2>&1)
    if echo "$out" | grep -q "VIOLATION\|MACHINERY"; then al="$al $prop[$(echo "$out" | grep -E 'key:|MACHINERY' | head -3 | sed 's/.*key: //' | cut -c1-110 | tr '\n' ';')]"; fi
  done
  echo "$(basename $P):$al"
  git checkout -q -- .
done; }
n=${#files[@]}; q=$(( (n + LANES - 1) / LANES ))
out=$(mktemp -d)
for i in $(seq 1 $LANES); do
  W=/tmp/mla_lane_$i
  [ -d $W ] || git -C /repo worktree add -q --detach $W HEAD
  lane $W "${files[@]:$(( (i-1)*q )):$q}" > $out/lane_$i.out 2>&1 &
done
wait
cat $out/lane_*.out
for i in $(seq 1 $LANES); do git -C /repo worktree remove --force /tmp/mla_lane_$i; done
rm -rf $out
