#!/bin/bash
# usage: tb.sh <patch> <prop...> : apply one behaviour-preserving patch, run the checks, show alarms, restore
P=$1; shift
cd /repo || exit 2
[ -n "$(git status --porcelain)" ] && { echo "repo not clean"; exit 2; }
git apply "$P" || { echo "patch does not apply"; exit 2; }
for prop in "$@"; do
  out=$(/verif/check $prop 2>&1)
  if echo "$out" | grep -q "VIOLATION\|MACHINERY"; then echo "ALARM $prop"; echo "$out" | grep -E "key:|MACHINERY|^    [a-zA-Z]" | head -${TBN:-10} | sed 's/^/    /'; else echo "silent $prop"; fi
done
git checkout HEAD -- .
