LIB = 'mla/src/lib.rs'
H = 'mla/src/helpers.rs'
MUTANTS = [
    {'id': 'c09-revert-name-check', 'props': ['C09'], 'expect': 'fire', 'keys': ['start_file'],
     'edits': [(LIB, "        // Refuse an over-long name before anything is registered or written\n        if filename.len() as u64 > FILENAME_MAX_SIZE {\n            return Err(Error::FilenameTooLong);\n        }\n\n", "")]},
    {'id': 'c09-dump-check-after-writes', 'props': ['C09'], 'expect': 'fire', 'keys': ['ArchiveFileBlock::dump|refusal:FilenameTooLong'],
     'edits': [(LIB, "                let bytes = filename.as_bytes();\n                let length = bytes.len() as u64;\n                if length > FILENAME_MAX_SIZE {\n                    return Err(Error::FilenameTooLong);\n                }\n                dest.write_u8(ArchiveFileBlockType::FileStart as u8)?;\n                dest.write_u64::<LittleEndian>(*id)?;",
                "                let bytes = filename.as_bytes();\n                let length = bytes.len() as u64;\n                dest.write_u8(ArchiveFileBlockType::FileStart as u8)?;\n                dest.write_u64::<LittleEndian>(*id)?;\n                if length > FILENAME_MAX_SIZE {\n                    return Err(Error::FilenameTooLong);\n                }")]},
    {'id': 'c09-duplicate-check-late', 'props': ['C09'], 'expect': 'fire', 'keys': ['DuplicateFilename'],
     'edits': [(LIB, "        if self.files_info.contains_key(filename) {\n            return Err(Error::DuplicateFilename);\n        }\n\n        // Create ID for this file\n        let id = self.next_id;\n        self.next_id += 1;", "        // Create ID for this file\n        let id = self.next_id;\n        self.next_id += 1;\n        if self.files_info.contains_key(filename) {\n            return Err(Error::DuplicateFilename);\n        }\n")]},
    {'id': 'c09-revert-length-check', 'props': ['C09'], 'expect': 'fire', 'keys': ['R09.3'],
     'edits': [(LIB, "                        let copied = io::copy(&mut content.take(*length), dest)?;\n                        if copied != *length {", "                        let copied = io::copy(&mut content.take(*length), dest)?;\n                        if copied > *length {")]},
    {'id': 'c09-finalize-state-before-check', 'props': ['C09'], 'expect': 'fire', 'keys': ['finalize'],
     'edits': [(LIB, "        check_state!(self.state, OpenedFiles);\n        match &mut self.state {\n            ArchiveWriterState::OpenedFiles { ids, hashes } => {\n                if !ids.is_empty() || !hashes.is_empty() {",
                "        check_state!(self.state, OpenedFiles);\n        self.current_id = u64::MAX;\n        match &mut self.state {\n            ArchiveWriterState::OpenedFiles { ids, hashes } => {\n                if !ids.is_empty() || !hashes.is_empty() {")]},
    {'id': 'c09-append-effect-before-check', 'props': ['C09'], 'expect': 'fire', 'keys': ['append_file_content'],
     'edits': [(LIB, "        check_state_file_opened!(&self.state, &id);\n\n        if size == 0 {", "        self.mark_continuous_block(id)?;\n        check_state_file_opened!(&self.state, &id);\n\n        if size == 0 {")]},
    {'id': 'c09-streamwriter-swallows', 'props': ['C09'], 'expect': 'fire', 'keys': ['R09.4'],
     'edits': [(H, "        self.archive\n            .append_file_content(self.file_id, buf.len() as u64, buf)?;\n        Ok(buf.len())", "        let _ = self.archive\n            .append_file_content(self.file_id, buf.len() as u64, buf);\n        Ok(buf.len())")]},
    {'id': 'c09-benign-reorder-checks', 'props': ['C09'], 'expect': 'silent',
     'edits': [(LIB, "        // Refuse an over-long name before anything is registered or written\n        if filename.len() as u64 > FILENAME_MAX_SIZE {\n            return Err(Error::FilenameTooLong);\n        }\n\n        if self.files_info.contains_key(filename) {\n            return Err(Error::DuplicateFilename);\n        }\n",
                "        if self.files_info.contains_key(filename) {\n            return Err(Error::DuplicateFilename);\n        }\n        if filename.len() as u64 > FILENAME_MAX_SIZE {\n            return Err(Error::FilenameTooLong);\n        }\n")]},
    {'id': 'c09-entry-refusal-after-vacant-insert', 'props': ['C09'], 'expect': 'fire', 'keys': ['refusal:FilenameTooLong#0|after-effect'], 'patch': 'patches/c09-entry-refusal-after-vacant-insert.diff'},
]
