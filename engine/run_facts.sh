#!/bin/bash
# usage: run_facts.sh <out_dir> <target_dir> [extra cargo args...]
set -e
OUT=$1; TGT=$2; shift 2
mkdir -p "$OUT" "$TGT"
cd /repo
LD_LIBRARY_PATH=$(rustc +nightly --print sysroot)/lib RUSTFLAGS="-Zmir-opt-level=0 -Awarnings" \
 RUSTC_WORKSPACE_WRAPPER=/verif/engine/factsdrv/target/release/factsdrv FACTS_OUT=$OUT FACTS_RUN_ID=${FACTS_RUN_ID:-x} \
 CARGO_TARGET_DIR=$TGT CARGO_NET_OFFLINE=true cargo +nightly check --offline "$@"
