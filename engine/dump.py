#!/usr/bin/env python3
"""debug helper: dump.py <pkg> <substring of def path> [facts_dir]  -- prints the MIR facts of matching bodies"""
import sys, os
sys.path.insert(0, os.path.dirname(os.path.abspath(__file__)))
from mlalint import core
from mlalint.core import place_str

def rv_str(b, rv):
    if rv.r in ('use',): return rv.ops[0].txt(b)
    if rv.r == 'ref': return ('&mut ' if rv.j['mut'] else '&') + place_str(b, rv.place)
    if rv.r == 'rawptr': return ('&raw mut ' if rv.j['mut'] else '&raw const ') + place_str(b, rv.place)
    if rv.r == 'cast': return '%s as %s (%s)' % (rv.ops[0].txt(b), rv.j['ty'], rv.j['kind'])
    if rv.r == 'binop': return '%s(%s, %s)' % (rv.j['op'], rv.ops[0].txt(b), rv.ops[1].txt(b))
    if rv.r == 'unop': return '%s(%s)' % (rv.j['op'], rv.ops[0].txt(b))
    if rv.r == 'discr': return 'discriminant(%s)' % place_str(b, rv.place)
    if rv.r == 'aggregate':
        k = rv.j['agg']
        if k == 'adt': k = '%s::%s' % (rv.j['adt'], rv.j['variant'])
        if k == 'closure': k = 'closure ' + rv.j['closure']
        return '%s{%s}' % (k, ', '.join(o.txt(b) for o in rv.ops))
    if rv.r == 'repeat': return '[%s; %s]' % (rv.ops[0].txt(b), rv.j['n'])
    return rv.r + ' ' + str(rv.j.get('txt',''))

def dump(b):
    print('=' * 100)
    print(b.key, b.kind, core.fmt_span(b.span), 'args=%d' % b.arg_count, 'impl_trait=%s' % b.impl_trait, 'abi=%s'%b.abi)
    for i, l in enumerate(b.locals):
        if l.get('name'): print('   let _%d %s: %s' % (i, l['name'], l['ty']))
    for bl in b.blocks:
        print(' bb%d%s:' % (bl.idx, ' (cleanup)' if bl.cleanup else ''))
        for i, s in enumerate(bl.stmts):
            if s.kind == 'assign':
                print('    [%d] %s = %s      // %s' % (i, place_str(b, s.place), rv_str(b, s.rv), s.span['line']))
            else:
                print('    [%d] %s %s %s' % (i, s.kind, place_str(b, s.place) if s.place else '', s.vidx))
        t = bl.term
        if t.kind == 'call':
            print('    %s = call %s [%s] (%s) -> bb%s unwind %s   // %s' % (place_str(b, t.dest), t.cargs, t.callee.get('res','ind'), ', '.join(a.txt(b) for a in t.args), t.target, t.unwind, t.span['line']))
        elif t.kind == 'switch':
            print('    switch %s (%s) %s otherwise bb%d' % (t.discr.txt(b), t.dty, ['%d->bb%d' % (v, tg) for v, tg in t.targets], t.otherwise))
        elif t.kind == 'assert':
            print('    assert %s == %s kind %s ops(%s) -> bb%s  // %s' % (t.cond.txt(b), t.expected, t.akind, ', '.join(o.txt(b) for o in t.ops), t.target, t.span['line']))
        elif t.kind == 'drop':
            print('    drop %s -> bb%s unwind %s' % (place_str(b, t.place), t.target, t.unwind))
        else:
            print('    %s %s' % (t.kind, t.target if t.target is not None else ''))

if __name__ == '__main__':
    d = sys.argv[3] if len(sys.argv) > 3 else '/verif/.cache/facts/default'
    prog = core.Program(d)
    for b in prog.bodies([sys.argv[1]]):
        if sys.argv[2] in b.defpath:
            dump(b)
