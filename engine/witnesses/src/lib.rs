//! Compile-fail witnesses for the type-level clauses (thorough tier of C10 / C07 / C06).
//! Each `compile_fail,E0xxx` example is paired with a compiling twin (`no_run`) that differs only by the
//! offending line, so that a witness whose paths are merely wrong cannot pass.
//! Run with `cargo +nightly test --doc --offline` (error codes are only honoured on nightly).

/// R10.3 -- while an `ArchiveFile` returned by `get_file` is alive, the reader is exclusively borrowed:
/// a second `get_file` does not borrow-check.
/// ```compile_fail,E0499
/// use std::io::Cursor;
/// let mut r = mla::ArchiveReader::new(Cursor::new(Vec::<u8>::new())).unwrap();
/// let f1 = r.get_file("a".to_string()).unwrap();
/// let f2 = r.get_file("b".to_string()).unwrap();
/// drop(f1);
/// drop(f2);
/// ```
/// Twin (first file dropped before the second is opened):
/// ```no_run
/// use std::io::Cursor;
/// let mut r = mla::ArchiveReader::new(Cursor::new(Vec::<u8>::new())).unwrap();
/// let f1 = r.get_file("a".to_string()).unwrap();
/// drop(f1);
/// let f2 = r.get_file("b".to_string()).unwrap();
/// drop(f2);
/// ```
pub struct R10_3GetFileExclusive;

/// R10.3 -- `get_hash` needs the reader mutably too, so it cannot run while a file is open.
/// ```compile_fail,E0499
/// use std::io::Cursor;
/// let mut r = mla::ArchiveReader::new(Cursor::new(Vec::<u8>::new())).unwrap();
/// let f1 = r.get_file("a".to_string()).unwrap();
/// let h = r.get_hash("a").unwrap();
/// drop(f1);
/// drop(h);
/// ```
/// ```no_run
/// use std::io::Cursor;
/// let mut r = mla::ArchiveReader::new(Cursor::new(Vec::<u8>::new())).unwrap();
/// let f1 = r.get_file("a".to_string()).unwrap();
/// drop(f1);
/// let h = r.get_hash("a").unwrap();
/// drop(h);
/// ```
pub struct R10_3GetHashExclusive;

/// R07.1 -- the encryption key of a writer configuration cannot be set from outside the crate.
/// ```compile_fail,E0616
/// let mut c = mla::config::ArchiveWriterConfig::new();
/// c.encrypt = Default::default();
/// ```
/// ```no_run
/// let mut c = mla::config::ArchiveWriterConfig::new();
/// let _k: &[u8; 32] = c.encryption_key();
/// c.set_layers(mla::Layers::ENCRYPT);
/// ```
pub struct R07_1KeyNotSettable;

/// R07.1 -- `EncryptionConfig` cannot be built field by field by a downstream crate.
/// ```compile_fail,E0451
/// let _c = mla::layers::encrypt::EncryptionConfig { ecc_keys: Vec::new(), key: [0u8; 32], nonce: [0u8; 8] };
/// ```
/// ```no_run
/// let _c = mla::layers::encrypt::EncryptionConfig::default();
/// ```
pub struct R07_1ConfigNotConstructible;

/// R06.8 / R07 -- `AesGcm256::into_tag` consumes the cipher: no encryption can follow the tag.
/// ```compile_fail,E0382
/// let mut c = mla::crypto::aesgcm::AesGcm256::new(&[0u8; 32], &[0u8; 12], b"").unwrap();
/// let mut buf = [0u8; 4];
/// let _t = c.into_tag();
/// c.encrypt(&mut buf);
/// ```
/// ```no_run
/// let mut c = mla::crypto::aesgcm::AesGcm256::new(&[0u8; 32], &[0u8; 12], b"").unwrap();
/// let mut buf = [0u8; 4];
/// c.encrypt(&mut buf);
/// let _t = c.into_tag();
/// ```
pub struct R06IntoTagConsumes;
