#!/usr/bin/env python3
"""Regenerates /verif/MANIFEST.json from the table below (single source of truth for the interface)."""
import json, os

VERIF = os.path.dirname(os.path.dirname(os.path.abspath(__file__)))

TECH_RULES = 'MIR dominance / must-pass-through / provenance rules (custom rustc_private driver)'
TECH_CENSUS = 'MIR panic-site census with interval discharge, reviewed table and taint gate'
TECH_SHAPE = 'shape/constant conformance of the type-checked program against the documented format table'
TECH_GROWTH = 'MIR growth-site census against a classified table'

NOTE = ('Trusted base: rustc MIR construction and callee resolution on the nightly toolchain; semantics of std, byteorder, bincode, '
        'brotli, RustCrypto, dalek and rand are trusted and not analysed; rules decide the named structural clauses, which are '
        'necessary conditions of the property, not the runtime behaviour itself.')

CLAIMS = {
    'C03': (TECH_RULES, '§4 C03',
            'Decides, for all paths of the code: no plaintext leaves a decrypt site before its tag compared equal (both decrypt sites), '
            'the normal reader cannot reach the unauthenticated decrypt functions (direct-caller allowlists), every cipher of the layer '
            'is keyed by build_nonce(prefix, chunk counter), the footer is read through the authenticated layer stack, chunk loads are complete reads and the end-of-data position is right for a full last chunk (a genuine defect, repaired in /repo); a tag mismatch is an Err of the loader, never an end-of-data result; key and nonce prefix of every archive are drawn from a generator seeded from the OS in that call. Does not '
            'decide that the tag arithmetic is the standard one (numeric).'),
    'C04': (TECH_RULES, '§4 C04',
            'Decides, for all paths: unauthenticated chunk loads sit only under the DataEvenUnauthenticated arm of the mode switch; the default '
            'mode is OnlyAuthenticatedData and only the two setters change it; the CLI enables the unauthenticated mode only on the true edge of '
            'the --allow-unauthenticated-data flag (declared SetTrue); the constructor and the wrong-tag arm are checked for mode respect and a '
            'stop latch (the missing latch was repaired in /repo with a fix: commit; the unauthenticated load of chunk 0 by the constructor is the one recorded known finding). Byte-level prefix relations are not decided.'),
    'C07': (TECH_RULES, '§4 C07',
            'Decides provenance and shape for all paths: key/nonce of EncryptionConfig and the ephemeral scalar must-derive from an OS-seeded '
            'ChaCha20Rng; no seeded generator constructor exists in the library crates; every byte transfer of the encryption writer to its inner '
            'writer is an encrypted buffer or a tag and the layer is stacked whenever ENCRYPT is enabled; the reader accepts a key only from the '
            'tag-verified Ok(Some) payload of retrieve_key, tries every candidate key, and fails otherwise; a wrapped key is stored for every element of the recipients argument; enable_layer only adds and disable_layer only removes layers. Absence of plaintext in the bytes and '
            'uniqueness of OS randomness are not decided.'),
    'C12': (TECH_RULES, '§4 C12',
            'Decides on all (constant-flag-sensitive) paths of helpers::linear_extract: Ok(()) only through the EndOfArchiveData arm and parse errors '
            'propagate; content blocks are looked up by their own id, routed to export[name] or drained, always through take(src, length of this block); '
            'names are registered only if chosen and unregistered at EndOfFile; the loop starts after a rewind; the io::Result of every copy decides the outcome (never reduced to a flag). Byte equality with get_file is not decided.'),
    'C16': (TECH_RULES + ' + filesystem-sink census', '§4 C16',
            "Decides for all paths of mlar: a '..' component refuses the member, only Normal components are appended to output_dir, file creation is "
            'edge-dominated by the canonical-prefix test on the parent of the filtered path, callers pass a canonicalized directory and reuse the vetted '
            'path, and every filesystem-mutating call of the crate is classified (a sink fed by a member name outside create_file is a violation). '
            'Symlink races and extracted content are not decided.'),
    'C06': (TECH_SHAPE, '§4 C06',
            'Decides that every shape and constant of format v1 that the code fixes at compile time equals the published one on both the writing and the '
            'reading side (constants, block tags, serialised struct layouts, per-arm codec operation sequences with the field each carries, endianness '
            'and bincode options, nonce layout and counter step, layer order, HKDF/key-wrap parameters, cipher core types), so a symmetric change is '
            'caught although it round-trips. Does not decide interoperability with an independent decoder nor the GCM numerics (third sentence of C06).'),
    'C19': (TECH_SHAPE, '§4 C19',
            'Decides that the algorithm shape of seeded key generation and of key derivation (hash, salt value, ikm/info operands, PRNG type, '
            'buffer slicing, chaining through re-parse, DER prefixes) equals the documented one, so that a self-consistent change of salt/hash/PRNG '
            'is caught. Numeric key values are runtime facts and not decided.'),
    'C20': (TECH_RULES, '§4 C20',
            'Decides for all paths of the C entry points: a null test dominates every use of each raw-pointer parameter and of each handle loaded through one, '
            'and its null edge cannot report Success; Box::from_raw is paired with Box::leak on every normal exit unless the handle was released; the Err '
            'outcome of every fallible library call cannot reach Success; callback adapters return Ok only on status 0 with the reported count; extraction '
            'registers only caller-initialised writers, each built entirely (callbacks and context) from the FileWriter its per-file callback filled, and goes through linear_extract; the adapters refuse nothing by themselves before the callback is asked. Byte equality with the Rust interface is not decided.'),
    'C09': (TECH_RULES + ' with interprocedural effect / refusal summaries', '§4 C09',
            'Decides for all paths of the ArchiveWriter call tree: no refusal knowable before writing (duplicate / over-long name, wrong state, unknown id) is '
            'reachable after an effect on the writer state or the destination (fixpoint summaries; structural discharges for contradicted arms and already-tested '
            'limits; dead refusals tabled with their invariant); effects sit behind the state and id-membership tests; the copied byte count is compared '
            'with the announced length; refusals surface through StreamWriter and the CLI; current_id bookkeeping keeps every run findable; the block parser accepts every name length the writer side accepts; no adaptor discards an error of the destination (a genuine defect, repaired in /repo). Equality of the final archive with the reference model is not decided.'),
    'C14': (TECH_RULES, '§4 C14',
            'Decides for all paths: every flush of the writer chain (all LayerWriter types, WriterWithCount, StreamWriter, ArchiveWriter, the C entry point '
            'and callback adapter, the CLI output type) returns Ok only after forwarding the flush to the wrapped writer and reports its failure; the '
            'pass-through layers own no byte container; the compression layer flushes the brotli compressor; the fail-safe decompressor must call the '
            'decoder before reporting end of input (the genuine defect found was repaired in /repo); produced bytes are never replaced by an error, only a zero count ends the unauthenticated stream, and what follows the last completed chunk is refused as AuthenticatedDecryptionWrongTag (the error that ends the authenticated data). The number of bytes recovered is not decided.'),
    'C13': (TECH_RULES + ' + raw read/write census', '§4 C13',
            'Decides over every raw Write::write / Read::read call of the workspace: accepted and read counts are returned or accumulated, never dropped or '
            'replaced by the requested length; no raw write outside pass-through `impl Write::write` bodies (all other transfers use the looping forms); '
            'chunks handed to the cipher are complete reads on a bounded take; buffer contents are consumed only up to the count read; decoder-produced '
            'zero counts must not be returned mid-stream (the genuine defect found was repaired in /repo); a short count is never taken for the end of a source, destination error kinds survive on the write path an error kept for later is never an Interrupted one, and no reader fails on the number of rounds of its own loop. Equality of the resulting archives is not decided.'),
    'C02': (TECH_CENSUS + ' + MIR path rules on convert_to_archive', '§4 C02',
            'Decides: no unreviewed, input-tainted panic site is reachable from the fail-safe entry points (interval / guard / length-fact discharge, reviewed '
            'table); a file is marked done only on the hash-equal edge and the running hash covers exactly the appended slices; every Ok result follows a '
            'successful finalize and the clean-up loop ends every unfinished file and names each of them; EndOfOriginalArchiveData only under the end marker, UnfinishedFiles always '
            'reported, every inconsistency leaves the block loop. That recovered content is a prefix of the original, and termination, are not decided.'),
    'C08': (TECH_CENSUS + ', allocation-size and recursion rules', '§3, §4 C08',
            'Decides for the crash / allocation / recursion clauses: every MIR assert and panicking API call reachable (over-approximate call graph) from the '
            'reader, extraction, repair and C read entry points is discharged automatically or reviewed, and any new site fed by archive data is reported; '
            'allocation sizes derived from the archive are bounded by named constants, deserialisation is limit-bounded; direct self-recursion is tabled with '
            'its depth bound (one genuine unbounded recursion was repaired in /repo); placeholder-state and empty-offset guards dominate their panics; buffers of read loops are never empty. '
            'Loop termination, wall time and peak memory as numbers are not decided.'),
    'C18': (TECH_CENSUS, '§4 C18',
            'Decides totality (no crash) of the five public key parsers: all index / slice / copy sites reachable from them are discharged by the dominating '
            'length fact or fixed-size types; dependencies are trusted not to panic. Also decides four refusal clauses (key list keeps every block in order; a foreign PEM label, an unknown algorithm OID, and bytes left inside a SEQUENCE each end in an error). Round-trip and curve conversion are numeric and not decided.'),
    'C10': (TECH_RULES + ' + borrow-checker compile-fail witnesses (thorough)', '§4 C10',
            'Decides three structural conditions that are necessary for history independence, not the behaviour itself: every operation reading through the '
            'shared source first positions it absolutely at the offset of the requested entry and propagates a failed seek; seek(Start) of each layer '
            'rewrites every position-dependent field (frozen, reviewed field lists) with a decompressor / chunk loaded in the same call; an open '
            'ArchiveFile exclusively borrows the reader (compile-fail witnesses with compiling twins); the per-file reader enters its terminal state only at the EndOfFile block (not on a zero-byte transfer). Equality of returned bytes along a history is not decided.'),
    'C15': (TECH_GROWTH, '§4 C15',
            'Decides that no container on a streaming path (writer data methods, layer Read/Write impls, repair, linear extraction) grows with the number '
            'of bytes streamed: every growth or sized-allocation site is either bounded by a named constant (interval analysis incl. take() limits) or '
            'classified per file / per run / per 4 MiB block (4 bytes, noted exception) / bounded buffer; an unclassified site is a violation. The number '
            'of bytes actually in use and dependency allocators are not decided.'),
}

NOT_APPLICABLE = {
    'C01': 'round-trip byte equality for every op sequence / piece size / boundary alignment: quantifies over runtime byte values; no sound static argument in reach (structural necessary conditions are decided under C06/C09)',
    'C05': 'depends on where a brotli stream happens to end relative to the requested output and on a relation between two runs (monotonicity); runtime quantities inside a dependency',
    'C11': 'numeric identities between tagged/untagged and compressed/uncompressed offset spaces for every stream length; wrong values, not wrong shapes (its panicking subset is decided under C08)',
    'C17': 'equality of file bytes and process outputs across CLI command pipelines; runtime facts about files and processes',
}

PENDING = {}  # filled below for properties whose rules are not built yet


def main():
    all_ids = ['C%02d' % i for i in range(1, 21)]
    checks = []
    for pid in all_ids:
        if pid in CLAIMS:
            tech, ref, text = CLAIMS[pid]
            checks.append({
                'property_id': pid,
                'quick_cmd': './check %s --tier quick' % pid,
                'thorough_cmd': './check %s --tier thorough' % pid,
                'evidence_file': '/verif/evidence/%s.json' % pid,
                'replay_cmd_template': './check %s --explain {path}' % pid,
                'engine': 'mlalint',
                'level_claimed': {'category': 'other', 'text': text, 'design_ref': ref},
                'level_note': NOTE,
                'technique': 'static analysis: ' + tech,
            })
    na = []
    for pid in all_ids:
        if pid in CLAIMS:
            continue
        if pid in NOT_APPLICABLE:
            na.append({'property_id': pid, 'reason': 'static analysis not applicable: ' + NOT_APPLICABLE[pid]})
        else:
            na.append({'property_id': pid, 'reason': 'not claimed yet: static rules for this property are designed (DESIGN.md §4) but not built at this commit'})
    m = {
        'version': 1,
        'setup_cmd': 'cd /verif/engine/factsdrv && CARGO_NET_OFFLINE=true cargo +nightly build --release --offline && cd /verif && ./check C03 --tier quick >/dev/null; true',
        'hooks': {
            'guard': 'mla_verif',
            'enable': 'none: the checks are static (facts extracted by a rustc wrapper under cargo +nightly check); nothing in /repo is instrumented',
            'baseline_off_cmd': 'cd /repo && cargo test --workspace --no-fail-fast --offline',
            'source_commits': [],
            'add_only': True,
        },
        'engines': [
            {'name': 'factsdrv', 'path': 'engine/factsdrv', 'serves_properties': sorted(CLAIMS), 'kind_free_text': 'rustc_private driver dumping MIR/ADT/const facts as JSON (RUSTC_WORKSPACE_WRAPPER)'},
            {'name': 'mlalint', 'path': 'engine/mlalint', 'serves_properties': sorted(CLAIMS), 'kind_free_text': 'python rule engine: CFG, dominators, edge dominance, may/must-derive, call graph, census tables'},
        ],
        'checks': checks,
        'not_applicable': na,
        'notes': 'Single entry point ./check <id>. engine/selftest/selftest.py is a development tool (mutants and benign refactorings), not a registered check. known_findings.json lists recorded genuine defects by exact key.',
    }
    with open(os.path.join(VERIF, 'MANIFEST.json'), 'w') as f:
        json.dump(m, f, indent=1)
    print('MANIFEST.json: %d checks, %d not_applicable' % (len(checks), len(na)))


if __name__ == '__main__':
    main()
