#!/usr/bin/env python3
"""debug helper: lists census sites for a scope (c08|c02|c18)"""
import sys, os
sys.path.insert(0, os.path.dirname(os.path.abspath(__file__)))
from mlalint import core, census
from mlalint.core import *
from mlalint.rules import c08

def main():
    prog = core.Program('/verif/.cache/facts/default')
    which = sys.argv[1] if len(sys.argv) > 1 else 'c08'
    roots = c08.entry_points(prog, which)
    scope = reachable_bodies(prog, roots)
    scope = [b for b in scope if b.pkg != 'mla-fuzz-afl']
    taint = census.Taint(prog, scope, c08.param_sources(prog, which, roots))
    n = 0
    lines = {}
    for body in sorted(scope, key=lambda b: b.nkey):
        for s in census.enumerate_sites(prog, body):
            why = census.discharge(prog, body, s)
            t = taint.site_tainted(s)
            n += 1
            src = ''
            sp = s.term.span
            if sp:
                fn = '/repo/' + sp['file']
                if fn not in lines and os.path.exists(fn):
                    lines[fn] = open(fn).read().splitlines()
                if fn in lines and sp['line'] <= len(lines[fn]):
                    src = lines[fn][sp['line'] - 1].strip()
            print('%s %s %-60s %s\n      %s\n      %s' % ('D' if why else '-', 'T' if t else ' ', s.loc(), s.key, why or '', src))
    print('total', n, 'bodies', len(scope))

main()
