#!/usr/bin/env python3
"""regen_leaves.py : recompute the `leaves` of every entry of tables/panic_sites.json from the current (clean, reviewed) tree.
Run only on the tree the table was reviewed against: the leaves are the rename-proof description of what each reviewed site's operands
are computed from; they are what the same-inputs fallback of the census compares. Reasons and classes are not touched."""
import sys, os, json, importlib.util, importlib.machinery, subprocess
HERE = os.path.dirname(os.path.abspath(__file__))
sys.path.insert(0, HERE)
assert subprocess.run(['git', '-C', '/repo', 'status', '--porcelain'], capture_output=True, text=True).stdout.strip() == '', 'repo not clean'
ld = importlib.machinery.SourceFileLoader('checkmod', os.path.join(os.path.dirname(HERE), 'check'))
spec = importlib.util.spec_from_loader('checkmod', ld)
ck = importlib.util.module_from_spec(spec)
ld.exec_module(ck)
from mlalint import census
prog, h = ck.get_facts('default')
p = os.path.join(HERE, 'tables', 'panic_sites.json')
t = json.load(open(p))
bykey = {}
for body in prog.bodies():
    for s in census.enumerate_sites(prog, body):
        bykey.setdefault(s.key, (body, s))
n = miss = 0
for e in t['sites']:
    hit = bykey.get(e['key'])
    if hit is None and e.get('anywhere'):
        base = e['key'].rsplit('#', 1)[0]
        hit = next((v for k, v in bykey.items() if k.rsplit('#', 1)[0] == base), None)
    if hit is None:
        miss += 1
        print('no site for', e['key'])
        continue
    e['leaves'] = json.loads(json.dumps(census.site_leaves(hit[0], hit[1])))
    acc = census.accumulator_field(prog, hit[0], hit[1])
    if acc:
        e['accumulator'] = acc
    else:
        e.pop('accumulator', None)
    n += 1
json.dump(t, open(p, 'w'), indent=1)
print('leaves recomputed for %d entries, %d without a site' % (n, miss))
