"""Runs the compile-fail witness crate (engine/witnesses) -- thorough tier helper shared by C07 and C10."""
import os, re, shutil, subprocess, time

EXPECTED = 10


def run_witnesses(rep, verif, repo, rule, prefixes):
    wdir = os.path.join(verif, 'engine', 'witnesses')
    t0 = time.time()
    env = dict(os.environ, CARGO_NET_OFFLINE='true', CARGO_TARGET_DIR=os.path.join(verif, '.cache', 'target-witness'))
    try:
        shutil.copy(os.path.join(repo, 'Cargo.lock'), os.path.join(wdir, 'Cargo.lock'))
    except Exception:
        pass
    r = subprocess.run(['cargo', '+nightly', 'test', '--doc', '--offline'], cwd=wdir, env=env, capture_output=True, text=True)
    out = r.stdout + r.stderr
    results = re.findall(r'test src/lib.rs - (\w+) \(line \d+\) - (compile fail|compile) \.\.\. (\w+)', out)
    mine = [x for x in results if x[0].startswith(prefixes)]
    n_fail = sum(1 for x in mine if x[1] == 'compile fail')
    n_twin = sum(1 for x in mine if x[1] == 'compile')
    bad = [x for x in mine if x[2] != 'ok']
    ok = r.returncode == 0 and not bad and n_fail >= 1 and n_fail == n_twin and len(results) >= EXPECTED
    rep.ob(rule, ok, '%s|witnesses|%s' % (rule, '+'.join(prefixes)), '%d compile-fail witnesses rejected with the expected error code and %d compiling twins accepted' % (n_fail, n_twin) if ok else
           'witness doctests did not behave as expected: %s %s' % (bad, out[-500:]), '-')
    return {'witness_cmd': 'cargo +nightly test --doc --offline (engine/witnesses)', 'witness_wall_s': round(time.time() - t0, 1), 'witnesses': [list(x) for x in mine]}
