"""C18 -- key files: parsing is total (crash clause only)."""
from ..core import *
from .. import census
from . import c08

EXPLANATION = ("Panic-site census over everything reachable from the public parse_* functions of curve25519-parser with their `data` parameter as the taint "
               "source: every MIR Assert and panicking API call (index, slice range, copy_from_slice, unwrap/expect) must be discharged by a dominating "
               "length fact (data.len() != 34 -> return), a fixed-size type (GenericArray<u8, U64>) or equal constant lengths, or be listed as reviewed. "
               "Removing or weakening the length test re-opens the sites. (R18.2) parse_openssl_25519_pubkeys_pem_many pushes the key of every PEM block, once, in "
               "iteration order, and never removes or reorders. (R18.3) whatever pem::parse rejects goes to the DER parser unmodified; (R18.5) in the key-list parser a PEM block with another label than PUBLIC KEY ends the call with an error (no path from the mismatch edge back to the next block / to an Ok item); (R18.6) each DER structure parser (closure over parse_der_* primitives) returns Ok only on the Continue edge of `eof(rest)?`: extra elements inside a SEQUENCE are refused; (R18.4) a key structure whose algorithm identifier is neither ED_25519_OID nor X_25519_OID is refused: with the equal-edges of the two comparisons cut, no Ok result is reachable in the entry point or in a parser it runs. Round-trip of generated keys and Edwards->Montgomery conversion are numeric / runtime facts and not decided.")
TRUSTED = ['rustc MIR', 'der-parser, nom, pem, curve25519-dalek, sha2 do not panic on arbitrary bytes (dependencies are not analysed)']
ASSUMPTIONS = ['overflow checks on']


OIDS = ('ED_25519_OID', 'X_25519_OID')


def _oid_positive_edges(prog, body):
    """(edges on which the parsed OID is known to equal one of the two supported constants, set of constants compared)"""
    edges, seen = [], set()
    for bl in body.blocks:
        r = branch_on_call(prog, body, bl.idx)
        if not r or r[1].cmethod not in ('eq', 'ne') or len(r[1].args) != 2:
            continue
        names = []
        for a in r[1].args:
            e = deref_expr(body, expr_of(body, a))
            while e[0] == 'ref' or e[0] == 'cast':
                break
            if e[0] == 'const':
                d = (e[2] or {}).get('promoted_def') or (e[2] or {}).get('def') or ''
                if d.rsplit('::', 1)[-1] in OIDS:
                    names.append(d.rsplit('::', 1)[-1])
        if len(names) != 1:
            continue
        seen.add(names[0])
        edges.append((bl.idx, r[2]))      # branch_on_call reports `ne` with the polarity of equality: r[2] is the edge taken when the two are equal
    return edges, seen


def _ok_blocks(body):
    out = []
    for bl in body.blocks:
        if bl.cleanup:
            continue
        for st in bl.stmts:
            if st.kind == 'assign' and st.rv.r == 'aggregate' and st.rv.j.get('variant') == 'Ok' and 'Result' in (st.rv.j.get('adt') or '') and st.place == (0, ()):
                out.append(bl.idx)
        t = bl.term
        if t.kind == 'call' and t.dest == (0, ()) and t.cmethod in ('ok_or', 'ok_or_else', 'map', 'map_err', 'and_then'):
            out.append(bl.idx)      # tail combinator producing the result
    return out


def _oid_lookup_classifier(prog, cp, fam):
    """a function of the family that classifies an OID by looking it up in a constant table built from ED_25519_OID and X_25519_OID:
    `TABLE.iter().find(|(known, _)| known == oid).map(..).ok_or(Err)` -- its result must-derives from that find, the closure compares its item with the
    captured / passed OID, and the table's initializer refers to exactly the two constants (driver fact `refs`)."""
    for b in fam:
        if b.kind == 'Closure':
            continue
        finds = [c for c in b.calls() if c.term.cmethod in ('find', 'find_map', 'position') and c.term.ctrait == 'std::iter::Iterator' and len(c.term.args) == 2]
        if len(finds) != 1:
            continue
        f = finds[0]
        # the iterated collection is a named constant table made of the two OIDs
        ro = origins(b, [f.term.args[0].place[0]]) if f.term.args[0].place is not None else None
        tables = [k.get('def') for k in (ro.consts if ro else []) if k.get('def')]
        good_table = False
        for tname in tables:
            centry = cp.consts.get(tname) or next((c for p_, c in cp.consts.items() if p_.endswith('::' + tname.rsplit('::', 1)[-1])), None)
            refs = {r.rsplit('::', 1)[-1] for r in (centry or {}).get('refs', [])}
            if refs and refs >= set(OIDS) and not (refs - set(OIDS) - {r for r in refs if not r.endswith('_OID')}):
                good_table = True
        if not good_table:
            continue
        # the predicate is an equality test
        ce = expr_of(b, f.term.args[1])
        if ce[0] != 'agg' or ce[3].j.get('agg') != 'closure':
            continue
        clo = prog.body(b.pkg, ce[3].j['closure'])
        if clo is None or not any(c.term.cmethod in ('eq', 'ne') for c in clo.calls()):
            continue
        # the function's result is that lookup (Err when nothing matched)
        if not must_derive(b, 0, lambda k, ob, bb: k == 'call' and bb == f.idx, extra_transparent=('map', 'ok_or', 'ok_or_else', 'copied', 'cloned')):
            continue
        return b
    return None


def r18_5(prog, rep):
    """"on any other input the parsers return an error": in the list parser every PEM block counts -- a block whose label is not PUBLIC KEY ends the call with an
    error. On the mismatch edge of the label comparison no path leads back to the next block (variant-tracked)."""
    body = one_body(prog, rep, 'R18.5', 'curve25519-parser', exact='parse_openssl_25519_pubkeys_pem_many')
    if body is None:
        return
    rep.fn(body)
    key = 'R18.5|%s|foreign-pem-block-is-an-error' % body.nkey
    found = 0
    bad = []
    for bd in [body] + prog.closures_of(body):
        loops = bd.loop_blocks()
        nexts = [b for b in bd.calls() if b.term.cmethod == 'next' and b.idx in loops]
        for bl in bd.blocks:
            r = branch_on_call(prog, bd, bl.idx)
            if not r or r[1].cmethod not in ('eq', 'ne') or len(r[1].args) != 2:
                continue
            if not any((lambda e: e[0] == 'const' and (((e[2] or {}).get('promoted_def') or (e[2] or {}).get('def') or '').endswith('PUBLIC_TAG')))(deref_expr(bd, expr_of(bd, a))) for a in r[1].args):
                continue
            found += 1
            reach = reachable_vs(bd, r[3])      # r[3]: the edge taken when the two are not equal
            if bd is body and nexts:
                if any(n.idx in reach for n in nexts):
                    bad.append(bd.loc(bl.idx))
            else:
                # per-block closure of an iterator chain (or no loop): the mismatch edge yields no Ok item
                if [x for x in _ok_blocks(bd) if x in reach]:
                    bad.append(bd.loc(bl.idx))
    if not found:
        rep.ob('R18.5', False, key, 'anchor: no comparison of a block label with PUBLIC_TAG found', body.loc())
        return
    rep.ob('R18.5', not bad, key, 'a block with another label ends the call (no way back to the next block / no Ok item)' if not bad else
           'a PEM block whose label is not PUBLIC KEY is skipped (%s): a private key or a certificate in the list is silently ignored instead of refused' % ', '.join(bad), body.loc())


def r18_4(prog, rep):
    """"on any other input the parsers return an error": a key structure announcing another algorithm (X448, Ed448, ..) is refused. For each DER entry point,
    either no Ok result is reachable in it once the equal-edges of its comparisons with ED_25519_OID and X_25519_OID are cut (both constants being compared),
    or the same holds in a parser function / combinator closure it runs (an OID check at header level)."""
    cp = prog.crates['curve25519-parser']
    for name in ('parse_openssl_25519_pubkey_der', 'parse_openssl_25519_privkey_der'):
        E = one_body(prog, rep, 'R18.4', 'curve25519-parser', exact=name)
        if E is None:
            continue
        rep.fn(E)
        fam = [b for b in reachable_bodies(prog, [E]) if b.pkg == 'curve25519-parser']
        verdicts = []
        for b in [E] + [x for x in fam if x.key != E.key]:
            edges, seen = _oid_positive_edges(prog, b)
            if seen != set(OIDS):
                continue
            r = reachable_vs(b, 0, removed_edges=edges)
            oks = [x for x in _ok_blocks(b) if x in r]
            verdicts.append((b.nkey, not oks))
        ok = any(v for _, v in verdicts)
        if not ok:
            lk = _oid_lookup_classifier(prog, cp, fam)
            if lk is not None:
                # every Ok result of the entry point lies behind the success of that classification (its error leaves through `?`)
                calls = [b for b in E.calls() if (lambda r: r[1] and len(r[0]) == 1 and r[0][0].key == lk.key)(resolve_call(prog, E, b.term))]
                cut = []
                for cb in calls:
                    env_cut = [b2 for b2 in E.calls() if b2.term.cmethod == 'branch' and b2.term.args and b2.term.args[0].place is not None and b2.term.args[0].place[0] == cb.term.dest[0]]
                    for br in env_cut:
                        si = switch_info(prog, E, br.term.target)
                        if si and si['kind'] == 'enum' and enum_arm_target(si, 'Continue') is not None:
                            cut.append((br.term.target, enum_arm_target(si, 'Continue')))
                if calls and cut and not [x for x in _ok_blocks(E) if x in reachable_vs(E, 0, removed_edges=cut)]:
                    ok = True
                    verdicts.append((lk.nkey + ' (lookup in a table of the two OIDs)', True))
        rep.ob('R18.4', ok, 'R18.4|%s|unknown-algorithm-refused' % E.nkey,
               'an Ok result requires the OID to equal ED_25519_OID or X_25519_OID (%s)' % ', '.join(k for k, v in verdicts if v) if ok else
               'a key whose algorithm identifier is neither Ed25519 nor X25519 is not refused: no function on this parse path makes its Ok results depend on both OID comparisons '
               '(%s)' % (', '.join('%s: Ok reachable without a match' % k for k, v in verdicts) or 'no function compares the OID with both constants'), E.loc())


def r18_6(prog, rep, RULE='R18.6'):
    """"on any other input the parsers return an error": a key structure is the documented SEQUENCEs and nothing more. der-parser's container combinators
    hand the closure the content of the object and *drop* whatever the closure leaves unparsed, so each closure handed to such a combinator
    (parse_der_container, parse_der_sequence_defined_g ..) reaches its Ok result only after `eof` was applied to the remaining input and its error
    propagated. (Whether the object is a SEQUENCE at all is left to the combinator / the tag test and not decided here.)"""
    cp = prog.crates['curve25519-parser']
    n = 0
    # the closures handed to a der-parser container combinator (the combinator gives them the content of the object and drops their rest); a field
    # closure handed to a helper of this crate that frames it is not one -- the helper's own container closure is
    conts = []
    for parent in cp.bodies:
        for pb in parent.calls():
            t = pb.term
            if 'der_parser' not in cnorm(t) or not t.cmethod.startswith(('parse_der_', 'parse_ber_')) or not any(x in t.cmethod for x in ('container', '_defined_g')):
                continue
            for a_ in t.args:
                e = expr_of(parent, a_)
                if e[0] == 'agg' and e[3].j.get('agg') == 'closure':
                    cb_ = prog.body('curve25519-parser', e[3].j['closure'])
                    if cb_ is not None and cb_ not in conts:
                        conts.append(cb_)
    for c in conts:
        prims = [b for b in c.calls()]
        n += 1
        rep.fn(c)
        oks = [(bl.idx, i) for bl in c.blocks if not bl.cleanup for i, st in enumerate(bl.stmts)
               if st.kind == 'assign' and st.place == (0, ()) and st.rv.r == 'aggregate' and st.rv.j.get('variant') == 'Ok']
        eofs = [b for b in c.calls() if b.term.cmethod in ('eof', 'all_consuming') and 'nom' in cnorm(b.term)]
        good = []
        for e in eofs:
            # the verdict of eof is propagated: its result goes to `?`
            if e.term.dest is None:
                continue
            br = [b for b in c.calls() if b.term.cmethod == 'branch' and b.term.args and b.term.args[0].place is not None and b.term.args[0].place[0] == e.term.dest[0]]
            # ... and it looks at what the last primitive left
            src_ok = e.term.args and e.term.args[0].place is not None and bool(origins(c, [e.term.args[0].place[0]]).calls - {e.idx})
            if br and src_ok:
                si = switch_info(prog, c, br[0].term.target) if br[0].term.target is not None else None
                cont = enum_arm_target(si, 'Continue') if si and si['kind'] == 'enum' else None
                if cont is not None:
                    good.append((br[0].term.target, cont))
        bad = [c.loc(bb, i) for (bb, i) in oks if not any(c.edge_dominates(e, bb) for e in good)]
        ok = bool(oks) and not bad
        rep.ob(RULE, ok, RULE + '|%s|structure-fully-consumed' % c.nkey, 'Ok only after eof(remaining input) succeeded' if ok else
               'a DER structure parser returns Ok without having checked that nothing is left in the object (%s): the container combinator drops the unparsed rest, so a '
               'key file with extra elements inside its SEQUENCE -- a second key, parameters after the OID -- is accepted' % (', '.join(bad) or 'no Ok result found'), c.loc())
    rep.floor(RULE, n, 1, 'closures handed to a der-parser container combinator in curve25519-parser')


def run(prog, rep, tier):
    scope, taint, seen, table = c08.run_census(prog, rep, 'c18', 'PANIC18')
    r18_4(prog, rep)     # unknown algorithm identifiers are refused
    r18_5(prog, rep)     # foreign PEM blocks in a key list are refused
    r18_6(prog, rep)     # nothing may be left inside the SEQUENCEs of a key structure
    rep.note('%d panic sites in the key-parser scope' % len(seen))
    # positive control: the parser still has its indexing sites and they are discharged by facts, not by the table
    via_table = [k for k in seen if k in table]
    rep.ob('PANIC18', not via_table, 'PANIC18|curve25519-parser|all-sites-discharged-structurally', 'all %d sites discharged by length facts / fixed sizes' % len(seen) if not via_table else
           'parser sites rely on table entries: %s' % via_table, '-')

    r18_2(prog, rep)
    r18_3(prog, rep)


VEC_REORDER = {'remove', 'swap_remove', 'retain', 'retain_mut', 'dedup', 'dedup_by', 'dedup_by_key', 'sort', 'sort_by', 'sort_by_key', 'sort_unstable',
               'sort_unstable_by', 'sort_unstable_by_key', 'reverse', 'truncate', 'clear', 'insert', 'pop', 'drain', 'split_off', 'swap', 'rotate_left',
               'rotate_right', 'append', 'extend', 'resize'}


def r18_2(prog, rep):
    """"several concatenated PEM public keys parse to the same keys in order" -- the structural part: in parse_openssl_25519_pubkeys_pem_many every
    PEM block whose key parsed successfully contributes exactly one push of that parse result to the returned vector (no path from the successful
    parse back to the iterator skips the push), and the vector is only ever pushed to (no removal, de-duplication or reordering)."""
    body = one_body(prog, rep, 'R18.2', 'curve25519-parser', exact='parse_openssl_25519_pubkeys_pem_many')
    if body is None:
        return
    rep.fn(body)
    nxt = [b for b in body.calls() if b.term.cmethod == 'next' and b.term.ctrait == 'std::iter::Iterator']
    parses = [b for b in body.calls() if cnorm(b.term).endswith('parse_openssl_25519_pubkey_der')]
    pushes = [b for b in body.calls() if b.term.cmethod == 'push' and 'Vec' in cnorm(b.term)]
    if not nxt and not pushes and not parses:
        return r18_2_collect(prog, rep, body)
    if len(nxt) != 1 or len(parses) != 1 or len(pushes) != 1:
        rep.ob('R18.2', False, 'R18.2|%s|anchors' % body.nkey, 'expected one iterator step, one per-block parse and one push (found %d / %d / %d)' % (len(nxt), len(parses), len(pushes)), body.loc())
        return
    n, pz, pu = nxt[0], parses[0], pushes[0]
    # pushed value = the Ok payload of the per-block parse
    a = pu.term.args[1]
    okv = a.place is not None and must_derive(body, a.place[0], lambda k, ob, bb: k == 'call' and bb == pz.idx, extra_transparent=('branch',))
    rep.ob('R18.2', bool(okv), 'R18.2|%s|pushed-value-is-parsed-key' % body.nkey, 'the pushed element is the result of parse_openssl_25519_pubkey_der for this block' if okv else
           'the element pushed is not (only) the key parsed from the current PEM block', body.loc(pu.idx))
    # from the success of the parse, the next iterator step is not reachable without the push
    succ = None
    for sbb, si in arm_of_enum_switch(prog, body):
        if si['adt'] in ('std::ops::ControlFlow', 'std::result::Result') and pz.idx in origins(body, [si['place'][0]], through_calls=True).calls and body.dominates(pz.idx, sbb):
            t = enum_arm_target(si, 'Continue') if si['adt'] == 'std::ops::ControlFlow' else enum_arm_target(si, 'Ok')
            if t is not None:
                succ = (sbb, t)
    if succ is None:
        rep.ob('R18.2', False, 'R18.2|%s|anchor|parse-success-edge' % body.nkey, 'no branch on the result of the per-block parse found', body.loc(pz.idx))
    else:
        r = body.reachable(succ[1], removed_blocks=[pu.idx])
        skip = n.idx in r or any(x in r for x in body.return_blocks())
        rep.ob('R18.2', not skip, 'R18.2|%s|every-parsed-key-pushed' % body.nkey, 'after a successful parse the only way on is through push' if not skip else
               'a successfully parsed key can be left out of the result (a path from the parse to the next block / the return avoids push): the keys returned are no longer '
               'the keys of the input, one per block, in order', body.loc(pu.idx))
    # the result vector is only pushed to
    vo = origins(body, [pu.term.args[0].place[0]], through_calls=False).locals
    bad = []
    for ent_l in vo:
        for ent in mutarg_defs(body).get(ent_l, []):
            t = ent[1]
            if t.cmethod in VEC_REORDER:
                bad.append(t.cmethod)
    rep.ob('R18.2', not bad, 'R18.2|%s|result-only-pushed' % body.nkey, 'the result vector is only appended to' if not bad else 'the result vector is also modified by %s' % sorted(set(bad)), body.loc())
    # Ok(result) returns that vector
    oks = [(bl.idx, i, st) for bl in body.blocks if not bl.cleanup for i, st in enumerate(bl.stmts)
           if st.kind == 'assign' and st.place == (0, ()) and st.rv.r == 'aggregate' and st.rv.j.get('variant') == 'Ok']
    okr = len(oks) == 1 and oks[0][2].rv.ops[0].place is not None and bool(origins(body, [oks[0][2].rv.ops[0].place[0]], through_calls=False).locals & vo)
    rep.ob('R18.2', okr, 'R18.2|%s|returns-the-pushed-vector' % body.nkey, 'Ok(..) returns the vector the keys were pushed to' if okr else 'the Ok result is not the vector the keys were pushed to', body.loc())


def r18_3(prog, rep):
    """"PEM and DER forms of the same key parse identically" -- structural part: the PEM-or-DER entry points hand every input the PEM parser does not
    accept to the DER parser as is (whatever its bytes look like), and what the PEM parser accepts to the same DER parser: with the PEM parse known
    to have failed, every path to the return passes the call `parse_..._der(data)` on the untouched parameter."""
    for name, der in (('parse_openssl_25519_pubkey', 'parse_openssl_25519_pubkey_der'), ('parse_openssl_25519_privkey', 'parse_openssl_25519_privkey_der')):
        body = one_body(prog, rep, 'R18.3', 'curve25519-parser', exact=name)
        if body is None:
            continue
        rep.fn(body)
        key = 'R18.3|%s|' % body.nkey
        from ..inline import inlined_body
        body = inlined_body(prog, body, skip=(der, 'parse_openssl_25519_pubkey_der', 'parse_openssl_25519_privkey_der'))   # a shared PEM-or-DER helper is examined in place

        def is_der_call(t):
            if t.kind != 'call':
                return False
            if 'indirect' in t.callee:
                # call through a function pointer that is the DER parser reified (`parse_der: fn(&[u8]) -> ..` parameter of a shared helper)
                ip = Op(t.callee['indirect'])
                if ip.place is None:
                    return False
                o = origins(body, [ip.place[0]], through_calls=False)
                fns = {(c.get('fn') or '') for c in o.consts}
                return bool(fns) and all(f.endswith(der) for f in fns)
            return cnorm(t).endswith(der)
        pp = [b for b in body.calls() if 'indirect' not in b.term.callee and (cnorm(b.term) in ('pem::parse', 'pem::parser::parse') or (b.term.cmethod == 'parse' and 'pem' in cnorm(b.term)))]
        ders = [b for b in body.blocks if not b.cleanup and is_der_call(b.term)]
        if len(pp) != 1 or not ders:
            rep.ob('R18.3', False, key + 'anchors', 'expected one pem::parse call and calls to %s (found %d / %d)' % (der, len(pp), len(ders)), body.loc())
            continue
        p0 = pp[0]
        raw = [d for d in ders if d.term.args[0].place is not None and must_derive(body, d.term.args[0].place[0], lambda k, ob, bb: k == 'param' and ob == 1)]
        # paths on which pem::parse returned Err, cut at the DER call on the raw input
        r = reachable_vs(body, p0.term.target, removed_blocks=[d.idx for d in raw], env0={p0.term.dest[0]: 'Err'}) if p0.term.target is not None and p0.term.dest is not None else set()
        bad = [x for x in body.return_blocks() if x in r]
        # the PEM parser sees the input first and unconditionally (no pre-filter deciding the format from the look of the bytes)
        pre = body.dominates(p0.idx, body.return_blocks()[0]) if body.return_blocks() else False
        okp = p0.term.args[0].place is not None and must_derive(body, p0.term.args[0].place[0], lambda k, ob, bb: k == 'param' and ob == 1)
        ok = bool(raw) and not bad and pre and okp
        rep.ob('R18.3', ok, key + 'der-fallback-on-any-pem-failure', 'whatever pem::parse rejects is parsed as DER, unmodified' if ok else
               'an input that the PEM parser rejects can be refused without being tried as DER (or the format is decided before parsing): a valid DER key whose bytes '
               'happen to look like text no longer parses, although its PEM form does', body.loc(p0.idx))
        pem_ok = [d for d in ders if d not in raw]
        okc = any(d.term.args[0].place is not None and p0.idx in origins(body, [d.term.args[0].place[0]]).calls for d in pem_ok)
        rep.ob('R18.3', okc, key + 'pem-contents-to-same-der-parser', 'PEM contents go to %s' % der if okc else 'the contents of a PEM block are not handed to %s' % der, body.loc())


ITER_ORDER_PRESERVING = {'iter', 'into_iter', 'map', 'collect', 'by_ref', 'copied', 'cloned', 'deref', 'as_slice', 'as_ref', 'branch', 'from_residual', 'into', 'from',
                         'parse_many', 'map_err', 'inspect_err', 'inspect'}


def r18_2_collect(prog, rep, body):
    """iterator form of the same function: `parse_many(data)?.iter().map(|block| .. parse_der(block.contents())).collect()`. One element per
    PEM block, in order, as long as the chain from parse_many to the result only uses one-to-one, order-preserving adapters (map; never filter,
    rev, skip, take, dedup, ...) and the closure's Ok value is the key parsed from its block."""
    key = 'R18.2|%s|' % body.nkey
    o = origins(body, [0])
    chain = [body.blocks[c].term for c in o.calls]
    pm = [t for t in chain if t.cmethod == 'parse_many']
    col = [t for t in chain if t.cmethod == 'collect' and t.ctrait == 'std::iter::Iterator']
    maps = [t for t in chain if t.cmethod == 'map' and t.ctrait == 'std::iter::Iterator']
    other = sorted({t.cmethod for t in chain if t.cmethod not in ITER_ORDER_PRESERVING})
    ok = len(pm) == 1 and len(col) == 1 and len(maps) == 1 and not other
    rep.ob('R18.2', ok, key + 'every-parsed-key-pushed', 'result = parse_many(..).iter().map(parse).collect(): one element per PEM block, in order' if ok else
           'the result is not built by a one-to-one, order-preserving iterator chain over the PEM blocks (parse_many=%d map=%d collect=%d other adapters=%s)'
           % (len(pm), len(maps), len(col), other), body.loc())
    clos = [c for c in prog.closures_of(body) if any(cnorm(b.term).endswith('parse_openssl_25519_pubkey_der') for b in c.calls())]
    okc = len(clos) == 1
    if okc:
        c = clos[0]
        rep.fn(c)
        pz = [b for b in c.calls() if cnorm(b.term).endswith('parse_openssl_25519_pubkey_der')]
        okc = len(pz) == 1 and must_derive_ip(prog, c, 0, lambda k, ob, bb: k == 'call' and bb == pz[0].idx, extra_transparent=('branch',))
    rep.ob('R18.2', bool(okc), key + 'pushed-value-is-parsed-key', 'the closure yields the key parsed from its PEM block' if okc else 'the mapping closure does not (only) yield the key parsed from its block', body.loc())


def thorough_extra(rep, verif, repo):
    return c08.clippy_superset(rep, verif, repo, 'PANIC18.x', ['curve25519-parser'])
