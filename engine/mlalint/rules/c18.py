"""C18 -- key files: parsing is total (crash clause only)."""
from ..core import *
from .. import census
from . import c08

EXPLANATION = ("Panic-site census over everything reachable from the public parse_* functions of curve25519-parser with their `data` parameter as the taint "
               "source: every MIR Assert and panicking API call (index, slice range, copy_from_slice, unwrap/expect) must be discharged by a dominating "
               "length fact (data.len() != 34 -> return), a fixed-size type (GenericArray<u8, U64>) or equal constant lengths, or be listed as reviewed. "
               "Removing or weakening the length test re-opens the sites. Round-trip of generated keys and Edwards->Montgomery conversion are numeric / "
               "runtime facts and not decided.")
TRUSTED = ['rustc MIR', 'der-parser, nom, pem, curve25519-dalek, sha2 do not panic on arbitrary bytes (dependencies are not analysed)']
ASSUMPTIONS = ['overflow checks on']


def run(prog, rep, tier):
    scope, taint, seen, table = c08.run_census(prog, rep, 'c18', 'PANIC18')
    rep.floor('PANIC18', len(seen), 3, 'panic sites in the key-parser scope')
    # positive control: the parser still has its indexing sites and they are discharged by facts, not by the table
    via_table = [k for k in seen if k in table]
    rep.ob('PANIC18', not via_table, 'PANIC18|curve25519-parser|all-sites-discharged-structurally', 'all %d sites discharged by length facts / fixed sizes' % len(seen) if not via_table else
           'parser sites rely on table entries: %s' % via_table, '-')


def thorough_extra(rep, verif, repo):
    return c08.clippy_superset(rep, verif, repo, 'PANIC18.x', ['curve25519-parser'])
