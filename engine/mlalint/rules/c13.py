"""C13 -- results do not depend on how the byte sink and source split transfers (clause level)."""
from ..core import *
from .. import census

EXPLANATION = ("Static MIR census over the workspace (mla, mlar, mla-bindings-c): (R13.1) every raw std::io::Write::write call sits in an `impl Write::write` "
               "whose returned count must-derives from that call's result (pass-through), and no field of self is updated from the requested length "
               "instead of the accepted count; (R13.2) no raw write outside such pass-through bodies: all other transfers use write_all / io::copy / "
               "byteorder / bincode (which loop over short writes); (R13.3) every raw Read::read count is used -- returned by an `impl Read::read`-style "
               "body or accumulated into an offset inside a fill loop -- and chunk loads feeding decrypt come from read_to_end(take(inner, const)); "
               "(R13.4) an `impl Read::read` returning a count produced by BrotliDecompressStream excludes 0 before returning Ok(count) mid-stream. "
               "(R13.5) every block decompressor of the compression reader is built on an inner reader that sync_inner_with_uncompressed_pos has just positioned absolutely "
               "(never where the previous decompressor happened to stop); (R13.6) a stream that delivered exactly UNCOMPRESSED_DATA_SIZE bytes is still handed to the decoder; (R13.7) = R10.5; "
               "(R13.9) the count returned by a raw read is only ever compared with 0 (a short count is not the end of the source); (R13.11) no `impl Read::read` builds an error on the edge of a comparison of its own loop-round counter with a constant; (R13.10) an error of the destination that a writer keeps for later (Option<io::Error> stored from an `impl Write` function) is stored only on the not-Interrupted edge of a comparison of its kind(); (R13.8) on the write path (everything reachable from the writer layers' `impl Write`) no io::Error is rebuilt from a received io::Error without taking over its kind(): `Interrupted` from the destination stays retryable for write_all / io::copy / brotli. Equality of the resulting archives is runtime and not decided.")
TRUSTED = ['brotli: BrotliResult::NeedsMoreOutput is returned only when the output window is full', 'rustc MIR', 'std::io::Write::write_all / io::copy / Read::read_exact / read_to_end loop over partial transfers and retry Interrupted', 'byteorder, bincode use the complete forms']
ASSUMPTIONS = ['a sink or source respects the Read/Write contracts (count <= buffer length)']

PKGS = ('mla', 'mlar', 'mla-bindings-c')
RAW_W = {'write', 'write_vectored'}
RAW_R = {'read', 'read_vectored', 'read_buf'}


PROG = None


def ok_payload_locals(body, call_blk):
    """integer locals that are (copies of) the Ok payload of the Result produced by call_blk"""
    d = call_blk.term.dest
    if d is None or d[1]:
        return set()
    is_src = lambda k, ob, bb: k == 'call' and bb == call_blk.idx
    cand = forward_locals(body, [d[0]], through_calls=True)
    return {l for l in cand if body.lty(l) in ('usize', 'u64', 'u32') and l > body.arg_count and must_derive(body, l, is_src, extra_transparent=('branch',))}


def returns_count_of(body, call_blk, siblings=()):
    """the function's Ok result must-derives from raw transfer calls of the same kind (this one among them): tail call, `Ok(n)` with n the
    payload, `result` moved into _0, or inspect/map_err combinators. Error results (from_residual, Err(..)) are neutral."""
    if call_blk.term.dest == (0, ()):
        return True
    idxs = {call_blk.idx} | {b.idx for b in siblings}

    def is_src(k, ob, bb):
        if k == 'call' and bb in idxs:
            return True
        if k == 'call' and ob.cmethod == 'from_residual':
            return True   # error propagation
        if k == 'assign' and ob.kind == 'assign' and ob.rv.r == 'aggregate' and ob.rv.j.get('variant') == 'Err':
            return True
        if k == 'assign' and ob.kind == 'assign' and ob.rv.r == 'aggregate' and ob.rv.j.get('variant') == 'Ok' and ob.rv.ops and ob.rv.ops[0].kind == 'const' and ob.rv.ops[0].const_int() == 0:
            return True   # explicit end of stream
        if k == 'call' and cnorm(ob) == norm(body.defpath):
            return True   # recursion into the same function
        return False
    def reaches(l):
        return call_blk.idx in origins(body, [l]).calls
    # `.and_then(|n| { ..; Ok(n) })`: the closure hands the count on unchanged (or fails): as transparent as inspect
    transparent = ['inspect', 'map_err']
    ats = [b for b in body.calls() if b.term.cmethod == 'and_then' and 'Result' in cnorm(b.term) and len(b.term.args) == 2]
    if ats and PROG is not None:
        def passes_count(t):
            e = expr_of(body, t.args[1])
            if e[0] != 'agg' or e[3].j.get('agg') != 'closure':
                return False
            C = PROG.body(body.pkg, e[3].j['closure'])
            if C is None:
                return False

            def csrc(k, ob, bb):
                if k == 'call' and ob.cmethod == 'from_residual':
                    return True
                if k == 'assign' and ob.kind == 'assign' and ob.rv.r == 'aggregate' and ob.rv.j.get('variant') == 'Err':
                    return True
                if k == 'assign' and ob.kind == 'assign' and ob.rv.r == 'aggregate' and ob.rv.j.get('variant') == 'Ok' and ob.rv.ops and ob.rv.ops[0].place is not None:
                    return must_derive(C, ob.rv.ops[0].place[0], lambda k2, o2, b2: k2 == 'param' and o2 == 2)
                return False
            return must_derive(C, 0, csrc)
        if all(passes_count(b.term) for b in ats):
            transparent.append('and_then')
    # whole result moved / combinators
    if must_derive(body, 0, lambda k, ob, bb: is_src(k, ob, bb) or (k == 'assign' and ob.kind == 'assign' and ob.rv.r == 'aggregate' and ob.rv.j.get('variant') == 'Ok' and False),
                   extra_transparent=tuple(transparent)) and reaches(0):
        return True
    oks = []
    other_defs = False
    for (bb, si, kind, obj) in body.defs.get(0, []):
        if kind == 'assign' and obj.kind == 'assign' and obj.rv.r == 'aggregate' and obj.rv.j.get('variant') == 'Ok':
            oks.append(obj)
    good = False
    for s in oks:
        op = s.rv.ops[0]
        if op.place is not None and body.lty(op.place[0]) in ('usize', 'u64'):
            if must_derive(body, op.place[0], is_src, extra_transparent=('branch',)) and reaches(op.place[0]):
                good = True
    return good


def decoder_zero_count_rule(prog, rep, RULE='R13.4'):
    """an `impl Read::read` that returns a count produced by BrotliDecompressStream excludes 0 before returning Ok(count) mid-stream (shared with C02: the
    repair loop takes Ok(0) for the end of a block)"""
    mla = prog.crates['mla']
    for body in mla.bodies:
        if body.impl_trait != 'std::io::Read' or body.name != 'read' or body.kind == 'Closure':
            continue
        dec = [b for b in body.calls() if cnorm(b.term).endswith('BrotliDecompressStream')]
        if not dec:
            continue
        rep.fn(body)
        d = dec[0]
        # out-parameters of the decoder that are counts
        outs = set()
        for a, aty in zip(d.term.args, d.term.arg_tys):
            if a.place is not None and aty.startswith('&mut usize'):
                outs |= {l for l in origins(body, [a.place[0]], through_calls=False).locals if body.lty(l) == 'usize'}
        oks = []
        # Ok results that follow a decode step without another fill from the inner source in between: a count produced by the decoder, or a
        # literal (`Ok(0)`) -- the latter has no count local (None)
        refill = [b.idx for b in body.calls() if b.term.ctrait == 'std::io::Read' and b.term.cmethod in RAW_R and b.idx != d.idx]
        after_dec = body.reachable(d.term.target, removed_blocks=refill) if d.term.target is not None else set()
        for bl in body.blocks:
            if bl.cleanup:
                continue
            for i, s in enumerate(bl.stmts):
                if s.kind == 'assign' and s.rv.r == 'aggregate' and s.rv.j.get('variant') == 'Ok' and 'Result' in (s.rv.j.get('adt') or '') and s.rv.ops:
                    if s.rv.ops[0].place is not None:
                        src = origins(body, [s.rv.ops[0].place[0]], through_calls=False).locals
                        if src & outs and body.dominates(d.idx, bl.idx):
                            oks.append((bl.idx, i, s.rv.ops[0].place[0]))
                    elif bl.idx in after_dec and body.lty(s.place[0]).startswith('std::result::Result<usize') and const_int_of(body, s.rv.ops[0]) == 0:
                        oks.append((bl.idx, i, None))
        # edges on which the count is known non-zero, and edges on which the caller's buffer is empty (Ok(0) is then the contractual answer)
        nz_edges = []
        for bl in body.blocks:
            si = switch_info(prog, body, bl.idx)
            if not si or si['kind'] != 'bool':
                continue
            e = expr_of(body, si['cond'])
            if e[0] == 'binop' and e[1] in ('Eq', 'Ne', 'Gt') and e[3][0] == 'const' and e[3][1] == 0 and e[2][0] == 'place' and \
                    origins(body, [e[2][1][0]], through_calls=False).locals & outs:
                nz_edges.append((bl.idx, si['false'] if e[1] == 'Eq' else si['true'], e[2][1][0]))
                continue
            r = branch_on_call(prog, body, bl.idx)
            if r and r[1].cmethod == 'is_empty' and r[1].args and r[1].args[0].place is not None and 2 in origins(body, [r[1].args[0].place[0]], through_calls=False).params:
                nz_edges.append((bl.idx, r[2], None))
        # the decoder reports NeedsMoreOutput only when the output window it was given is full: the count is then the window size, which is 0
        # only for an empty buffer or at the per-block cap (trusted brotli semantics, listed in TRUSTED)
        # ... so the paths are walked once per other outcome of the step, every `match` / `matches!` on the decoder's result restricted to that outcome
        res_switches = []
        for sbb, si in arm_of_enum_switch(prog, body):
            if 'BrotliResult' in (si['adt'] or '') and d.idx in origins(body, [si['place'][0]], through_calls=False).calls:
                res_switches.append((sbb, si))
        outcomes = [None]
        if res_switches:
            names = set()
            for sbb, si in res_switches:
                names |= set(si['arms']) | set(si['rest'])
            outcomes = sorted(names - {'NeedsMoreOutput'})
        unguarded = []
        for (bb, i, l) in oks:
            rel = [(sb, t) for sb, t, cl in nz_edges if cl is None or l is None or cl in origins(body, [l], through_calls=False).locals or l in origins(body, [cl], through_calls=False).locals]
            removed = list(rel)
            for v in outcomes:
                rem_v = []
                if v is not None:
                    for sbb, si in res_switches:
                        keep = enum_arm_target(si, v)
                        rem_v += [(sbb, t2) for t2 in body.succs(sbb) if t2 != keep]
                # is the Ok block reachable from the decoder (with that outcome) without crossing an edge on which the count is known non-zero?
                # (constant bool flags are followed: `matches!(result, ..) && ..` goes through one)
                r = reachable_ps(body, d.term.target, removed_edges=removed + rem_v, removed_blocks=refill) if d.term.target is not None else set()
                if bb in r:
                    unguarded.append(body.loc(bb, i))
                    break
        key = RULE + '|%s|decoder-count-may-be-zero' % body.nkey
        rep.ob(RULE, bool(oks) and not unguarded, key, '%d Ok(count) exits after the decoder all exclude 0' % len(oks) if (oks and not unguarded) else
               'Ok(count) with a count produced by the brotli decoder is returned without excluding 0 (%s): when the source hands over few bytes per read the decoder '
               'produces nothing yet and the reader reports end of stream mid-block' % ', '.join(unguarded), body.loc(d.idx))


def run(prog, rep, tier):
    global PROG
    PROG = prog
    # ---------------- R13.1 / R13.2 raw writes
    nw = 0
    for body in prog.bodies(PKGS):
        raws = [b for b in body.calls() if b.term.ctrait == 'std::io::Write' and b.term.cmethod in RAW_W]
        if not raws:
            continue
        rep.fn(body)
        root = body
        in_write_impl = body.impl_trait == 'std::io::Write' and body.name == 'write' and body.kind != 'Closure'
        for k, b in enumerate(raws):
            nw += 1
            key = 'R13.1|%s|raw-write#%d|count-returned' % (body.nkey, k)
            if not in_write_impl:
                rep.ob('R13.2', False, 'R13.2|%s|raw-write#%d|outside-pass-through' % (body.nkey, k),
                       'raw Write::write outside an `impl Write::write`: a short write would drop bytes (use write_all)', body.loc(b.idx))
                continue
            ok = returns_count_of(body, b, raws)
            rep.ob('R13.1', ok, key, 'count accepted by the inner writer is the count returned' if ok else
                   'the count returned by the inner write is not what this write returns: partial acceptance is lost', body.loc(b.idx))
        if in_write_impl:
            # bookkeeping stores must not come from the requested length
            bodies = [body] + prog.closures_of(body)
            for bd in bodies:
                for bl in bd.blocks:
                    if bl.cleanup:
                        continue
                    for i, s in enumerate(bl.stmts):
                        if s.kind != 'assign' or not s.place[1] or s.place[1][0] != ('deref',):
                            continue
                        if bd is body and s.place[0] != 1 and 1 not in origins(bd, [s.place[0]], through_calls=False).params:
                            continue
                        vals = [op.place[0] for op in s.rv.ops if op.place is not None]
                        if not vals:
                            continue
                        o = origins(bd, vals)
                        from_len = any(bd.blocks[c].term.cmethod == 'len' and bd.blocks[c].term.args and bd.blocks[c].term.args[0].place is not None and
                                       2 in origins(bd, [bd.blocks[c].term.args[0].place[0]], through_calls=False).params for c in o.calls) if bd is body else False
                        from_count = any(r.idx in o.calls for r in raws) if bd is body else True
                        if from_len and not from_count:
                            rep.ob('R13.1', False, 'R13.1|%s|store:%s|from-requested-length' % (body.nkey, '.'.join(place_fields(s.place))),
                                   'state field %s updated from buf.len() instead of the accepted count' % place_str(bd, s.place), bd.loc(bl.idx, i))
    rep.floor('R13.1', nw, 4, 'raw Write::write calls in the workspace')
    # complete forms in the encryption writer (a short write of ciphertext cannot be retried by the caller)
    ew = [b for b in prog.crates['mla'].bodies if b.impl_adt == 'layers::encrypt::EncryptionLayerWriter']
    n = 0
    for body in ew:
        for b in body.calls():
            t = b.term
            if t.ctrait == 'std::io::Write' and t.cmethod in ('write', 'write_all', 'write_vectored') and t.args and t.args[0].place is not None:
                o = origins(body, [t.args[0].place[0]], through_calls=False)
                if any(f[-1] == 'inner' for f in o.fields):
                    n += 1
                    rep.ob('R13.2', t.cmethod == 'write_all', 'R13.2|%s|inner-transfer|%s' % (body.nkey, t.cmethod),
                           'ciphertext / tag handed to the inner writer with write_all' if t.cmethod == 'write_all' else 'ciphertext handed to the inner writer with a raw write', body.loc(b.idx))
    rep.floor('R13.2', n, 1, 'transfers of EncryptionLayerWriter to its inner writer')

    # ---------------- R13.3 raw reads
    nr = 0
    for body in prog.bodies(PKGS):
        raws = [b for b in body.calls() if b.term.ctrait == 'std::io::Read' and b.term.cmethod in RAW_R]
        if not raws:
            continue
        rep.fn(body)
        loops = body.loop_blocks()
        for k, b in enumerate(raws):
            nr += 1
            key = 'R13.3|%s|raw-read#%d|count-used' % (body.nkey, k)
            if returns_count_of(body, b, raws):
                rep.ob('R13.3', True, key, 'count returned to the caller (pass-through)', body.loc(b.idx))
                continue
            pay = {l for l in ok_payload_locals(body, b) if body.lty(l) in ('usize', 'u64', 'u32')}
            # accumulation: x = x + count
            acc = False
            for bl in body.blocks:
                for s in bl.stmts:
                    if s.kind == 'assign' and s.rv.r == 'binop' and s.rv.j['op'].startswith('Add'):
                        ls = [op.place[0] for op in s.rv.ops if op.place is not None]
                        if any(l in pay for l in ls) and len(ls) == 2:
                            other = [l for l in ls if l not in pay]
                            if other:
                                acc = True
            zero_test = False
            for bl in body.blocks:
                si = switch_info(prog, body, bl.idx)
                if si and si['kind'] == 'bool':
                    e = expr_of(body, si['cond'])
                    if e[0] == 'binop' and e[1] in ('Eq', 'Ne') and e[3][0] == 'const' and e[3][1] == 0 and e[2][0] == 'place' and e[2][1][0] in pay:
                        zero_test = True
            ok = acc and (zero_test or b.idx in loops or body.impl_trait == 'std::io::Read')
            rep.ob('R13.3', ok, key, 'count accumulated into an offset (fill idiom)%s' % (' with end-of-input test' if zero_test else '') if ok else
                   'the count returned by Read::read is neither returned nor accumulated: a short read is treated as a full one', body.loc(b.idx))
    rep.floor('R13.3', nr, 6, 'raw Read::read calls in the workspace')
    # R13.3b: in a pass-through reader, anything else that consumes the caller's buffer after the raw read is bounded by the count read
    for body in prog.bodies(PKGS):
        if body.impl_trait != 'std::io::Read' or body.name != 'read' or body.kind == 'Closure':
            continue
        raws = [b for b in body.calls() if b.term.ctrait == 'std::io::Read' and b.term.cmethod in RAW_R]
        for r in raws:
            if len(r.term.args) < 2 or r.term.args[1].place is None or not must_derive(body, r.term.args[1].place[0], lambda k, ob, bb: k == 'param' and ob == 2):
                continue  # the raw read does not fill the caller's buffer
            if (body.impl_adt or '#') in r.term.callee.get('self_ty', ''):
                continue  # recursion into the same impl
            pay = ok_payload_locals(body, r)
            after = body.reachable(r.term.target) if r.term.target is not None else set()
            for b in body.calls():
                if b.idx not in after or b.idx == r.idx or b in raws or cnorm(b.term) == norm(body.defpath):
                    continue
                t = b.term
                for a in t.args:
                    if a.place is None or not body.lty(a.place[0]).startswith(('&[u8]', '&mut [u8]')):
                        continue
                    o = origins(body, [a.place[0]])
                    if 2 not in o.params or t.cmethod in ('index', 'index_mut', 'len', 'as_ptr', 'as_mut_ptr'):
                        continue
                    bounded = False
                    for c in o.calls:
                        ct = body.blocks[c].term
                        if ct.cmethod in ('index', 'index_mut', 'get', 'get_mut', 'split_at', 'split_at_mut') and len(ct.args) > 1 and ct.args[1].place is not None:
                            ro = origins(body, [ct.args[1].place[0]], through_calls=False)
                            if ro.locals & pay:
                                bounded = True
                    rep.ob('R13.3', bounded, 'R13.3|%s|%s|buffer-use-bounded-by-count' % (body.nkey, t.cmethod),
                           '%s consumes buf[..count]' % t.cmethod if bounded else '%s consumes the caller buffer beyond the count actually read' % t.cargs[:80], body.loc(b.idx))
    chunk_loads_complete(prog, rep, 'R13.3')
    mla = prog.crates['mla']

    # ---------------- R13.5 a block decompressor always starts from an absolute position of the inner layer
    # (how many compressed bytes the previous decompressor actually pulled from its source depends on how the source splits its reads: the next
    # block must not start "where the previous one stopped")
    nsite = 0
    for body in mla.bodies:
        if 'layers::compress::' not in body.nkey:
            continue
        for b in body.calls():
            if not cnorm(b.term).endswith('CompressionLayerReader::new_decompressor_at'):
                continue
            nsite += 1
            rep.fn(body)
            t = b.term
            inner_l = origins(body, [t.args[1].place[0]], through_calls=False).locals if t.args[1].place is not None else set()
            ok = False
            why = 'no dominating sync_inner_with_uncompressed_pos on the same inner reader and position'
            for sb in body.calls():
                if not cnorm(sb.term).endswith('sync_inner_with_uncompressed_pos') or not body.dominates(sb.idx, b.idx) or sb.idx == b.idx:
                    continue
                st = sb.term
                sl = origins(body, [st.args[1].place[0]], through_calls=False).locals if st.args[1].place is not None else set()
                same_inner = bool({l for l in sl if not body.lty(l).startswith('&')} & {l for l in inner_l if not body.lty(l).startswith('&')})
                same_pos = census.canon(body, st.args[2]) == census.canon(body, t.args[2]) and not census.written_between(body, sb.idx, b.idx, census.canon(body, t.args[2]))
                # nothing reads from the inner reader between the seek and the construction
                between = [x for x in body.calls() if body.dominates(sb.idx, x.idx) and body.dominates(x.idx, b.idx) and x.idx not in (sb.idx, b.idx) and
                           x.term.ctrait in ('std::io::Read', 'std::io::Seek') and any(a.place is not None and origins(body, [a.place[0]], through_calls=False).locals & sl for a in x.term.args)]
                if same_inner and same_pos and not between:
                    ok = True
                else:
                    why = 'sync found but inner=%s position=%s untouched-between=%s' % (same_inner, same_pos, not between)
            k13 = sum(1 for x in body.calls() if x.idx < b.idx and cnorm(x.term).endswith('CompressionLayerReader::new_decompressor_at'))
            rep.ob('R13.5', ok, 'R13.5|%s|new_decompressor_at#%d|inner-positioned-absolutely' % (body.nkey, k13),
                   'the inner reader is seeked to the block start (sync_inner_with_uncompressed_pos) right before the decompressor is built on it' if ok else
                   'a block decompressor is built on an inner reader that was not positioned absolutely (%s): where the previous decompressor stopped reading depends on the '
                   'sizes of the reads its source served, so a short-reading source shifts the next block' % why, body.loc(b.idx))
    rep.floor('R13.5', nsite, 2, 'constructions of a block decompressor')
    from .c10 import r10_4
    r10_4(prog, rep, 'R13.5')     # ... and that helper does seek on every successful return
    from .c10 import r10_5
    r10_5(prog, rep, 'R13.7')     # a zero count is never an error for an empty request (buffers of any size)

    # ---------------- R13.6 a stream that delivered exactly its 4 MiB is still handed to the decoder (its end marker may arrive in a later read)
    fs = one_body(prog, rep, 'R13.6', 'mla', adt='layers::compress::CompressionLayerFailSafeReader', name='read', trait='std::io::Read')
    if fs is not None:
        found = []
        for bl in fs.blocks:
            si = switch_info(prog, fs, bl.idx)
            if not si or si['kind'] != 'bool':
                continue
            e = expr_of(fs, si['cond'])
            if e[0] != 'binop' or e[1] not in ('Gt', 'Ge', 'Lt', 'Le', 'Eq', 'Ne'):
                continue
            sides = [e[2], e[3]]
            ci = [i for i, x in enumerate(sides) if x[0] == 'const' and ((x[2] or {}).get('def') or '').endswith('UNCOMPRESSED_DATA_SIZE')]
            if len(ci) != 1:
                continue
            other = sides[1 - ci[0]]
            if other[0] != 'place' or 'u32' not in fs.lty(other[1][0]):
                continue
            o = origins(fs, [other[1][0]], through_calls=False)
            if not (any(f[-1] == 'uncompressed_read' for f in o.fields) or fs.lname(other[1][0]) == 'uncompressed_read'):
                continue
            # the edge taken when counter == SIZE
            op = e[1]
            if ci[0] == 0:   # SIZE op counter  ->  counter op' SIZE
                op = {'Gt': 'Lt', 'Ge': 'Le', 'Lt': 'Gt', 'Le': 'Ge'}.get(op, op)
            eq_edge = si['true'] if op in ('Ge', 'Le', 'Eq') else si['false']
            r = reachable_vs(fs, eq_edge)
            dec = [b for b in fs.calls() if cnorm(b.term).endswith('BrotliDecompressStream')]
            refuses = not any(d.idx in r for d in dec)
            found.append((bl.idx, op, refuses))
        bad = [x for x in found if x[2]]
        rep.ob('R13.6', bool(found) and not bad, 'R13.6|%s|full-block-still-decoded' % fs.nkey,
               'with uncompressed_read == UNCOMPRESSED_DATA_SIZE the decoder is still called (%d test(s) against the block size)' % len(found) if (found and not bad) else
               'a test of the per-stream counter against UNCOMPRESSED_DATA_SIZE refuses the value UNCOMPRESSED_DATA_SIZE itself (%s): the end marker of a full block that arrives '
               'in a later, shorter read is never consumed and repair stops at the block boundary' % (', '.join(fs.loc(x[0]) for x in bad) or 'no such test found'), fs.loc())

    # ---------------- R13.4 no decoder-produced zero count mid-stream
    decoder_zero_count_rule(prog, rep, 'R13.4')

    # ---------------- R13.9 the end of a source is inferred only from a zero count
    # (a read that returns fewer bytes than there was room for says nothing about what the source still holds)
    n9 = 0
    for body in prog.bodies(PKGS):
        raws = [b for b in body.calls() if b.term.ctrait == 'std::io::Read' and b.term.cmethod in RAW_R]
        cnt9 = collections.Counter()
        for rb in raws:
            pay = ok_payload_locals(body, rb)
            if not pay:
                continue
            n9 += 1
            bad = []
            for bl in body.blocks:
                si = switch_info(prog, body, bl.idx)
                if not si or si['kind'] != 'bool' or bl.cleanup:
                    continue
                e = expr_of(body, si['cond'])
                if e[0] != 'binop' or e[1] not in ('Eq', 'Ne', 'Lt', 'Le', 'Gt', 'Ge'):
                    continue
                for x_, y_ in ((e[2], e[3]), (e[3], e[2])):
                    if x_[0] == 'place' and (x_[1][0] in pay or (x_[1][0] == rb.term.dest[0] and x_[1][1])):
                        if not (y_[0] == 'const' and y_[1] in (0, 1)):
                            bad.append(body.loc(bl.idx))
            key = 'R13.9|%s|raw-read#%d|count-compared-with-zero-only' % (body.nkey, cnt9[body.nkey])
            cnt9[body.nkey] += 1
            rep.ob('R13.9', not bad, key, 'the count of this read is only ever compared with 0' if not bad else
                   'the count returned by a raw read is compared with something else than 0 (%s): a source that hands over fewer bytes than there is room for is taken for an '
                   'exhausted one' % ', '.join(bad), body.loc(rb.idx))
    rep.floor('R13.9', n9, 4, 'raw reads whose count is examined')

    # ---------------- R13.8 an error of the destination keeps its kind on the way up (write_all / io::copy / brotli retry only `Interrupted`)
    r13_8(prog, rep)
    r13_10(prog, rep)
    r13_11(prog, rep)


def chunk_loads_complete(prog, rep, RULE='R13.3'):
    """chunk loads feeding the cipher are complete reads: the buffer handed to decrypt is filled by read_to_end(take(inner, constant)), never by one raw
    read (shared with C03: a short read would make an unaltered archive fail its tag)"""
    mla = prog.crates['mla']
    nd = 0
    for body in mla.bodies:
        for b in body.calls():
            if cnorm(b.term) in ('crypto::aesgcm::AesGcm256::decrypt', 'crypto::aesgcm::AesGcm256::decrypt_unauthenticated') and norm(body.defpath).startswith('layers::encrypt::'):
                nd += 1
                o = origins(body, [b.term.args[1].place[0]])
                owners = [l for l in o.locals if body.lty(l).startswith('std::vec::Vec<u8')]
                fills = [f for l in owners for f in mutarg_defs(body).get(l, [])]
                rte = [f for f in fills if f[1].cmethod == 'read_to_end']
                raw = [f for f in fills if f[1].cmethod in RAW_R or f[1].cmethod == 'read_exact']
                ok = bool(rte) and not raw
                for f in rte:
                    ro = origins(body, [f[1].args[0].place[0]])
                    tk = [body.blocks[c].term for c in ro.calls if body.blocks[c].term.cmethod == 'take' and body.blocks[c].term.ctrait == 'std::io::Read']
                    okt = len(tk) == 1 and const_eval(body, tk[0].args[1]) is not None or (len(tk) == 1 and (const_of(body, tk[0].args[1]) or {}).get('def'))
                    inner = len(tk) == 1 and any(ff[-1] == 'inner' for ff in origins(body, [tk[0].args[0].place[0]], through_calls=False).fields)
                    ok = ok and bool(okt) and inner
                rep.ob(RULE, ok, RULE + '|%s|chunk-load-complete' % body.nkey, 'chunk buffer filled by read_to_end(take(inner, constant))' if ok else
                       'the chunk handed to the cipher is not filled by read_to_end on a bounded take of the inner reader: a source that returns fewer bytes than asked makes '
                       'an intact chunk fail its tag', body.loc(b.idx))
    rep.floor(RULE + '.chunk', nd, 2, 'decrypt sites in the encryption layer')


OPT_IOERR = 'std::option::Option<std::io::Error>'


def r13_10(prog, rep, RULE='R13.10'):
    """A writer that keeps "the first failure" of its destination for later (an Option<io::Error> written from an `impl Write` function) must not keep an
    `Interrupted`: the layers above retry that write and it succeeds, but the kept error would surface when the block is closed and fail a write that
    an uninterrupted destination completes. Every such store sits on the not-equal edge of a comparison of the error's kind() with Interrupted."""
    mla = prog.crates['mla']

    def is_interrupted_operand(body, op):
        if op.kind == 'const':
            return (op.k.get('promoted_variant') or '').endswith('ErrorKind::Interrupted')
        if op.place is None:
            return False
        o = origins(body, [op.place[0]], through_calls=False)
        if any((k.get('promoted_variant') or '').endswith('ErrorKind::Interrupted') for k in o.consts):
            return True
        return any(a.j.get('variant') == 'Interrupted' for (_, _, a) in o.aggs)

    def not_interrupted_edges(body):
        out = []
        for g in body.blocks:
            r = branch_on_call(prog, body, g.idx)
            if r and r[1].cmethod in ('eq', 'ne') and r[1].ctrait == 'std::cmp::PartialEq' and 'ErrorKind' in r[1].cargs and any(is_interrupted_operand(body, a) for a in r[1].args[:2]):
                out.append((g.idx, r[3]))      # (branch block, target when the kinds differ)
        for sbb, si in arm_of_enum_switch(prog, body, adt='std::io::ErrorKind'):
            it = enum_arm_target(si, 'Interrupted')
            if it is not None:
                for v, tgt in list(si['arms'].items()) + ([('_', si['otherwise'])] if si.get('otherwise') is not None else []):
                    if tgt != it:
                        out.append((sbb, tgt))
        return out

    n = 0
    for fnb in mla.bodies:
        if fnb.kind == 'Closure' or fnb.impl_trait != 'std::io::Write' or fnb.name not in ('write', 'flush', 'write_all', 'write_vectored'):
            continue
        for body in [fnb] + prog.closures_of(fnb):
            sites = []
            for bl in body.blocks:
                if bl.cleanup:
                    continue
                for i, st in enumerate(bl.stmts):
                    if st.kind != 'assign' or not st.place[1]:
                        continue
                    last = st.place[1][-1]
                    tgt_ty = None
                    if last[0] == 'f':
                        tgt_ty = str(last[4]) if len(last) > 4 else None
                    elif last[0] == 'deref' and len(st.place[1]) == 1:
                        tgt_ty = body.lty(st.place[0]).replace('&mut ', '', 1) if body.lty(st.place[0]).startswith('&mut ') else None
                    if tgt_ty != OPT_IOERR:
                        continue
                    # storing None (take / reset) keeps nothing
                    if st.rv.r == 'aggregate' and st.rv.j.get('variant') == 'None':
                        continue
                    if st.rv.r == 'use' and st.rv.ops[0].place is not None:
                        ao = origins(body, [st.rv.ops[0].place[0]], through_calls=False)
                        if ao.aggs and all(a.j.get('variant') == 'None' for (_, _, a) in ao.aggs):
                            continue
                    sites.append((bl.idx, 'store'))
                t = bl.term
                if t.kind == 'call' and t.cmethod in ('get_or_insert_with', 'get_or_insert', 'insert', 'replace') and t.args and t.args[0].place is not None and \
                        body.lty(t.args[0].place[0]).replace('&mut ', '', 1) == OPT_IOERR:
                    sites.append((bl.idx, t.cmethod))
            if not sites:
                continue
            rep.fn(body)
            edges = not_interrupted_edges(body)
            for k, (bb, how) in enumerate(sites):
                n += 1
                ok = any(body.edge_dominates(e, bb) for e in edges)
                rep.ob(RULE, ok, RULE + '|%s|kept-error#%d|not-interrupted' % (fnb.nkey, n - 1), 'the kept error is stored (%s) only when its kind is not Interrupted' % how if ok else
                       'an error of the destination is kept for later (%s) without excluding ErrorKind::Interrupted: the interrupted write is retried and succeeds, but the kept '
                       'error fails the archive when the block is closed -- a destination that reports an interruption no longer yields the same archive' % how, body.loc(bb))
    rep.floor(RULE, n, 1, 'stores of a kept destination error in the writer layers')


def r13_11(prog, rep, RULE='R13.11'):
    """How many rounds a read loop needs before it has something to return depends on how the source splits its reads. So no `impl Read::read` of the
    library refuses (builds an Err) because a counter of its own loop rounds -- a local stepped by a constant in the loop -- passed a bound: the same
    bytes delivered one at a time would fail where a slice succeeds."""
    mla = prog.crates['mla']
    n = 0
    nb = 0
    for body in mla.bodies:
        if body.kind == 'Closure' or body.impl_trait != 'std::io::Read' or body.name != 'read':
            continue
        nb += 1
        loops = body.loop_blocks()
        counters = set()
        for bl in body.blocks:
            if bl.idx not in loops or bl.cleanup:
                continue
            for st in bl.stmts:
                if st.kind == 'assign' and st.rv.r == 'binop' and st.rv.j.get('op', '').startswith('Add') and len(st.rv.ops) == 2 and st.rv.ops[1].kind == 'const' and \
                        st.rv.ops[0].place is not None and not st.rv.ops[0].place[1]:
                    src = st.rv.ops[0].place[0]
                    # the sum flows back into the same variable: x = x + k
                    tgt = st.place[0]
                    fl = forward_locals(body, [tgt], through_calls=False)
                    if src in fl and src > body.arg_count:
                        counters.add(src)
        if not counters:
            continue
        errs = [bl.idx for bl in body.blocks if not bl.cleanup for st in bl.stmts
                if st.kind == 'assign' and st.place == (0, ()) and st.rv.r == 'aggregate' and st.rv.j.get('variant') == 'Err']
        for bl in body.blocks:
            si = switch_info(prog, body, bl.idx)
            if not si or si['kind'] != 'bool':
                continue
            e = expr_of(body, si['cond'])
            if e[0] != 'binop' or e[1] not in ('Gt', 'Ge', 'Lt', 'Le', 'Eq', 'Ne'):
                continue
            sides = [e[2], e[3]]
            if not any(x[0] == 'const' for x in sides):
                continue
            cl = [x[1][0] for x in sides if x[0] == 'place' and not x[1][1] and x[1][0] in counters]
            if not cl:
                continue
            for tgt in (si['true'], si['false']):
                hit = [r for r in errs if body.edge_dominates((bl.idx, tgt), r)]
                if hit:
                    n += 1
                    rep.fn(body)
                    rep.ob(RULE, False, RULE + '|%s|error-on-round-count#%d' % (body.nkey, n - 1),
                           'read fails when its own loop counter `%s` passes a constant: the number of rounds depends on how many bytes each inner read delivers, so the '
                           'same data read from a source that returns a few bytes at a time is refused' % body.lname(cl[0]), body.loc(hit[0]))
    rep.floor(RULE + '.readers', nb, 6, '`impl Read::read` bodies of mla examined')
    if n == 0:
        rep.ob(RULE, True, RULE + '|mla|no-error-on-round-count', 'no reader refuses on the number of rounds of its own loop', '-')


IOERR = ('std::io::Error', '&std::io::Error', '&mut std::io::Error')


def r13_8(prog, rep, RULE='R13.8'):
    """Everything above the raw layer retries a write only when the error kind is Interrupted (std's write_all, io::copy, brotli's writer loop). So no body
    on the write path may build a *new* io::Error out of an io::Error it received unless the new one takes its kind from the old one's kind()."""
    roots = [b for b in prog.bodies(('mla', 'mla-bindings-c')) if b.impl_trait == 'std::io::Write' and b.kind != 'Closure']
    scope = [b for b in reachable_bodies(prog, roots) if b.pkg in ('mla', 'mla-bindings-c')]
    rep.floor(RULE + '.roots', len(roots), 5, '`impl Write` bodies of the writer layers')
    nctor = 0
    for body in scope:
        for b in body.calls():
            t = b.term
            cn = cnorm(t)
            is_ctor = cn in ('std::io::Error::new', 'std::io::Error::other') or (t.cmethod == 'from' and 'std::io::Error' in (t.callee.get('self_ty') or '') and
                                                                                  t.args and 'ErrorKind' in body.lty(t.args[0].place[0]) if t.args and t.args[0].place is not None else False)
            if not is_ctor:
                continue
            nctor += 1
            rep.fn(body)
            src = set()
            for a in t.args:
                if a.place is None:
                    continue
                o = origins(body, [a.place[0]])
                src |= {l for l in o.locals if body.lty(l) in IOERR}
            if not src:
                continue
            kind_kept = False
            if cn != 'std::io::Error::other' and t.args and t.args[0].place is not None:     # new(kind, ..) / From<ErrorKind>::from(kind)
                ko = origins(body, [t.args[0].place[0]])
                kind_kept = any(cnorm(body.blocks[c].term) == 'std::io::Error::kind' for c in ko.calls)
            rep.ob(RULE, kind_kept, RULE + '|%s|%s|io-error-rebuilt-from-io-error' % (body.nkey, cn.split('::')[-1]),
                   'an io::Error is rebuilt from another one with the kind taken from kind()' if kind_kept else
                   'a new io::Error is built from an io::Error received on the write path without taking over its kind: `Interrupted` from the destination '
                   'becomes a fatal error for write_all / io::copy / the brotli writer, which retry only that kind', body.loc(b.idx))
    rep.note(RULE + ': %d bodies reachable from the writer `impl Write`s scanned, %d io::Error constructions inspected' % (len(scope), nctor))
    rep.floor(RULE + '.scope', len(scope), 20, 'bodies reachable from the writer `impl Write`s')
