"""C04 -- default repair only outputs authenticated, contiguous data (clause level)."""
from ..core import *

EXPLANATION = ("Static MIR rules: (R04.1) in <EncryptionLayerFailSafeReader as Read>::read every call of an unauthenticated function is "
               "edge-dominated by the DataEvenUnauthenticated arm of the mode switch and the OnlyAuthenticatedData arm reaches none; "
               "(R04.2) Default of the mode enum is OnlyAuthenticatedData, the mode field is written only by the two setters / "
               "Default / the constructor copy, and in mlar the call enabling unauthenticated data is edge-dominated by the true outcome of "
               "get_flag(\"allow_unauthenticated_data\"), a flag declared with ArgAction::SetTrue; (R04.3) no unauthenticated chunk load "
               "in the constructor outside the unauthenticated mode edge; (R04.4) the wrong-tag -> Ok(0) arm latches a field of self that "
               "guards later reads, and no path from the Err edge of read_internal that is consistent with the wrong-tag error reaches an Ok(..) result without the latch "
               "store; (R04.5) below the latch, no call site of a function that may return AuthenticatedDecryptionWrongTag (exact calls and fn pointers) lets that "
               "error reach an Ok(..) result: the failure always arrives at the latch. R04.2 decides what each of the two public mode setters stores on its inlined body (a shared helper taking a constant flag is followed). Decides the structural clauses only; 'prefix of the original' is runtime.")
TRUSTED = ['rustc MIR', 'clap flag semantics (SetTrue defaults to false)']
ASSUMPTIONS = ['byte-level prefix relation between authenticated and unauthenticated results is not decided']

FS = 'layers::encrypt::EncryptionLayerFailSafeReader'
MODE = 'layers::encrypt::FailSafeReaderDecryptionMode'
UNAUTH = {'load_in_cache_unauthenticated', 'read_internal_unauthenticated', 'decrypt_unauthenticated'}



def wrong_tag_swallows(prog, skip_keys=()):
    """error discipline for the authentication failure: F = functions of crate mla that may return Err(AuthenticatedDecryptionWrongTag)
    (they build it, or an exactly resolved callee in F hands it to them). For every call site of a member of F, on the paths that start on the
    Err / Break edge of the call's result and are consistent with the error being the wrong-tag one, no Ok(..) result may be reachable: the
    failure is handed to the caller, never turned into success. Returns (n_sites, [(body, call_block, ok_block)])."""
    mla = prog.crates['mla']
    F = {}
    for b in mla.bodies:
        for bl in b.blocks:
            if bl.cleanup:
                continue
            for st in bl.stmts:
                if st.kind == 'assign' and st.rv.r == 'aggregate' and st.rv.j.get('adt') == 'errors::Error' and st.rv.j.get('variant') == 'AuthenticatedDecryptionWrongTag':
                    F[b.key] = b
    sites = {}
    changed = True
    bydef = {b.defpath: b for b in mla.bodies}
    while changed:
        changed = False
        # function pointers: a member of F reified as `fn(..) -> ..` makes every indirect call through a pointer of that type a site
        fptr_tys = set()
        for b in mla.bodies:
            for bl in b.blocks:
                for st in bl.stmts:
                    if st.kind == 'assign' and st.rv.r == 'cast' and 'ReifyFnPointer' in st.rv.j.get('kind', ''):
                        k = (st.rv.j.get('op') or {}).get('k') or {}
                        tgt = bydef.get(k.get('fn', ''))
                        if tgt is not None and tgt.key in F:
                            fptr_tys.add(st.rv.j.get('ty'))
        for b in mla.bodies:
            if b.kind == 'Closure':
                continue
            for blk in b.calls():
                if 'indirect' in blk.term.callee:
                    if blk.term.callee.get('fty') in fptr_tys:
                        sites[(b.key, blk.idx)] = (b, blk)
                        if b.key not in F and b.lty(0).startswith('std::result::Result<'):
                            F[b.key] = b
                            changed = True
                    continue
                cands, exact = resolve_call(prog, b, blk.term)
                if exact and len(cands) == 1 and cands[0].key in F and cands[0].key != b.key:
                    sites[(b.key, blk.idx)] = (b, blk)
                    if b.key not in F and b.lty(0).startswith('std::result::Result<'):
                        F[b.key] = b
                        changed = True
    bad = []
    for (bk, bi), (b, blk) in sorted(sites.items()):
        if bk in skip_keys or blk.term.target is None:
            continue
        cut = []
        for ebb, esi in arm_of_enum_switch(prog, b, adt='errors::Error'):
            wt = enum_arm_target(esi, 'AuthenticatedDecryptionWrongTag')
            keep = wt if wt is not None else esi['otherwise']
            for t in set(list(esi['arms'].values()) + [esi['otherwise']]):
                if t is not None and t != keep:
                    cut.append((ebb, t))
        found = False
        for rbb, rsi in arm_of_enum_switch(prog, b):
            if rsi['adt'] not in ('std::result::Result', 'std::ops::ControlFlow'):
                continue
            o = origins(b, [rsi['place'][0]], through_calls=True)
            if blk.idx not in o.calls:
                continue
            et = enum_arm_target(rsi, 'Err') if rsi['adt'] == 'std::result::Result' else enum_arm_target(rsi, 'Break')
            if et is None:
                continue
            found = True
            for t in set(list(rsi['arms'].values()) + [rsi['otherwise']]):
                if t is not None and t != et:
                    cut.append((rbb, t))
        if not found:
            continue   # the result is returned as is (tail call) or moved into the function result
        r = b.reachable(blk.term.target, removed_edges=cut)
        oks = [x.idx for x in b.blocks if x.idx in r and not x.cleanup and any(
            st.kind == 'assign' and st.rv.r == 'aggregate' and st.rv.j.get('variant') == 'Ok' and 'Result' in (st.rv.j.get('adt') or '') for st in x.stmts)]
        if oks:
            bad.append((b, blk, oks[0]))
    return len(sites), sites, bad

def run(prog, rep, tier):
    mla = prog.crates['mla']
    # ---------------- R04.1 arm isolation
    rd = one_body(prog, rep, 'R04.1', 'mla', adt=FS, name='read', trait='std::io::Read')
    if rd is not None:
        sws = [(bb, si) for bb, si in arm_of_enum_switch(prog, rd, adt=MODE)]
        if len(sws) != 1:
            rep.ob('R04.1', False, 'R04.1|%s|mode-switch' % rd.nkey, 'expected exactly one switch on the decryption mode, found %d' % len(sws), rd.loc())
        else:
            sbb, si = sws[0]
            un_t = enum_arm_target(si, 'DataEvenUnauthenticated')
            au_t = enum_arm_target(si, 'OnlyAuthenticatedData')
            fld = place_fields(si['place'])
            okf = fld[-1:] == ['decryption_mode'] and si['place'][0] == 1
            rep.ob('R04.1', okf, 'R04.1|%s|mode-switch-on-field' % rd.nkey, 'mode switch reads self.decryption_mode' if okf else 'mode switch does not read self.decryption_mode', rd.loc(sbb))
            ucalls = [b for b in rd.calls() if b.term.cmethod in UNAUTH]
            acalls = [b for b in rd.calls() if b.term.cmethod == 'read_internal']
            rep.floor('R04.1', len(ucalls), 1, 'unauthenticated calls in the fail-safe read')
            rep.floor('R04.1.auth', len(acalls), 1, 'authenticated read_internal calls in the fail-safe read')
            for b in ucalls:
                ok = un_t is not None and un_t != au_t and rd.edge_dominates((sbb, un_t), b.idx)
                rep.ob('R04.1', ok, 'R04.1|%s|%s|under-unauth-arm' % (rd.nkey, b.term.cmethod),
                       '%s only under the DataEvenUnauthenticated arm' % b.term.cmethod if ok else
                       '%s reachable without taking the DataEvenUnauthenticated arm' % b.term.cmethod, rd.loc(b.idx))
            # the mode is a field this function never writes (R04.2 lists its writers): a path that re-enters the switch (a loop around it)
            # and leaves by the unauthenticated edge is a path on which the mode IS DataEvenUnauthenticated, so that edge is cut
            mode_written = any(s.kind == 'assign' and place_fields(s.place)[-1:] == ['decryption_mode'] for b in rd.blocks for s in b.stmts)
            reach_auth = rd.reachable(au_t, removed_edges=[] if mode_written else [(sbb, un_t)]) if au_t is not None else set()
            bad = [b for b in ucalls if b.idx in reach_auth]
            rep.ob('R04.1', not bad and au_t is not None, 'R04.1|%s|auth-arm-clean' % rd.nkey,
                   'OnlyAuthenticatedData arm reaches no unauthenticated call' if not bad else 'OnlyAuthenticatedData arm reaches %s' % bad[0].term.cmethod, rd.loc(sbb))
            for b in acalls:
                ok = au_t is not None and rd.edge_dominates((sbb, au_t), b.idx)
                rep.ob('R04.1', ok, 'R04.1|%s|read_internal|under-auth-arm' % rd.nkey, 'read_internal under the OnlyAuthenticatedData arm' if ok else 'read_internal not under the authenticated arm', rd.loc(b.idx))

    # ---------------- R04.2 default is authenticated
    df = one_body(prog, rep, 'R04.2', 'mla', adt=MODE, name='default', trait='std::default::Default')
    if df is not None:
        aggs = [s for b in df.blocks for s in b.stmts if s.kind == 'assign' and s.place[0] == 0 and s.rv.r == 'aggregate']
        ok = len(aggs) == 1 and aggs[0].rv.j.get('variant') == 'OnlyAuthenticatedData'
        rep.ob('R04.2', ok, 'R04.2|FailSafeReaderDecryptionMode::default', 'default mode is OnlyAuthenticatedData' if ok else 'default mode is not OnlyAuthenticatedData', df.loc())
    # writers of the mode fields
    writers = []
    for body in mla.bodies:
        for b in body.blocks:
            if b.cleanup:
                continue
            for i, s in enumerate(b.stmts):
                if s.kind == 'assign' and place_fields(s.place)[-1:] in (['failsafe_mode'], ['decryption_mode']):
                    writers.append((body, b.idx, i, s))
                if s.kind == 'assign' and s.rv.r == 'aggregate' and s.rv.j.get('adt') in ('layers::encrypt::EncryptionReaderConfig', FS):
                    writers.append((body, b.idx, i, s))
    rep.floor('R04.2.writers', len(writers), 3, 'writers of failsafe_mode / decryption_mode')
    for body, bb, i, s in writers:
        key = 'R04.2|%s|writes-mode' % body.nkey
        if s.rv.r == 'aggregate' and s.rv.j.get('adt') == 'layers::encrypt::EncryptionReaderConfig':
            # derived Default: the field value comes from FailSafeReaderDecryptionMode::default()
            idx = s.rv.j['fields'].index('failsafe_mode')
            op = s.rv.ops[idx]
            e = expr_of(body, op)
            ok = body.impl_trait == 'std::default::Default' and e[0] == 'call' and e[2].cmethod == 'default'
            rep.ob('R04.2', ok, key, 'EncryptionReaderConfig built by Default with mode = Default::default()' if ok else 'EncryptionReaderConfig constructed with a mode not from Default', body.loc(bb, i))
        elif s.rv.r == 'aggregate' and 'decryption_mode' not in (s.rv.j.get('fields') or []):
            # the mode lives in a nested state record built by a private constructor: looked for in the function with its helpers spliced in
            from ..inline import inlined_body as _inl
            ib_ = _inl(prog, body)
            cands_ = [(bl_.idx, st_) for bl_ in ib_.blocks if not bl_.cleanup for st_ in bl_.stmts
                      if st_.kind == 'assign' and st_.rv.r == 'aggregate' and 'decryption_mode' in (st_.rv.j.get('fields') or [])]
            ok = bool(cands_)
            for (_bb, st_) in cands_:
                e = expr_of(ib_, st_.rv.ops[st_.rv.j['fields'].index('decryption_mode')])
                if not (e[0] == 'place' and place_fields(e[1])[-1:] == ['failsafe_mode']):
                    ok = False
            rep.ob('R04.2', ok, key, 'reader mode copied from config.failsafe_mode' if ok else 'reader mode not taken from config.failsafe_mode', body.loc(bb, i))
        elif s.rv.r == 'aggregate':
            idx = s.rv.j['fields'].index('decryption_mode')
            op = s.rv.ops[idx]
            e = expr_of(body, op)
            ok = e[0] == 'place' and place_fields(e[1])[-1:] == ['failsafe_mode']
            rep.ob('R04.2', ok, key, 'reader mode copied from config.failsafe_mode' if ok else 'reader mode not taken from config.failsafe_mode', body.loc(bb, i))
        else:
            e = expr_of(body, s.rv.ops[0]) if s.rv.ops else ('unknown',)
            var = None
            if s.rv.r == 'aggregate':
                var = s.rv.j.get('variant')
            elif e[0] == 'agg':
                var = e[3].j.get('variant')
            want = {'failsafe_return_only_authenticated_data': 'OnlyAuthenticatedData', 'failsafe_return_data_even_unauthenticated': 'DataEvenUnauthenticated'}
            if body.name in want:
                continue      # the two public setters are decided below, on their inlined bodies
            # a private helper of the setters (e.g. `set_failsafe_mode(relaxed)`): accepted as a writer when only the setters call it; what each setter
            # ends up storing is decided below
            callers = set()
            for b2 in mla.bodies:
                for blk2 in b2.calls():
                    c2, e2 = resolve_call(prog, b2, blk2.term)
                    if e2 and len(c2) == 1 and c2[0].key == body.key:
                        callers.add(b2.name)
            ok = body.vis != 'pub' and not body.impl_trait and bool(callers) and callers <= set(want)
            rep.ob('R04.2', ok, key, 'private helper of the mode setters (called by %s only)' % sorted(callers) if ok else 'unexpected writer of the mode field (%s stores %s)' % (body.name, var), body.loc(bb, i))
    # what each public setter stores, on every feasible path (constant flags handed to a shared helper are followed)
    from ..inline import inlined_body
    want = {'failsafe_return_only_authenticated_data': 'OnlyAuthenticatedData', 'failsafe_return_data_even_unauthenticated': 'DataEvenUnauthenticated'}
    for sname, wv in sorted(want.items()):
        sb = [b for b in mla.bodies if b.name == sname and b.kind != 'Closure' and (b.impl_adt or '').endswith('ArchiveReaderConfig')]
        key = 'R04.2|mla::config::ArchiveReaderConfig::%s|writes-mode' % sname
        if len(sb) != 1:
            rep.ob('R04.2', False, key, 'setter %s not found' % sname)
            continue
        inl = inlined_body(prog, sb[0])
        feas = reachable_ps(inl, 0)
        stored = []
        for bl in inl.blocks:
            if bl.idx not in feas or bl.cleanup:
                continue
            for st in bl.stmts:
                if st.kind == 'assign' and place_fields(st.place)[-1:] == ['failsafe_mode']:
                    e = expr_of(inl, st.rv.ops[0]) if st.rv.ops else ('unknown',)
                    if st.rv.r == 'aggregate':
                        stored.append(st.rv.j.get('variant'))
                    elif e[0] == 'agg':
                        stored.append(e[3].j.get('variant'))
                    elif st.rv.r == 'use' and st.rv.ops[0].place is not None and not st.rv.ops[0].place[1]:
                        # the value of an `if`/`match` expression: one aggregate per arm, only the feasible arms count
                        for (dbb, dsi, dk, dobj) in inl.defs.get(st.rv.ops[0].place[0], []):
                            if dbb not in feas:
                                continue
                            stored.append(dobj.rv.j.get('variant') if dk == 'assign' and dobj.rv.r == 'aggregate' else '?')
                    else:
                        stored.append('?')
        ok = bool(stored) and set(stored) == {wv}
        rep.ob('R04.2', ok, key, 'setter %s stores %s' % (sname, wv) if ok else 'setter %s stores %s on a feasible path (documented: %s)' % (sname, sorted(set(map(str, stored))) or 'nothing', wv), sb[0].loc())
    # ArchiveReaderConfig::new / Default do not call the unauthenticated setter
    for body in mla.bodies:
        if body.impl_adt == 'config::ArchiveReaderConfig' and body.name in ('new', 'default'):
            bad = [b for b in body.calls() if b.term.cmethod == 'failsafe_return_data_even_unauthenticated']
            rep.ob('R04.2', not bad, 'R04.2|%s|no-unauth-default' % body.nkey, 'constructor leaves the default mode' if not bad else 'constructor enables unauthenticated mode', body.loc())
    # every caller of the unauth setter in the workspace (library + cli + bindings): gated by the CLI flag
    ncall = 0
    for pkg in prog.crates:
        if pkg == 'mla-fuzz-afl':
            continue
        for body in prog.crates[pkg].bodies:
            for b in body.calls():
                if b.term.cmethod == 'failsafe_return_data_even_unauthenticated':
                    ncall += 1
                    rep.fn(body)
                    key = 'R04.2|%s|enables-unauthenticated' % body.nkey
                    guard = None
                    for bl in body.blocks:
                        r = branch_on_call(prog, body, bl.idx)
                        if r and r[1].cmethod == 'get_flag' and const_bytes_of(body, r[1].args[1]) == b'allow_unauthenticated_data':
                            guard = (bl.idx, r[2])
                    ok = guard is not None and body.edge_dominates(guard, b.idx)
                    rep.ob('R04.2', ok, key, 'unauthenticated mode enabled only on the true edge of get_flag("allow_unauthenticated_data")' if ok else
                           'unauthenticated mode enabled without the --allow-unauthenticated-data flag test', body.loc(b.idx))
    rep.floor('R04.2.cli', ncall, 1, 'callers of failsafe_return_data_even_unauthenticated')
    # the flag is declared SetTrue (default false)
    decl = 0
    for body in prog.crates['mlar'].bodies:
        for b in body.calls():
            t = b.term
            if cnorm(t) == 'clap::Arg::new' and t.args and const_bytes_of(body, t.args[0]) == b'allow_unauthenticated_data':
                decl += 1
                # follow the builder chain
                cur = t.dest[0]
                action = None
                for _ in range(12):
                    nxt = None
                    for c in body.calls():
                        ct = c.term
                        if ct.args and ct.args[0].place is not None and ct.args[0].place[0] == cur and cnorm(ct).startswith('clap::Arg::'):
                            nxt = ct
                            break
                    if nxt is None:
                        break
                    if nxt.cmethod == 'action':
                        e = expr_of(body, nxt.args[1])
                        if e[0] == 'agg':
                            action = e[3].j.get('variant')
                        elif e[0] == 'const':
                            action = e[2].get('txt')
                    cur = nxt.dest[0]
                ok = action is not None and 'SetTrue' in action
                rep.ob('R04.2', ok, 'R04.2|%s|flag-declared-SetTrue' % body.nkey, 'flag allow_unauthenticated_data declared with ArgAction::SetTrue' if ok else
                       'flag allow_unauthenticated_data not declared with ArgAction::SetTrue (action=%s)' % action, body.loc(b.idx))
    rep.floor('R04.2.decl', decl, 1, 'declarations of the allow_unauthenticated_data flag')

    # ---------------- R04.3 construction respects the mode
    nw = one_body(prog, rep, 'R04.3', 'mla', adt=FS, name='new')
    if nw is not None:
        ucalls = [b for b in nw.calls() if b.term.cmethod in UNAUTH]
        sws = arm_of_enum_switch(prog, nw, adt=MODE)
        if not ucalls:
            rep.ob('R04.3', True, 'R04.3|%s|no-unauth-load' % nw.nkey, 'constructor performs no unauthenticated load', nw.loc())
        for b in ucalls:
            ok = False
            for sbb, si in sws:
                un_t = enum_arm_target(si, 'DataEvenUnauthenticated')
                if un_t is not None and nw.edge_dominates((sbb, un_t), b.idx):
                    ok = True
            rep.ob('R04.3', ok, 'R04.3|%s|%s|outside-unauth-edge' % (nw.nkey, b.term.cmethod),
                   'unauthenticated load in the constructor only under the unauthenticated mode' if ok else
                   'constructor calls %s unconditionally: chunk 0 is decrypted without tag verification in the default (authenticated) mode' % b.term.cmethod,
                   nw.loc(b.idx))

    # ---------------- R04.7 "chunks whose authentication tag verified": the authenticated loader compares the whole computed tag with the stored one
    # before the plaintext is exposed (same rule as R03.1, the repair reader shares load_in_cache with the normal reader)
    from .c03 import check_decrypt_site
    nd = 0
    for body in mla.bodies:
        if not body.defpath.startswith('layers::encrypt::'):
            continue
        for b in body.calls():
            if b.term.cdef == 'crypto::aesgcm::AesGcm256::decrypt':
                nd += 1
                rep.fn(body)
                check_decrypt_site(prog, body, b, rep, RULE='R04.7')
    rep.floor('R04.7', nd, 1, 'authenticated decrypt sites in layers::encrypt')
    # ---------------- R04.6 "contiguously from the start": a chunk only verifies at its own position -- the nonce binds the chunk number
    bn = one_body(prog, rep, 'R04.6', 'mla', exact='layers::encrypt::build_nonce')
    if bn is not None:
        from .c06 import nonce_layout
        layout = nonce_layout(prog, bn)
        ctr = [(rng, w) for rng, w in layout if w in ('ctr:be', 'ctr:le') and rng is not None and None not in rng and rng[1] - rng[0] == 4]
        pre = [(rng, w) for rng, w in layout if w == 'prefix' and rng is not None and None not in rng and rng[1] - rng[0] == 8]
        ok = len(ctr) == 1 and len(pre) == 1 and len(layout) == 2 and (ctr[0][0][1] <= pre[0][0][0] or pre[0][0][1] <= ctr[0][0][0])
        rep.ob('R04.6', ok, 'R04.6|%s|nonce-binds-chunk-number' % bn.nkey, 'nonce = 8-byte archive prefix + the 4 low-order bytes of the chunk counter' if ok else
               'the nonce does not contain the 4 low-order bytes of the chunk counter (layout %s): a chunk and its tag verify at any position, so reordered or replayed '
               'chunks pass the default (authenticated) repair' % (layout,), bn.loc())
        # and the fail-safe reader's loads use the running chunk counter (same rule as R03.3, on the unauthenticated + authenticated loaders)
    # ---------------- R04.5 the authentication failure reaches the latch: nothing below turns it into success
    n_s, sites, bad = wrong_tag_swallows(prog, skip_keys=(rd.key,) if rd is not None else ())
    rep.floor('R04.5', n_s, 5, 'call sites of functions that may return AuthenticatedDecryptionWrongTag')
    badk = {(b.key, blk.idx): okb for b, blk, okb in bad}
    cnt = collections.Counter()
    for (bk, bi), (b, blk) in sorted(sites.items()):
        if rd is not None and bk == rd.key:
            continue
        rep.fn(b)
        base = '%s|%s' % (b.nkey, blk.term.cmethod or 'fn-pointer-call')
        key = 'R04.5|%s#%d|wrong-tag-propagated' % (base, cnt[base])
        cnt[base] += 1
        okb = badk.get((bk, bi))
        rep.ob('R04.5', okb is None, key, 'a wrong-tag error of %s is handed to the caller' % (blk.term.cmethod or 'fn pointer') if okb is None else
               'a wrong-tag error returned by %s can reach an Ok(..) result of %s (at %s): the failed chunk is skipped silently and the fail-safe reader above never '
               'sees the failure, so reading resumes with the chunks after it' % (blk.term.cmethod, b.nkey, b.loc(okb)), b.loc(blk.idx))

    # ---------------- R04.4 stop at the first failed chunk (latch)
    if rd is not None:
        # the arm turning AuthenticatedDecryptionWrongTag into Ok(..)
        arm = None
        for sbb, si in arm_of_enum_switch(prog, rd, adt='errors::Error'):
            tgt = enum_arm_target(si, 'AuthenticatedDecryptionWrongTag')
            if tgt is not None and tgt != si['otherwise']:
                arm = (sbb, tgt)
        if arm is None:
            rep.ob('R04.4', True, 'R04.4|%s|no-wrong-tag-swallow' % rd.nkey, 'wrong tag is not converted into end-of-stream (propagated as an error)', rd.loc())
        else:
            sbb, tgt = arm
            # stores to fields of self on the blocks only reachable through the arm edge
            latch_fields = set()
            # blocks executed only when the error is the wrong-tag one: reachable from that arm, constant flags followed (`matches!(..)` goes through one),
            # and not reachable the same way from the other arms of the same switch
            si_ = switch_info(prog, rd, sbb)
            others_ = {t_ for t_ in set(list(si_['arms'].values()) + [si_['otherwise']]) if t_ is not None and t_ != tgt} if si_ else set()
            only_wrong = reachable_ps(rd, tgt)
            for t_ in others_:
                only_wrong = only_wrong - reachable_ps(rd, t_)
            for b in rd.blocks:
                if b.cleanup or b.idx not in only_wrong:
                    continue
                for s in b.stmts:
                    if s.kind == 'assign' and s.place[0] == 1 and place_fields(s.place):
                        latch_fields.add(tuple(place_fields(s.place)))
                t = b.term
            guarded = False
            if latch_fields:
                acalls = [b for b in rd.calls() if b.term.cmethod == 'read_internal']
                for b in acalls:
                    for d in rd.doms.get(b.idx, ()):  # dominating switches testing the latch field
                        bt = rd.blocks[d].term
                        if bt.kind == 'switch':
                            o = origins(rd, [bt.discr.place[0]] if bt.discr.place else [], through_calls=True)
                            if any(f[1:] in latch_fields or f[1:] and tuple(f[1:]) in latch_fields for f in o.fields):
                                guarded = True
            # every path that starts on the Err edge of an authenticated read, is consistent with the error being the wrong-tag one, and
            # ends in an Ok(..) result passes through the latch store (an earlier arm / guard must not swallow the error without latching)
            if latch_fields:
                latch_blocks = [b.idx for b in rd.blocks if not b.cleanup and any(
                    s.kind == 'assign' and s.place[0] == 1 and tuple(place_fields(s.place)) in latch_fields for s in b.stmts)]
                cut = []
                for ebb, esi in arm_of_enum_switch(prog, rd, adt='errors::Error'):
                    wt = enum_arm_target(esi, 'AuthenticatedDecryptionWrongTag')
                    keep = wt if wt is not None else esi['otherwise']
                    for t in set(list(esi['arms'].values()) + [esi['otherwise']]):
                        if t is not None and t != keep:
                            cut.append((ebb, t))
                acalls = [b for b in rd.calls() if b.term.cmethod == 'read_internal']
                n_err = 0
                for ac in acalls:
                    # paths from the return of read_internal that are consistent with "it returned Err(AuthenticatedDecryptionWrongTag)":
                    # at a switch on that Result only the Err edge is followed, at a switch on the Error only the wrong-tag edge
                    rcut = list(cut)
                    for rbb, rsi in arm_of_enum_switch(prog, rd, adt='std::result::Result'):
                        o = origins(rd, [rsi['place'][0]], through_calls=True)
                        if ac.idx not in o.calls:
                            continue
                        et = enum_arm_target(rsi, 'Err')
                        if et is None:
                            continue
                        n_err += 1
                        for t in set(list(rsi['arms'].values()) + [rsi['otherwise']]):
                            if t is not None and t != et:
                                rcut.append((rbb, t))
                    r = rd.reachable(ac.term.target, removed_blocks=latch_blocks, removed_edges=rcut) if ac.term.target is not None else set()
                    oks = [b.idx for b in rd.blocks if b.idx in r and not b.cleanup and any(
                        s.kind == 'assign' and s.rv.r == 'aggregate' and s.rv.j.get('variant') == 'Ok' and 'Result' in (s.rv.j.get('adt') or '') for s in b.stmts)]
                    okp = not oks
                    rep.ob('R04.4', okp, 'R04.4|%s|wrong-tag-error|ok-exit-without-latch' % rd.nkey,
                           'every Ok exit after a wrong-tag error of read_internal passes through the latch store' if okp else
                           'a wrong-tag error returned by read_internal can reach an Ok(..) result without setting %s: the next read resumes with the chunk after the failed one'
                           % sorted('.'.join(f) for f in latch_fields), rd.loc(oks[0] if oks else ac.idx))
                if not n_err:
                    rep.ob('R04.4', False, 'R04.4|%s|wrong-tag-error|err-edge-anchor' % rd.nkey, 'no switch on the Result of read_internal found', rd.loc())
            ok = bool(latch_fields) and guarded
            rep.ob('R04.4', ok, 'R04.4|%s|wrong-tag-arm|no-latch' % rd.nkey,
                   'wrong-tag arm latches %s and later reads test it' % sorted(latch_fields) if ok else
                   'after a chunk fails authentication the reader returns Ok(0) but records nothing: the next read loads the following chunk, so data located after a failed chunk is still output',
                   rd.loc(tgt))
