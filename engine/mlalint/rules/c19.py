"""C19 -- seeded key generation and key derivation follow the documented algorithm (shape level)."""
import json, os
from ..core import *

EXPLANATION = ("Shape of the type-checked program against tables/keyalgo.json (transcribed from README.md): (R19.1) seeded keygen: ChaCha20Rng::from_seed "
               "of a 32-byte buffer filled with Sha512::digest(seed.as_bytes())[0..32], unseeded branch from_os_rng, result feeds generate_keypair and "
               "both output files; (R19.2) the derive step is Hkdf::<Sha512>::new(Some(\"PATH DERIVATION\"), parent.to_bytes()).expand(path.as_bytes(), "
               "[u8; 32]); (R19.3) keyderive chains from_seed(apply_derive(path, secret)) -> generate_keypair -> secret = parse(private_der) inside the "
               "path loop and writes the last pair; (R19.4) generate_keypair: 32 bytes from fill_bytes -> StaticSecret -> PublicKey, DER = constant "
               "prefix || bytes with the documented PKCS#8 / SPKI prefixes (OID 1.3.101.110); keygen / keyderive create their key files empty (File::create, create_new or create+truncate), so the files depend on the inputs only; the key files are created at paths derived from the `output` argument only (KEY and KEY.pub belong together); (R19.5) the clap declarations of --seed / --path only use presentation, arity and typing builders (no value_delimiter, default, ignore_case ..) and the plain String parser. Numeric key values are runtime facts and not decided.")
TRUSTED = ['rustc MIR', 'sha2, hkdf, rand_chacha, x25519-dalek crates']
ASSUMPTIONS = ['README.md at the pinned commit is the documented algorithm (tables/keyalgo.json transcribes it)']
TBL = os.path.join(os.path.dirname(os.path.dirname(os.path.dirname(os.path.abspath(__file__)))), 'tables', 'keyalgo.json')


def buffer_fill(body, local):
    """for a [u8;N] local: list of (bb, Term, argidx) non-passthrough calls receiving &mut into it"""
    return mutarg_defs(body).get(local, [])


def owners_of(body, op, pred=lambda ty: ty.startswith('[u8;')):
    if op.place is None:
        return []
    o = origins(body, [op.place[0]], through_calls=False)
    return [l for l in o.locals if pred(body.lty(l))]



def chain_as_fold(prog, kd, ad, T):
    """the derivation chain written as `paths.fold((parent_secret, None), |(secret, _), path| { .. (child_secret, Some(child)) })`: same obligations as the
    loop form, the loop-carried secret being the accumulator component. Returns (ok, msg) or None when keyderive has no such fold."""
    folds = [b for b in kd.calls() if b.term.cmethod == 'fold' and b.term.ctrait == 'std::iter::Iterator' and len(b.term.args) == 3]
    if len(folds) != 1:
        return None
    f = folds[0].term
    ce = expr_of(kd, f.args[2])
    if ce[0] != 'agg' or ce[3].j.get('agg') != 'closure':
        return None
    C = prog.body('mlar', ce[3].j['closure'])
    if C is None:
        return None
    der = [b for b in C.calls() if cnorm(b.term) == norm(ad.defpath)]
    fs = [b for b in C.calls() if b.term.cmethod == 'from_seed' and b.term.ctrait.endswith('SeedableRng')]
    gk = [b for b in C.calls() if cnorm(b.term).endswith('generate_keypair')]
    pin = [b for b in C.calls() if cnorm(b.term).endswith('parse_openssl_25519_privkey')]
    pout = [b for b in kd.calls() if cnorm(b.term).endswith('parse_openssl_25519_privkey')]
    if not (len(der) == 1 and len(fs) == 1 and len(gk) == 1 and len(pin) == 1 and len(pout) == 1):
        return (False, 'anchors (fold form): apply_derive=%d from_seed=%d generate_keypair=%d parse=%d+%d' % (len(der), len(fs), len(gk), len(pin), len(pout)))
    okt = T['keygen']['prng'] in fs[0].term.callee.get('self_ty', '')
    okseed = fs[0].term.args[0].place is not None and must_derive(C, fs[0].term.args[0].place[0], lambda k, ob, bb: k == 'call' and bb == der[0].idx)
    okgen = gk[0].term.args[0].place is not None and must_derive(C, gk[0].term.args[0].place[0], lambda k, ob, bb: k == 'call' and bb == fs[0].idx)
    po = origins(C, [pin[0].term.args[0].place[0]])
    okre = gk[0].idx in po.calls and any('private_der' in x for x in po.fields)
    # which component of the accumulator (closure parameter 2) is the secret handed to apply_derive
    comp = []

    def acc_src(kind, obj, bb):
        if kind == 'assign' and obj.kind == 'assign' and obj.rv is not None:
            pls = obj.rv.src_places()
            if len(pls) == 1 and pls[0][0] == 2:
                fl = [p for p in pls[0][1] if p[0] == 'f']
                if fl:
                    comp.append(fl[0][1])
                    return True
        return False
    a1 = der[0].term.args[1]
    oksec = a1.place is not None and must_derive(C, a1.place[0], acc_src) and len(set(comp)) == 1
    a0 = der[0].term.args[0]
    okpath = a0.place is not None and must_derive(C, a0.place[0], lambda k, ob, bb: k == 'param' and ob == 3)
    okchain = okinit = False
    if oksec:
        k = comp[0]
        # the closure returns (.., child secret at position k, ..); the fold starts from (.., parent secret at position k, ..)
        rets = [st for bl in C.blocks if not bl.cleanup for st in bl.stmts if st.kind == 'assign' and st.place == (0, ()) and st.rv.r == 'aggregate' and st.rv.j.get('agg') == 'tuple']
        okchain = len(rets) == 1 and k < len(rets[0].rv.ops) and rets[0].rv.ops[k].place is not None and \
            must_derive(C, rets[0].rv.ops[k].place[0], lambda kk, ob, bb: kk == 'call' and bb == pin[0].idx, extra_transparent=('unwrap', 'expect', 'branch'))
        ie = expr_of(kd, f.args[1])
        okinit = ie[0] == 'agg' and ie[3].j.get('agg') == 'tuple' and k < len(ie[3].ops) and ie[3].ops[k].place is not None and \
            must_derive(kd, ie[3].ops[k].place[0], lambda kk, ob, bb: kk == 'call' and bb == pout[0].idx, extra_transparent=('unwrap', 'expect', 'branch'))
    io = origins(kd, [f.args[0].place[0]]) if f.args[0].place is not None else None
    okiter = io is not None and any(kd.blocks[x].term.cmethod == 'get_many' for x in io.calls)
    ok = okt and okseed and okgen and okre and oksec and okpath and okchain and okinit and okiter
    return (ok, 'per path (fold): ChaCha20Rng::from_seed(apply_derive(path, secret)) -> generate_keypair -> next secret = parse(private_der)' if ok else
            'derivation chain (fold form) differs (chacha20=%s seed=%s gen=%s reparse=%s secret-from-accumulator=%s path=%s chained=%s init=%s paths=%s)'
            % (okt, okseed, okgen, okre, oksec, okpath, okchain, okinit, okiter))


ARG_NEUTRAL = {'help', 'long_help', 'long', 'short', 'num_args', 'action', 'value_parser', 'required', 'value_name', 'display_order', 'help_heading', 'visible_alias',
               'visible_short_alias', 'alias', 'short_alias', 'next_line_help', 'hide', 'index', 'conflicts_with', 'requires', 'group', 'value_hint', 'into', 'from'}


def r19_cli_args(prog, rep):
    """"for every seed / for every list of derivation paths": the strings reach keygen / keyderive as typed. The clap declarations of `--seed` and `--path`
    use only presentation / arity / typing builders: nothing that splits, trims, lower-cases or defaults the value (value_delimiter, value_terminator,
    ignore_case, default_value, env, ..), and the value parser is the plain String one."""
    nd = 0
    for body in prog.crates['mlar'].bodies:
        for b in body.calls():
            t = b.term
            if cnorm(t) != 'clap::Arg::new' or not t.args:
                continue
            name = const_bytes_of(body, t.args[0])
            if name not in (b'seed', b'path'):
                continue
            nd += 1
            rep.fn(body)
            cur = t.dest[0]
            chain = []
            for _ in range(20):
                nxt = None
                for c in body.calls():
                    ct = c.term
                    if ct.args and ct.args[0].place is not None and ct.args[0].place[0] == cur and cnorm(ct).startswith('clap::Arg::') and ct.dest is not None:
                        nxt = ct
                        break
                if nxt is None:
                    break
                chain.append(nxt)
                cur = nxt.dest[0]
            bad = sorted({c.cmethod for c in chain} - ARG_NEUTRAL)
            vp = [c for c in chain if c.cmethod == 'value_parser']
            def plain_string_parser(c):
                # `value_parser!(String)`: the parser value comes from the String instance of clap's auto parser / ValueParser::string(), no closure or fn item
                if len(c.args) < 2 or c.args[1].place is None:
                    return False
                o_ = origins(body, [c.args[1].place[0]])
                calls_ = [body.blocks[x].term for x in o_.calls]
                return any('std::string::String' in ct_.cargs or ct_.cmethod == 'string' for ct_ in calls_) and not any(k_.get('fn') for k_ in o_.consts) and \
                    not any(a_.j.get('agg') == 'closure' for (_, _, a_) in o_.aggs)
            okvp = all(plain_string_parser(c) for c in vp)
            ok = not bad and okvp
            rep.ob('R19.5', ok, 'R19.5|%s|arg:%s|value-taken-as-typed' % (body.nkey, name.decode()), 'declared with %s' % sorted({c.cmethod for c in chain}) if ok else
                   'the declaration of --%s transforms or splits the value (%s%s): the string that reaches the key derivation is not the one the user gave'
                   % (name.decode(), ', '.join(bad) or 'value_parser', '' if okvp else '; value parser is not the plain String parser'), body.loc(b.idx))
    rep.floor('R19.5', nd, 2, 'declarations of --seed / --path')


def run(prog, rep, tier):
    T = json.load(open(TBL))
    mlar = prog.crates['mlar']
    # ---------------- R19.1 keygen
    kg = one_body(prog, rep, 'R19.1', 'mlar', exact='keygen')
    if kg is not None:
        from ..inline import inlined_body
        kg = inlined_body(prog, kg, skip=('generate_keypair', 'apply_derive'))     # the seeded generator may be built by a private helper
        clos = [inlined_body(prog, c_, skip=('generate_keypair', 'apply_derive')) for c_ in prog.closures_of(kg)]     # .. also from the seed closure
        # the seeded generator is built in the closure handed to map_or_else, or in the Some(seed) arm of a match in keygen itself
        seeded = [(c, b) for c in clos + [kg] for b in c.calls() if b.term.cmethod == 'from_seed' and b.term.ctrait.endswith('SeedableRng')]
        ok = len(seeded) == 1
        msg = 'expected one from_seed site in the seed closure of keygen, found %d' % len(seeded)
        if ok:
            c, b = seeded[0]
            rep.fn(c)
            t = b.term
            okt = T['keygen']['prng'] in t.callee.get('self_ty', '')
            owners = owners_of(c, t.args[0])
            # (a write into the buffer that cannot reach the from_seed call -- zeroising it afterwards -- does not decide the seed)
            fills = [f for l in owners for f in buffer_fill(c, l) if b.idx in c.reachable(f[0])]
            okf = len(fills) == 1 and fills[0][1].cmethod == 'copy_from_slice' and fills[0][2] == 0 and c.dominates(fills[0][0], b.idx)
            okd = okr = oks = False
            so = None
            if okf:
                so = origins(c, [fills[0][1].args[1].place[0]])
            else:
                # `from_seed(digest.split_at(32).0.try_into().unwrap())`: the seed is the first half of a split of the digest at 32, converted to an array
                cur = t.args[0]
                for _ in range(6):
                    e_ = deref_expr(c, expr_of(c, cur))
                    if e_[0] == 'call' and e_[2].cmethod in ('unwrap', 'expect', 'try_into', 'try_from', 'into', 'from') and e_[2].args and e_[2].args[0].place is not None:
                        cur = e_[2].args[0]
                        continue
                    if e_[0] in ('place', 'ref') and [p_[1] for p_ in e_[1][1] if p_[0] == 'f'] == [0]:
                        ds_ = [d_ for d_ in c.defs.get(e_[1][0], []) if d_[2] == 'call']
                        if len(ds_) == 1 and len(c.defs.get(e_[1][0], [])) == 1 and ds_[0][3].cmethod in ('split_at', 'split_first_chunk', 'split_at_checked') and \
                                (ds_[0][3].cmethod == 'split_first_chunk' and '<32>' in ds_[0][3].cargs or len(ds_[0][3].args) == 2 and const_eval(c, ds_[0][3].args[1]) == T['keygen']['range'][1]) and \
                                ds_[0][3].args[0].place is not None and c.dominates(ds_[0][0], b.idx):
                            okf = okr = True
                            so = origins(c, [ds_[0][3].args[0].place[0]])
                    break
            if so is not None:
                for cb in so.calls:
                    ct = c.blocks[cb].term
                    if ct.cmethod == 'digest' and T['keygen']['hash'] in ct.cargs.replace('VarCore', ''):
                        okd = True
                        ao = origins(c, [ct.args[0].place[0]])
                        # the hashed bytes are the seed itself: must-derive through value-preserving accessors only (as_bytes, deref, as_str ..);
                        # a trim / case change / re-encoding in between is not the documented algorithm
                        if c.kind == 'Closure':
                            is_seed = lambda k, ob, bb: k == 'param' and ob == 2
                        else:
                            is_seed = lambda k, ob, bb: k == 'call' and ob.cmethod == 'get_one' and any(const_bytes_of(c, a) == b'seed' for a in ob.args)
                        oks = any(c.blocks[x].term.cmethod == 'as_bytes' for x in ao.calls) and ct.args[0].place is not None and \
                            must_derive(c, ct.args[0].place[0], is_seed, extra_transparent=('as_bytes',))
                    if ct.cmethod == 'index' and 'Range' in ct.cargs:
                        e = expr_of(c, ct.args[1])
                        if e[0] == 'agg':
                            vals = [const_eval(c, o) for o in e[3].ops]
                            nm = e[3].j.get('adt', '').rsplit('::', 1)[-1]
                            rng = vals if nm == 'Range' else ([0] + vals if nm == 'RangeTo' else None)
                            if rng == T['keygen']['range']:
                                okr = True
                other_digest = [c.blocks[cb].term.cargs for cb in so.calls if c.blocks[cb].term.cmethod in ('digest', 'finalize', 'hash')]
                if len(other_digest) != 1:
                    okd = False
            ok = okt and okf and okd and okr and oks
            msg = 'seed -> Sha512::digest(seed.as_bytes())[0..32] -> ChaCha20Rng::from_seed' if ok else \
                'seeded generator differs from the documented algorithm (ChaCha20=%s buffer-filled-once=%s sha512=%s range0..32=%s seed-bytes=%s)' % (okt, okf, okd, okr, oks)
        rep.ob('R19.1', ok, 'R19.1|mlar::keygen|seeded-generator', msg, seeded[0][0].loc(seeded[0][1].idx) if seeded else kg.loc())
        # unseeded branch and use of the result
        moe = [b for b in kg.calls() if b.term.cmethod == 'map_or_else']
        gk = [b for b in kg.calls() if cnorm(b.term).endswith('generate_keypair')]
        ok = len(moe) == 1 and len(gk) == 1
        if ok:
            t = moe[0].term
            f0 = t.args[1]
            okos = f0.kind == 'const' and (f0.k.get('fn_args') or '').endswith('from_os_rng') and 'ChaCha20Rng' in (f0.k.get('fn_args') or '')
            okcl = t.args[2].place is not None and any(d[2] == 'assign' and d[3].rv.r == 'aggregate' and d[3].rv.j.get('closure') == seeded[0][0].defpath for d in kg.defs.get(t.args[2].place[0], [])) if seeded else False
            oo = origins(kg, [t.args[0].place[0]])
            okseedarg = any(kg.blocks[x].term.cmethod == 'get_one' and any(const_bytes_of(kg, a) == b'seed' for a in kg.blocks[x].term.args) for x in oo.calls)
            # ... and it is that option as given: nothing (filter, and_then, a default) decides in between that some seeds are "no seed"
            okseedarg = okseedarg and t.args[0].place is not None and must_derive(
                kg, t.args[0].place[0], lambda k, ob, bb: k == 'call' and ob.cmethod == 'get_one' and any(const_bytes_of(kg, a) == b'seed' for a in ob.args))
            okuse = gk[0].term.args[0].place is not None and must_derive(kg, gk[0].term.args[0].place[0], lambda k, ob, bb: k == 'call' and bb == moe[0].idx)
            ok = okos and okcl and okseedarg and okuse
        elif len(gk) == 1 and seeded and seeded[0][0] is kg:
            # match form: Some(seed) => seeded generator, None => from_os_rng
            fs = seeded[0][1]
            osr = [b for b in kg.calls() if b.term.cmethod == 'from_os_rng' and 'ChaCha20Rng' in (b.term.callee.get('self_ty', '') + b.term.cargs)]
            sel = None
            for sbb, si in arm_of_enum_switch(prog, kg, adt='std::option::Option'):
                oo = origins(kg, [si['place'][0]])
                if any(kg.blocks[x].term.cmethod == 'get_one' and any(const_bytes_of(kg, a) == b'seed' for a in kg.blocks[x].term.args) for x in oo.calls) and \
                        must_derive(kg, si['place'][0], lambda k, ob, bb: k == 'call' and ob.cmethod == 'get_one' and any(const_bytes_of(kg, a) == b'seed' for a in ob.args)):
                    sel = (sbb, enum_arm_target(si, 'Some'), enum_arm_target(si, 'None'))
            ok = False
            if sel and len(osr) == 1 and sel[1] is not None and sel[2] is not None and sel[1] != sel[2]:
                okarms = kg.edge_dominates((sel[0], sel[1]), fs.idx) and kg.edge_dominates((sel[0], sel[2]), osr[0].idx)
                a0 = gk[0].term.args[0]
                okuse = a0.place is not None and must_derive(kg, a0.place[0], lambda k, ob, bb: k == 'call' and bb in (fs.idx, osr[0].idx))
                ok = okarms and okuse
                moe = [fs]
        rep.ob('R19.1', ok, 'R19.1|mlar::keygen|generator-selection', 'generator = seed.map_or_else(ChaCha20Rng::from_os_rng, seeded closure) feeds generate_keypair' if ok else
               'keygen does not select between from_os_rng and the seeded generator as documented', kg.loc(moe[0].idx) if moe else kg.loc())
        check_outputs(kg, rep, 'R19.1', gk, prog)

    # ---------------- R19.5 the seed and the paths reach the commands as typed
    r19_cli_args(prog, rep)

    # ---------------- R19.2 derive step
    hk = [b for b in mlar.bodies if any(c.term.cmethod == 'new' and 'hkdf::Hkdf' in c.term.cargs for c in b.calls())]
    if len(hk) != 1:
        rep.ob('R19.2', False, 'R19.2|anchor|hkdf-user', 'expected one function of mlar using Hkdf::new, found %d' % len(hk))
        ad = None
    else:
        ad = hk[0]
        rep.fn(ad)
        n = [c for c in ad.calls() if c.term.cmethod == 'new' and 'hkdf::Hkdf' in c.term.cargs][0].term
        xs = [c for c in ad.calls() if c.term.cmethod == 'expand' and 'hkdf::Hkdf' in c.term.cargs]
        okh = T['derive']['hash'] in n.cargs and 'Sha256' not in n.cargs
        se = expr_of(ad, n.args[0])
        oks = se[0] == 'agg' and se[3].j.get('variant') == 'Some' and const_bytes_of(ad, se[3].ops[0]) == T['derive']['salt'].encode()
        io = origins(ad, [n.args[1].place[0]])
        oki = any(ad.blocks[x].term.cmethod == 'to_bytes' and 'StaticSecret' in ad.blocks[x].term.cargs for x in io.calls) and 2 in io.params and 1 not in io.params
        oki = oki and n.args[1].place is not None and must_derive(ad, n.args[1].place[0], lambda k, ob, bb: k == 'param' and ob == 2, extra_transparent=('to_bytes', 'as_bytes'))
        okx = okout = False
        if len(xs) == 1:
            x = xs[0].term
            xo = origins(ad, [x.args[1].place[0]])
            okx = any(ad.blocks[y].term.cmethod == 'as_bytes' for y in xo.calls) and 1 in xo.params and 2 not in xo.params
            # info is the path itself (value-preserving accessors only: no trim / normalisation / re-encoding in between)
            okx = okx and x.args[1].place is not None and must_derive(ad, x.args[1].place[0], lambda k, ob, bb: k == 'param' and ob == 1, extra_transparent=('as_bytes',))
            outs = owners_of(ad, x.args[2])
            ro = origins(ad, [0], through_calls=False)
            okout = bool(outs) and all(ad.lty(l) == '[u8; %d]' % T['derive']['out_len'] for l in outs) and any(l in ro.locals for l in outs)
            # the same Hkdf instance is expanded
            okx = okx and x.args[0].place is not None and must_derive(ad, x.args[0].place[0], lambda k, ob, bb: k == 'call' and ob is n)
        ok = okh and oks and oki and okx and okout
        rep.ob('R19.2', ok, 'R19.2|%s|hkdf-step' % ad.nkey, 'HKDF-SHA512(salt "PATH DERIVATION", ikm = parent.to_bytes(), info = path.as_bytes()) -> [u8; 32]' if ok else
               'derivation step differs from the documented one (sha512=%s salt=%s ikm-parent=%s info-path=%s out32=%s)' % (okh, oks, oki, okx, okout), ad.loc())

    # ---------------- R19.3 chaining
    kd = one_body(prog, rep, 'R19.3', 'mlar', exact='keyderive')
    if kd is not None and ad is not None:
        loop = kd.loop_blocks()
        der = [b for b in kd.calls() if cnorm(b.term) == norm(ad.defpath)]
        fs = [b for b in kd.calls() if b.term.cmethod == 'from_seed' and b.term.ctrait.endswith('SeedableRng')]
        gk = [b for b in kd.calls() if cnorm(b.term).endswith('generate_keypair')]
        ps = [b for b in kd.calls() if cnorm(b.term).endswith('parse_openssl_25519_privkey')]
        ok = len(der) == 1 and len(fs) == 1 and len(gk) == 1 and len(ps) == 2
        msg = 'anchors: apply_derive=%d from_seed=%d generate_keypair=%d parse=%d' % (len(der), len(fs), len(gk), len(ps))
        folded = chain_as_fold(prog, kd, ad, T) if not ok else None
        if folded is not None:
            ok, msg = folded
        elif ok:
            inl = all(x.idx in loop for x in (der[0], fs[0], gk[0])) and sum(1 for p in ps if p.idx in loop) == 1
            okt = T['keygen']['prng'] in fs[0].term.callee.get('self_ty', '')
            okseed = fs[0].term.args[0].place is not None and must_derive(kd, fs[0].term.args[0].place[0], lambda k, ob, bb: k == 'call' and bb == der[0].idx)
            okgen = gk[0].term.args[0].place is not None and must_derive(kd, gk[0].term.args[0].place[0], lambda k, ob, bb: k == 'call' and bb == fs[0].idx)
            pin = [p for p in ps if p.idx in loop][0]
            pout = [p for p in ps if p.idx not in loop][0]
            po = origins(kd, [pin.term.args[0].place[0]])
            okre = gk[0].idx in po.calls and any('private_der' in f for f in po.fields)
            # secret handed to apply_derive comes from the initial parse or the in-loop re-parse
            so = origins(kd, [der[0].term.args[1].place[0]])
            oksec = pin.idx in so.calls and pout.idx in so.calls
            pathop = origins(kd, [der[0].term.args[0].place[0]])
            okpath = any(kd.blocks[x].term.cmethod == 'next' for x in pathop.calls) and any(kd.blocks[x].term.cmethod == 'get_many' for x in pathop.calls)
            # the path handed to apply_derive is the iterator item as is
            a0 = der[0].term.args[0]
            okpath = okpath and a0.place is not None and must_derive(kd, a0.place[0], lambda k, ob, bb: k == 'call' and ob.cmethod == 'next' and ob.ctrait == 'std::iter::Iterator')
            ok = inl and okt and okseed and okgen and okre and oksec and okpath
            msg = 'per path: ChaCha20Rng::from_seed(apply_derive(path, secret)) -> generate_keypair -> secret = parse(private_der)' if ok else \
                'derivation chain differs (in-loop=%s chacha20=%s seed=%s gen=%s reparse=%s secret-chain=%s paths=%s)' % (inl, okt, okseed, okgen, okre, oksec, okpath)
        rep.ob('R19.3', ok, 'R19.3|mlar::keyderive|chain', msg, kd.loc())
        check_outputs(kd, rep, 'R19.3', gk, prog)

    # ---------------- R19.4 key pair from generator bytes
    gp = one_body(prog, rep, 'R19.4', 'curve25519-parser', exact='generate_keypair')
    cp = prog.crates['curve25519-parser']
    if gp is not None:
        fb = [b for b in gp.calls() if b.term.cmethod == 'fill_bytes']
        ss = [b for b in gp.calls() if b.term.cmethod == 'from' and 'StaticSecret' in b.term.callee.get('self_ty', '')]
        pk = [b for b in gp.calls() if b.term.cmethod == 'from' and 'PublicKey' in b.term.callee.get('self_ty', '')]
        ok = len(fb) == 1 and len(ss) == 1 and len(pk) == 1
        if ok:
            buf = owners_of(gp, ss[0].term.args[0])
            fills = [f for l in buf for f in buffer_fill(gp, l)]
            okb = len(fills) == 1 and fills[0][0] == fb[0].idx and all(gp.lty(l) == '[u8; 32]' for l in buf) and gp.dominates(fb[0].idx, ss[0].idx)
            okr = fb[0].term.args[0].place is not None and must_derive(gp, fb[0].term.args[0].place[0], lambda k, ob, bb: k == 'param' and ob == 1)
            okp = pk[0].term.args[0].place is not None and must_derive(gp, pk[0].term.args[0].place[0], lambda k, ob, bb: k == 'call' and bb == ss[0].idx)
            ok = okb and okr and okp
        rep.ob('R19.4', ok, 'R19.4|%s|secret-from-generator' % gp.nkey, '32 bytes from fill_bytes(csprng) -> StaticSecret::from -> PublicKey::from(&secret)' if ok else
               'key pair is not computed from 32 generator bytes as documented', gp.loc())
        # DER assembly (on the body with private helpers spliced in: the prefix || key layout may be built by a shared helper)
        from ..inline import inlined_body
        g2 = inlined_body(prog, gp)
        agg = [s for b in g2.blocks for s in b.stmts if s.kind == 'assign' and s.rv.r == 'aggregate' and s.rv.j.get('adt') == 'KeyPair']
        if len(agg) == 1 and ok:
            s = agg[0]
            secret_buf = set(owners_of(g2, ss[0].term.args[0]))
            for fld, prefix_const, payload in (('private_der', 'PRIV_KEY_PREFIX', 'private'), ('public_der', 'PUB_KEY_PREFIX', 'public')):
                op = s.rv.ops[s.rv.j['fields'].index(fld)]
                owners = set(owners_of(g2, op))

                def is_prefix_len(o_):
                    if o_ is None or o_.place is None:
                        return False
                    lo = origins(g2, [o_.place[0]])
                    return any((k.get('def') or '') == prefix_const for k in lo.consts) and any(g2.blocks[x].term.cmethod == 'len' for x in lo.calls) and not lo.binops

                parts = []
                for cb in g2.calls():
                    ct = cb.term
                    if ct.cmethod != 'copy_from_slice' or ct.args[0].place is None or ct.args[1].place is None and ct.args[1].kind != 'const':
                        continue
                    do = origins(g2, [ct.args[0].place[0]])
                    if not (do.locals & owners):
                        continue
                    where = set()
                    for x in do.calls:
                        xt = g2.blocks[x].term
                        if xt.cmethod == 'index_mut' and len(xt.args) >= 2:
                            e = expr_of(g2, xt.args[1])
                            if e[0] == 'agg' and e[3].ops and is_prefix_len(e[3].ops[0]):
                                nm = e[3].j.get('adt', '').rsplit('::', 1)[-1]
                                where.add({'RangeTo': 'head', 'RangeFrom': 'tail'}.get(nm, '?'))
                            else:
                                where.add('?')
                        elif xt.cmethod == 'split_at_mut' and len(xt.args) >= 2:
                            if is_prefix_len(xt.args[1]):
                                half = {ix for f in do.fields_ix for (of, ix) in f if of.startswith(('(&mut [u8]', '([u8]'))}
                                where.add({0: 'head', 1: 'tail'}.get(next(iter(half)), '?') if len(half) == 1 else '?')
                            else:
                                where.add('?')
                    c1 = const_of(g2, ct.args[1])
                    so = origins(g2, [ct.args[1].place[0]]) if ct.args[1].place is not None else None
                    if c1 is not None and (c1.get('def') or '') == prefix_const:
                        what = 'prefix'
                    elif so is not None and any((k.get('def') or '') == prefix_const for k in so.consts) and not so.calls - {x for x in so.calls if g2.blocks[x].term.cmethod in ('deref', 'as_ref', 'as_slice')}:
                        what = 'prefix'
                    elif so is not None and payload == 'private' and (so.locals & secret_buf):
                        what = 'key'
                    elif so is not None and payload == 'public' and pk[0].idx in so.calls:
                        what = 'key'
                    else:
                        what = '?'
                    parts.append((sorted(where), what))
                good = sorted(parts) == [(['head'], 'prefix'), (['tail'], 'key')]
                # nothing else writes into the buffer
                other = [f for l in owners for f in buffer_fill(g2, l) if f[1].cmethod not in ('copy_from_slice', 'index_mut', 'split_at_mut', 'deref_mut', 'as_mut', 'as_mut_slice')]
                good = good and not other
                rep.ob('R19.4', good, 'R19.4|%s|%s-layout' % (gp.nkey, fld), '%s = %s || %s bytes' % (fld, prefix_const, payload) if good else
                       '%s is not assembled as %s || key bytes (copies found: %s)' % (fld, prefix_const, parts), gp.loc())
    for cname, want in (('PRIV_KEY_PREFIX', T['der']['priv_prefix_hex']), ('PUB_KEY_PREFIX', T['der']['pub_prefix_hex'])):
        got = cp.const_bytes(cname)
        ok = got is not None and got.hex() == want
        # static DER walk: SEQUENCE length consistent with prefix + 32
        okl = ok and got[0] == 0x30 and got[1] == len(got) - 2 + 32 and T['der']['oid_x25519'] in got.hex()
        rep.ob('R19.4', bool(okl), 'R19.4|curve25519-parser::%s|der-prefix' % cname, '%s = %s (SEQUENCE length %d = prefix + 32, OID 1.3.101.110)' % (cname, want, got[1]) if okl else
               'DER prefix %s is %s, documented %s' % (cname, got.hex() if got else None, want), '-')


def check_outputs(body, rep, rule, gk, prog=None):
    """the two write_all calls write public_as_pem() / private_der of the generated pair"""
    if len(gk) != 1:
        return
    if prog is not None:
        # the writes may sit in a private helper shared by keygen and keyderive: examine the function with such helpers spliced in
        from ..inline import inlined_body
        gkt = gk[0].term
        body = inlined_body(prog, body, skip=('apply_derive',))
        gk = [b for b in body.calls() if b.term is gkt or (cnorm(b.term) == cnorm(gkt) and b.idx == gk[0].idx)] or gk
    ws = [b for b in body.calls() if b.term.cmethod == 'write_all' and b.term.ctrait == 'std::io::Write']
    kinds = set()
    for w in ws:
        o = origins(body, [w.term.args[1].place[0]])
        if gk[0].idx not in o.calls:
            continue
        if any(body.blocks[x].term.cmethod == 'public_as_pem' for x in o.calls):
            kinds.add('public_pem')
        if any('private_der' in f for f in o.fields):
            kinds.add('private_der')
    # "the same inputs always give the same key files": each output file is created empty, whatever was at that path before
    from .c16 import created_empty
    opens = [b for b in body.calls() if cnorm(b.term) in ('std::fs::File::create', 'std::fs::File::create_new', 'std::fs::OpenOptions::open')]
    stale = []
    wrong_path = []
    for c in opens:
        # only the files that receive the key material
        fl = forward_locals(body, [c.term.dest[0]], through_calls=True) if c.term.dest is not None else set()
        if not any(w.term.args[0].place is not None and w.term.args[0].place[0] in fl for w in ws):
            continue
        fresh, how = created_empty(body, c)
        if not fresh:
            stale.append('%s (%s)' % (body.loc(c.idx), how))
        # "the public file always matches the private file": both files are named after the `output` argument (KEY and KEY.pub), never after the input key
        pa_ = c.term.args[-1] if cnorm(c.term) == 'std::fs::OpenOptions::open' else c.term.args[0]
        if pa_.place is not None:
            po_ = origins(body, [pa_.place[0]])
            argn = set()
            for x_ in po_.calls:
                tx = body.blocks[x_].term
                if tx.cmethod in ('get_one', 'get_many', 'get_raw'):
                    argn |= {bytes(const_bytes_of(body, a_) or b'') for a_ in tx.args}
            argn.discard(b'')
            if argn != {b'output'}:
                wrong_path.append('%s (named after %s)' % (body.loc(c.idx), sorted(x.decode() for x in argn) or 'no command-line argument'))
    rep.ob(rule, not stale and bool(opens), '%s|%s|outputs-created-empty' % (rule, body.nkey), 'the key files are created empty (File::create / create_new / create+truncate)' if (not stale and opens) else
           'a key file is opened without being emptied (%s): what the path held before survives behind the new key, the same inputs no longer give the same files'
           % (', '.join(stale) or 'no creation call found'), body.loc())
    rep.ob(rule, not wrong_path, '%s|%s|outputs-named-after-output-argument' % (rule, body.nkey), 'the key files are created at paths derived from the `output` argument only' if not wrong_path else
           'a key file is created at a path that does not come from the `output` argument alone: %s -- the pair KEY / KEY.pub no longer belongs together' % ', '.join(wrong_path), body.loc())
    ok = kinds == {'public_pem', 'private_der'}
    rep.ob(rule, ok, '%s|%s|outputs' % (rule, body.nkey), 'writes public_as_pem() and private_der of the generated pair' if ok else 'output files do not carry the PEM public key and DER private key of the generated pair (%s)' % sorted(kinds), body.loc())


def thorough_extra(rep, verif, repo):
    """documentation cross-reference of the current tree (positive mismatches only)"""
    from .. import docscan
    return docscan.scan_readme(rep, verif, repo)
