"""C12 -- linear extraction equals per-file extraction and notices truncation (clause level)."""
from ..core import *

EXPLANATION = ("Static MIR rules on helpers::linear_extract: (R12.1) every Ok(()) result is edge-dominated by the EndOfArchiveData arm of the "
               "switch on the block returned by ArchiveFileBlock::from, and the Err outcome of that call leaves the loop through from_residual; "
               "(R12.2) in the FileContent arm the id->name lookup key is the arm's id, the sink of the routed copy comes from "
               "export.get_mut(looked-up name), and every copy reads from take(src, arm's length); (R12.3) every path (constant-flag sensitive) "
               "through the FileContent arm back to the next block read passes an io::copy from that take value; (R12.4) names are registered "
               "only on the true edge of export.contains_key(filename) with the arm's id, and EndOfFile removes the arm's id; (R12.5) a rewind of "
               "archive.src dominates the loop; (R12.6) the count of a raw write into a routed writer is used; (R12.7) the drain into io::sink() is reachable only on the edges where the block's id is not registered (constant-flag sensitive), so no early-stop shortcut skips a requested file. (R12.8) the io::Result of every copy in linear_extract (closures included) is propagated, never reduced to a flag (is_ok / ok / unwrap_or ..) or dropped. Byte equality with get_file is runtime and not decided.")
TRUSTED = ['rustc MIR', 'std::io::copy / Take semantics (copy drains the take)']
ASSUMPTIONS = ['io::copy on a Take reads exactly `length` bytes unless the source ends (std semantics)']

BLOCK = 'ArchiveFileBlock'


def payload_src(body, local, variant, field):
    """local must-derive from `<block> as variant.field` : returns True if every def is a copy of such a projection"""
    def is_src(kind, obj, bb):
        if kind == 'assign' and obj.rv.r == 'use' and obj.rv.ops[0].place is not None:
            pr = obj.rv.ops[0].place[1]
            downs = [p[2] for p in pr if p[0] == 'down']
            flds = [p[2] for p in pr if p[0] == 'f']
            if downs == [variant] and flds == [field]:
                return True
        return False
    return must_derive(body, local, is_src)


RESULT_DISCARDING = ('is_ok', 'is_err', 'ok', 'err', 'unwrap_or', 'unwrap_or_default', 'unwrap_or_else', 'map_or', 'map_or_else', 'is_ok_and', 'is_err_and', 'drop',
                     'unwrap_or_else', 'iter', 'into_iter')
RESULT_KEEPING = ('map', 'map_err', 'inspect', 'inspect_err', 'and_then', 'or_else', 'into', 'from')


def result_fate(body, local, depth=0):
    """what becomes of the io::Result held in `local`: set of 'propagated' (Try::branch), 'returned' (moved into the return place), 'discarded:<method>',
    'unused', 'other:<what>'"""
    fates = set()
    if depth > 8:
        return {'other:depth'}
    used = False
    for bl in body.blocks:
        if bl.cleanup:
            continue
        for st in bl.stmts:
            if st.kind != 'assign' or st.rv is None:
                continue
            if any(pl[0] == local for pl in st.rv.src_places()):
                if st.rv.r in ('use', 'cast') and not any(pl[1] for pl in st.rv.src_places() if pl[0] == local):
                    used = True
                    if st.place == (0, ()):
                        fates.add('returned')
                    elif not st.place[1]:
                        fates |= result_fate(body, st.place[0], depth + 1)
                    else:
                        fates.add('other:stored')
                elif st.rv.r == 'discriminant' or any(pl[1] for pl in st.rv.src_places() if pl[0] == local):
                    used = True
                    fates.add('other:matched')
                elif st.rv.r == 'ref':
                    used = True
                    if not st.place[1]:
                        fates |= result_fate(body, st.place[0], depth + 1)
        t = bl.term
        if t.kind == 'call' and any(a.place is not None and a.place[0] == local and not a.place[1] for a in t.args):
            used = True
            if t.cmethod == 'branch' and t.ctrait == 'std::ops::Try':
                fates.add('propagated')
            elif t.cmethod in RESULT_DISCARDING:
                fates.add('discarded:' + t.cmethod)
            elif t.cmethod in RESULT_KEEPING and t.dest is not None and not t.dest[1]:
                if t.dest == (0, ()):
                    fates.add('returned')
                else:
                    fates |= result_fate(body, t.dest[0], depth + 1)
            else:
                fates.add('other:' + t.cmethod)
    if not used:
        fates.add('unused')
    return fates


def routed_through_and_then(prog, body, wlocal, gets, copy_blk):
    """combinator form of the routing: `id2filename.get(&id).and_then(|name| export.get_mut(name))` -- the writer is the Some payload of an
    and_then whose receiver is the id->name lookup and whose closure returns export.get_mut(<its parameter>) on the captured export map"""
    at = []

    def is_at(kind, obj, b3):
        if kind == 'call' and obj.cmethod == 'and_then' and 'Option' in cnorm(obj):
            at.append((b3, obj))
            return True
        return False
    if not must_derive(body, wlocal, is_at) or len(at) != 1:
        return False
    b3, t = at[0]
    if not body.dominates(b3, copy_blk.idx):
        return False
    # receiver = the id->name lookup
    is_get = lambda k, ob, b4: k == 'call' and ob.cmethod == 'get' and any(b4 == g.idx for g in gets)
    if t.args[0].place is None or not must_derive(body, t.args[0].place[0], is_get):
        return False
    # the closure
    cl = None
    caps = None
    if t.args[1].place is not None:
        for d in body.defs.get(t.args[1].place[0], []):
            if d[2] == 'assign' and d[3].rv.r == 'aggregate' and d[3].rv.j.get('closure'):
                cl = [c for c in prog.closures_of(body) if c.defpath == d[3].rv.j.get('closure')]
                caps = d[3].rv.ops
    if not cl or len(cl) != 1:
        return False
    c = cl[0]
    gm = [b for b in c.calls() if b.term.cmethod == 'get_mut' and 'HashMap' in b.term.cdef]
    if len(gm) != 1:
        return False
    g = gm[0]
    if not must_derive(c, 0, lambda k, ob, b4: k == 'call' and b4 == g.idx):
        return False
    # key = the closure's parameter (the looked-up name), map = a captured variable that is the export parameter of linear_extract
    ko = g.term.args[1]
    if ko.place is None or not must_derive(c, ko.place[0], lambda k, ob, b4: k == 'param' and ob == 2):
        return False
    mo = origins(c, [g.term.args[0].place[0]], through_calls=False)
    if 1 not in mo.params:
        return False
    return any(op.place is not None and 2 in origins(body, [op.place[0]], through_calls=False).params for op in (caps or []))


def run(prog, rep, tier):
    le = one_body(prog, rep, 'R12', 'mla', exact='helpers::linear_extract')
    if le is None or le.kind == 'Closure':
        return
    body = le
    froms = [b for b in body.calls() if cnorm(b.term) == 'ArchiveFileBlock::from']
    if len(froms) != 1:
        rep.ob('R12.1', False, 'R12.1|%s|anchor|ArchiveFileBlock::from' % body.nkey, 'expected one ArchiveFileBlock::from call, found %d' % len(froms), body.loc())
        return
    fb = froms[0]
    # the switch on the block kind
    sws = [(bb, si) for bb, si in arm_of_enum_switch(prog, body, adt=BLOCK) if set(si['arms']) | set(si['rest']) >= {'FileStart', 'FileContent', 'EndOfFile', 'EndOfArchiveData'} and len(si['arms']) >= 3]
    main = [x for x in sws if body.dominates(fb.idx, x[0])]
    if len(main) != 1:
        rep.ob('R12.1', False, 'R12.1|%s|anchor|block-switch' % body.nkey, 'expected one 4-arm switch on the block kind after ArchiveFileBlock::from, found %d' % len(main), body.loc())
        return
    sbb, si = main[0]
    # the switched value derives from the from() call
    o = origins(body, [si['place'][0]])
    ok = fb.idx in o.calls
    rep.ob('R12.1', ok, 'R12.1|%s|switch-on-from-result' % body.nkey, 'block switch reads the value returned by ArchiveFileBlock::from' if ok else 'block switch does not read the parsed block', body.loc(sbb))
    arm = {v: enum_arm_target(si, v) for v in ('FileStart', 'FileContent', 'EndOfFile', 'EndOfArchiveData')}
    # R12.1 Ok only via the end marker
    oks = [(b.idx, i) for b in body.blocks if not b.cleanup for i, s in enumerate(b.stmts)
           if s.kind == 'assign' and s.place == (0, ()) and s.rv.r == 'aggregate' and s.rv.j.get('variant') == 'Ok']
    rep.floor('R12.1', len(oks), 1, 'Ok(()) results of linear_extract')
    for bb, i in oks:
        good = arm['EndOfArchiveData'] is not None and len({arm[v] for v in arm}) == 4 and body.edge_dominates((sbb, arm['EndOfArchiveData']), bb)
        rep.ob('R12.1', good, 'R12.1|%s|ok-only-after-end-marker' % body.nkey, 'Ok(()) edge-dominated by the EndOfArchiveData arm' if good else
               'linear_extract can return Ok(()) without having seen the EndOfArchiveData block', body.loc(bb, i))
    # other arms cannot reach an Ok result without going through the loop head again
    for v in ('FileStart', 'FileContent', 'EndOfFile'):
        r = body.reachable(arm[v], removed_blocks=[fb.idx]) if arm[v] is not None else set()
        bad = [bb for bb, _ in oks if bb in r]
        rep.ob('R12.1', not bad, 'R12.1|%s|%s-arm-continues' % (body.nkey, v), '%s arm returns to the next block read' % v if not bad else '%s arm can reach Ok(()) directly' % v, body.loc(arm[v]) if arm[v] is not None else body.loc())
    # error of from() is propagated
    br = [b for b in body.calls() if b.term.cmethod == 'branch' and b.term.args[0].place and b.term.args[0].place[0] == fb.term.dest[0]]
    okp = False
    if len(br) == 1 and br[0].term.target is not None:
        bsi = None
        nb = br[0].term.target
        bsi = switch_info(prog, body, nb)
        if bsi and bsi['kind'] == 'enum':
            brk = enum_arm_target(bsi, 'Break')
            if brk is not None:
                r = body.reachable(brk)
                fr = [b for b in body.calls() if b.idx in r and b.term.cmethod == 'from_residual' and b.term.dest == (0, ())]
                okp = fb.idx not in r and bool(fr) and not any(bb in r for bb, _ in oks)
    rep.ob('R12.1', okp, 'R12.1|%s|from-error-propagated' % body.nkey, 'Err of ArchiveFileBlock::from leaves through from_residual (no retry, no Ok)' if okp else
           'an error of ArchiveFileBlock::from is not propagated (loop continues or Ok returned)', body.loc(fb.idx))

    # R12.2 routing
    fc = arm['FileContent']
    in_fc = body.reachable(fc, removed_blocks=[fb.idx]) if fc is not None else set()
    takes = [b for b in body.calls() if b.idx in in_fc and b.term.cmethod == 'take' and b.term.ctrait == 'std::io::Read']
    copies = [b for b in body.calls() if b.idx in in_fc and cnorm(b.term) == 'std::io::copy']
    gets = [b for b in body.calls() if b.idx in in_fc and b.term.cmethod == 'get' and 'HashMap' in b.term.cdef]
    getmuts = [b for b in body.calls() if b.idx in in_fc and b.term.cmethod == 'get_mut' and 'HashMap' in b.term.cdef]
    rep.floor('R12.2.take', len(takes), 1, 'take(length) in the FileContent arm')
    rep.floor('R12.2.copy', len(copies), 2, 'io::copy calls in the FileContent arm')
    rep.floor('R12.2.get', len(gets), 1, 'id->name lookups in the FileContent arm')
    if len(takes) == 1:
        tk = takes[0]
        lop = tk.term.args[1]
        okl = lop.place is not None and payload_src(body, lop.place[0], 'FileContent', 'length')
        rep.ob('R12.2', okl, 'R12.2|%s|take-length-is-block-length' % body.nkey, 'take limit = FileContent.length of this block' if okl else 'take limit is not the length announced by this block', body.loc(tk.idx))
        so = origins(body, [tk.term.args[0].place[0]])
        oks_ = fb.term.args[0].place is not None and bool(so.locals & origins(body, [fb.term.args[0].place[0]]).locals)
        rep.ob('R12.2', oks_, 'R12.2|%s|take-on-block-source' % body.nkey, 'take is applied to the reader the block header was parsed from' if oks_ else 'take is applied to another reader than the one the header came from', body.loc(tk.idx))
        for c in copies:
            srcop = c.term.args[0]
            is_take = lambda k, ob, b3: k == 'call' and b3 == tk.idx
            okc = srcop.place is not None and must_derive(body, srcop.place[0], is_take)
            rep.ob('R12.2', okc, 'R12.2|%s|copy-source-is-take' % body.nkey, 'copy reads from take(src, length)' if okc else 'a copy in the FileContent arm does not read from the bounded take of this block', body.loc(c.idx))
    for g in gets:
        kop = g.term.args[1]
        okk = kop.place is not None and payload_src(body, kop.place[0], 'FileContent', 'id')
        rep.ob('R12.2', okk, 'R12.2|%s|lookup-key-is-block-id' % body.nkey, 'id->name lookup keyed by FileContent.id of this block' if okk else 'id->name lookup not keyed by the id of this block', body.loc(g.idx))
    routed = [c for c in copies if 'Sink' not in c.term.cargs.split(',')[-1]]
    rep.floor('R12.2.routed', len(routed), 1, 'routed copies (sink is a caller-supplied writer)')
    for c in routed:
        wop = c.term.args[1]
        gm = []

        def is_gm(kind, obj, b3, gm=gm):
            if kind == 'call' and obj.cmethod == 'get_mut' and 'HashMap' in obj.cdef:
                gm.append((b3, obj))
                return True
            if kind == 'assign' and obj.kind == 'assign' and obj.rv is not None and obj.rv.r == 'aggregate' and obj.rv.j.get('variant') == 'None':
                return True      # `None` of the "not registered" arm: carries no writer
            return False
        okw = wop.place is not None and must_derive(body, wop.place[0], is_gm) and len(gm) == 1
        msg = ''
        if okw:
            b3, gt = gm[0]
            # map is `export` (param 2), key is the looked-up name
            mo = origins(body, [gt.args[0].place[0]], through_calls=False)
            okw = 2 in mo.params
            ko = gt.args[1]
            is_get = lambda k, ob, b4: k == 'call' and ob.cmethod == 'get' and any(b4 == g.idx for g in gets)
            okw = okw and ko.place is not None and must_derive(body, ko.place[0], is_get)
            # and the copy sits on the Some edge of get_mut
            okw = okw and (body.dominates(b3, c.idx) or c.idx not in reachable_vs(body, 0, removed_blocks=[b3]))
        if not okw and wop.place is not None:
            okw = routed_through_and_then(prog, body, wop.place[0], gets, c)
        rep.ob('R12.2', bool(okw), 'R12.2|%s|sink-is-export-of-looked-up-name' % body.nkey, 'routed copy writes to export.get_mut(name looked up by id)' if okw else
               'routed copy does not write to the writer registered for the looked-up name', body.loc(c.idx))

    # R12.6 what is handed to a chosen file's writer is handed completely: io::copy / write_all, or a raw write whose count drives the loop
    from .c13 import ok_payload_locals
    cnt_w = 0
    for wb in body.calls():
        t = wb.term
        if t.ctrait != 'std::io::Write' or t.cmethod not in ('write', 'write_vectored'):
            continue
        cnt_w += 1
        pay = ok_payload_locals(body, wb)
        used = False
        for bl2 in body.blocks:
            for st2 in bl2.stmts:
                if st2.kind == 'assign' and st2.rv.r == 'binop' and any(op.place is not None and op.place[0] in pay for op in st2.rv.ops):
                    used = True
        rep.ob('R12.6', used, 'R12.6|%s|raw-write#%d|count-used' % (body.nkey, cnt_w - 1),
               'the count accepted by the destination drives the transfer' if used else
               'linear_extract hands bytes to a destination with Write::write and drops the returned count: when the destination accepts only part of the buffer the rest '
               'is lost although Ok(()) is returned', body.loc(wb.idx))
    if cnt_w == 0:
        rep.ob('R12.6', True, 'R12.6|%s|no-raw-write' % body.nkey, 'no raw Write::write in linear_extract: transfers go through io::copy / write_all', body.loc())
    # R12.8 "success means every chosen file got exactly its bytes": the outcome of each transfer into a destination decides the outcome of the call --
    # the io::Result of a copy is propagated (`?` / returned), never reduced to a flag or dropped (is_ok, ok, unwrap_or, `let _ =`)
    n8 = 0
    for cb_, c in [(body, c) for c in copies] + [(cl, b) for cl in prog.closures_of(body) for b in cl.calls() if cnorm(b.term) == 'std::io::copy']:
        if c.term.dest is None or c.term.dest[1]:
            continue
        n8 += 1
        fates = result_fate(cb_, c.term.dest[0])
        bad8 = sorted(f for f in fates if f.startswith('discarded') or f == 'unused')
        if cb_ is not body:
            rep.fn(cb_)
        rep.ob('R12.8', not bad8, 'R12.8|%s|copy#%d|copy-result-decides-the-outcome' % (body.nkey, n8 - 1),
               'the io::Result of the copy is propagated (%s)' % ', '.join(sorted(fates)) if not bad8 else
               'the io::Result of a copy into a destination is %s: when the destination fails, linear_extract goes on and can return Ok(()) although a chosen file is incomplete'
               % ', '.join(bad8), cb_.loc(c.idx))
    # R12.7 a block of a registered file is never drained: the copy into io::sink() is reachable only through a None outcome of the lookups
    # (id -> name, name -> writer); no other condition (a counter, a flag set elsewhere) can divert a registered block to the sink
    sinks = [c for c in copies if 'Sink' in c.term.cargs.split(',')[-1]]
    if fc is not None and sinks and gets:
        none_edges = []
        for sbb2, si2 in arm_of_enum_switch(prog, body, adt='std::option::Option'):
            o2 = origins(body, [si2['place'][0]])
            if any(g.idx in o2.calls for g in gets) or any(body.blocks[c2].term.cmethod in ('get_mut', 'and_then') and body.dominates(gets[0].idx, c2) for c2 in o2.calls):
                nt = enum_arm_target(si2, 'None')
                if nt is not None:
                    none_edges.append((sbb2, nt))
        r7 = reachable_ps(body, fc, removed_edges=none_edges)
        bad7 = [body.loc(c.idx) for c in sinks if c.idx in r7]
        rep.ob('R12.7', bool(none_edges) and not bad7, 'R12.7|%s|drain-only-when-not-registered' % body.nkey,
               'the block is drained to io::sink() only when its id is not registered / its name has no writer' if (none_edges and not bad7) else
               'a FileContent block can be drained to io::sink() although its id is registered and a writer exists for its name (%s): content of a chosen file is dropped '
               'while Ok(()) is returned' % (', '.join(bad7) or 'lookup outcomes not found'), body.loc(fc))
    # R12.3 exact consumption (flag-sensitive must-pass-through)
    if fc is not None and copies:
        r = reachable_ps(body, fc, removed_blocks=[c.idx for c in copies])
        bad = fb.idx in r or any(bb in r for bb, _ in oks)
        rep.ob('R12.3', not bad, 'R12.3|%s|block-always-drained' % body.nkey, 'every path through the FileContent arm executes a copy from the bounded take before the next block is parsed' if not bad else
               'a path through the FileContent arm reaches the next block read without consuming the block content', body.loc(fc))

    # R12.4 only chosen names
    fs = arm['FileStart']
    in_fs = body.reachable(fs, removed_blocks=[fb.idx]) if fs is not None else set()
    ins = [b for b in body.calls() if b.term.cmethod == 'insert' and 'HashMap' in b.term.cdef]
    rep.floor('R12.4', len(ins), 1, 'insertions into the id->name map')
    for b in ins:
        guard = None
        for bl in body.blocks:
            rr = branch_on_call(prog, body, bl.idx)
            if rr and rr[1].cmethod == 'contains_key':
                mo = origins(body, [rr[1].args[0].place[0]], through_calls=False)
                ko = rr[1].args[1]
                if 2 in mo.params and ko.place is not None and payload_src(body, ko.place[0], 'FileStart', 'filename'):
                    guard = (bl.idx, rr[2])
        gkv = None
        if guard is None:
            # `if let Some((name, _)) = export.get_key_value(&filename)`: the Some arm of a lookup of the block's name in the export map
            for sbb2, si2 in arm_of_enum_switch(prog, body, adt='std::option::Option'):
                o2 = origins(body, [si2['place'][0]])
                for c2 in o2.calls:
                    t2 = body.blocks[c2].term
                    if t2.cmethod in ('get_key_value', 'get', 'get_mut') and 'HashMap' in t2.cdef and len(t2.args) == 2 and t2.args[0].place is not None and t2.args[1].place is not None and \
                            2 in origins(body, [t2.args[0].place[0]], through_calls=False).params and payload_src(body, t2.args[1].place[0], 'FileStart', 'filename'):
                        st2 = enum_arm_target(si2, 'Some')
                        if st2 is not None and st2 != enum_arm_target(si2, 'None') and gkv is None and body.edge_dominates((sbb2, st2), b.idx) and \
                                si2['place'][0] == t2.dest[0]:
                            guard = (sbb2, st2)
                            gkv = c2
        okg = guard is not None and body.edge_dominates(guard, b.idx) and b.idx in in_fs
        okid = b.term.args[1].place is not None and payload_src(body, b.term.args[1].place[0], 'FileStart', 'id')
        vo = b.term.args[2]
        okv = vo.place is not None and must_derive(body, vo.place[0], lambda k, ob, b3: k == 'assign' and ob.rv.r == 'use' and ob.rv.ops[0].place is not None and
                                                   [p[2] for p in ob.rv.ops[0].place[1] if p[0] == 'f'] == ['filename'], extra_transparent=('clone',))
        if not okv and gkv is not None and vo.place is not None:
            # the registered name is the key the lookup returned (equal to the block's name)
            okv = must_derive(body, vo.place[0], lambda k, ob, b3: k == 'call' and b3 == gkv)
        rep.ob('R12.4', bool(okg and okid and okv), 'R12.4|%s|register-only-chosen' % body.nkey,
               'name registered under its own id only on the true edge of export.contains_key(filename)' if (okg and okid and okv) else
               'registration of a file is not guarded by export.contains_key(filename) / not keyed by its own id (guard=%s id=%s name=%s)' % (okg, okid, okv), body.loc(b.idx))
    eo = arm['EndOfFile']
    in_eo = body.reachable(eo, removed_blocks=[fb.idx]) if eo is not None else set()
    rms = [b for b in body.calls() if b.idx in in_eo and b.term.cmethod == 'remove' and 'HashMap' in b.term.cdef]
    okr = len(rms) == 1 and rms[0].term.args[1].place is not None and payload_src(body, rms[0].term.args[1].place[0], 'EndOfFile', 'id') and eo is not None and body.dominates(eo, rms[0].idx)
    rep.ob('R12.4', bool(okr), 'R12.4|%s|end-of-file-unregisters' % body.nkey, 'EndOfFile removes its own id from the map' if okr else 'EndOfFile arm does not remove the id of this block', body.loc(eo) if eo is not None else body.loc())

    # R12.5 start from the beginning
    rw = [b for b in body.calls() if b.term.cmethod == 'rewind' and b.term.ctrait == 'std::io::Seek']
    okw = False
    for b in rw:
        o2 = origins(body, [b.term.args[0].place[0]], through_calls=False)
        if any(f[-1] == 'src' for f in o2.fields) and 1 in o2.params and body.dominates(b.idx, fb.idx):
            # and its error is propagated (branch -> Break -> return)
            okw = True
    rep.ob('R12.5', okw, 'R12.5|%s|rewind-dominates-loop' % body.nkey, 'archive.src.rewind() dominates the block loop' if okw else 'the block loop is not preceded by a rewind of archive.src', body.loc())
