"""C14 -- after a flush, what was appended so far survives a cut (clause level)."""
from ..core import *

EXPLANATION = ("Static MIR rules: (R14.1) for every flush of the writer chain (Write::flush of each type implementing LayerWriter, WriterWithCount, "
               "StreamWriter, CallbackOutput, mlar::OutputTypes, ArchiveWriter::flush, mla_archive_flush) no Ok result is reachable from the entry "
               "without passing a flush call on the wrapped writer / the flush callback, and the forwarded receiver is a field of self; (R14.2) the "
               "pass-through layers (encryption, position, raw) own no byte container, so nothing is held back by them; the compression layer's "
               "InData arm flushes the brotli CompressorWriter; (R14.3) in the fail-safe decompressor every exit taken after the inner read returned 0 "
               "passes through a BrotliDecompressStream call (only a decode call can surface output the decoder already holds); (R14.4) in the unauthenticated chunk load "
               "nothing between the read of the chunk and its caching fails on a short or missing tag (no exact read on the inner reader there). (R14.5) after a decode step that did not fail, an explicit error result is reachable only across an edge on which the step produced 0 bytes: bytes already written to the caller's buffer are never replaced by an error. (R14.7) = R13.3: the chunk handed to the authenticated cipher is filled by read_to_end(take(inner, constant)); (R14.9) every refusal the authenticated chunk loader builds itself after the chunk read is AuthenticatedDecryptionWrongTag (the error the fail-safe reader maps to the end of the authenticated data); (R14.8) = R13.4: a decode step that produced 0 bytes is never returned as Ok(0) mid-stream; (R14.6) in the unauthenticated chunk loader only a read of 0 bytes means the end of the stream: any data read, even fewer bytes than a tag, is decrypted and cached. How many bytes repair "
               "recovers is runtime and not decided.")
TRUSTED = ['rustc MIR', 'brotli CompressorWriter::flush emits all pending input and flushes its inner writer', 'std::io::Write::flush of File/Stdout']
ASSUMPTIONS = ['dependency flush semantics as documented']

EXCLUDED = {'mlar::<FileWriter as std::io::Write>::flush': 'extraction sink of mlar (files are appended and closed on cache eviction), not an archive destination'}


def ok_assign_blocks(body):
    out = []
    for b in body.blocks:
        if b.cleanup:
            continue
        for i, s in enumerate(b.stmts):
            if s.kind == 'assign' and s.place == (0, ()) and s.rv.r == 'aggregate' and s.rv.j.get('variant') == 'Ok':
                out.append((b.idx, i))
            if s.kind == 'assign' and s.rv.r == 'aggregate' and s.rv.j.get('adt') == 'MLAStatus' and s.rv.j.get('variant') == 'Success':
                out.append((b.idx, i))
    return out


def run(prog, rep, tier):
    # ---------------- R14.1
    lw_types = set()
    for pkg, c in prog.crates.items():
        for i in c.impls:
            if i['trait'].endswith('layers::traits::LayerWriter') and i['self_adt']:
                lw_types.add(i['self_adt'])
    rep.floor('R14.1.types', len(lw_types), 4, 'types implementing LayerWriter')
    targets = []
    for b in prog.bodies():
        if b.kind == 'Closure' or b.name != 'flush':
            continue
        if b.nkey in EXCLUDED:
            rep.note('excluded %s: %s' % (b.nkey, EXCLUDED[b.nkey]))
            continue
        if b.impl_trait == 'std::io::Write' or (b.impl_adt == 'ArchiveWriter' and not b.impl_trait):
            targets.append(b)
    for b in prog.crates['mla-bindings-c'].bodies:
        if b.kind != 'Closure' and norm(b.defpath) == 'mla_archive_flush':
            targets.append(b)
    rep.floor('R14.1', len(targets), 10, 'flush functions of the writer chain')
    for body in targets:
        rep.fn(body)
        fw = []
        for blk in body.blocks:
            t = blk.term
            if t.kind != 'call' or blk.cleanup:
                continue
            if 'indirect' in t.callee:
                e = expr_of(body, t.callee['indirect'] if False else Op(t.callee['indirect']))
                o = origins(body, [Op(t.callee['indirect']).place[0]], through_calls=False) if Op(t.callee['indirect']).place else None
                if o and any('flush_callback' in f for f in o.fields):
                    fw.append((blk.idx, 'flush callback'))
                continue
            if t.cmethod == 'flush' and t.args and t.args[0].place is not None:
                o = origins(body, [t.args[0].place[0]], through_calls=True)
                # receiver must come from self (a field, an enum payload of self.state, or self itself) or be the process stdout
                from_self = 1 in o.params or any(body.lty(l).startswith('std::boxed::Box<mla::ArchiveWriter') for l in o.locals)
                stdout = any(body.blocks[c].term.cmethod == 'stdout' for c in o.calls)
                if from_self or stdout:
                    fw.append((blk.idx, t.cargs[:80]))
        key = 'R14.1|%s|flush-forwarded' % body.nkey
        if not fw and body.pkg == 'mla-bindings-c':
            # `with_writer(handle, |w| w.flush().map_err(..))`: the flush sits in a closure that a private helper runs on the writer behind the handle.
            # The closure returns the result of flush on its parameter; with the helper spliced in, the call that runs the closure is the forwarding call
            from ..inline import inlined_body as _inl
            good_cl = []
            for C_ in prog.closures_of(body):
                fl_ = [b_ for b_ in C_.calls() if b_.term.cmethod == 'flush' and b_.term.args and b_.term.args[0].place is not None and
                       any(p_ >= 2 for p_ in origins(C_, [b_.term.args[0].place[0]], through_calls=True).params)]
                if len(fl_) == 1 and must_derive(C_, 0, lambda k, ob, bb, f_=fl_[0]: k == 'call' and bb == f_.idx, extra_transparent=('map_err',)):
                    good_cl.append(C_.defpath)
            if good_cl:
                ib_ = _inl(prog, body)
                for blk in ib_.blocks:
                    t = blk.term
                    if t.kind == 'call' and not blk.cleanup and t.cmethod in ('call_once', 'call_mut', 'call') and t.args and t.args[0].place is not None:
                        if any(a_.j.get('closure') in good_cl for (_b, _i, a_) in origins(ib_, [t.args[0].place[0]], through_calls=False).aggs):
                            fw.append((blk.idx, 'flush of the writer in the closure run by the handle helper'))
                if fw:
                    body = ib_
        if not fw:
            rep.ob('R14.1', False, key, 'flush does not forward to the wrapped writer: data buffered below this layer is not pushed to the destination', body.loc())
            continue
        avoid = body.reachable(0, removed_blocks=[x[0] for x in fw])
        oks = [(bb, i) for bb, i in ok_assign_blocks(body) if bb in avoid]
        # Ok built after the flush call is fine only if it is dominated by a forwarding call (e.g. callback status 0)
        rep.ob('R14.1', not oks, key, 'every Ok result passes through %s' % ', '.join(sorted(set(x[1] for x in fw)))[:160] if not oks else
               'flush can return Ok without flushing the wrapped writer (%s)' % ', '.join(body.loc(bb, i) for bb, i in oks), body.loc())
        # Ok after a forwarding call requires its success: the Err edge of the forwarded result must not reach Ok
        for (fbb, what) in fw:
            t = body.blocks[fbb].term
            if t.dest is None or t.dest == (0, ()):
                continue
            d = t.dest[0]
            if body.lty(d).startswith('std::result::Result<'):
                sws = [(sbb, si) for sbb, si in arm_of_enum_switch(prog, body) if d in origins(body, [si['place'][0]]).locals and body.dominates(fbb, sbb)]
                for sbb, si in sws:
                    et = enum_arm_target(si, 'Err') or enum_arm_target(si, 'Break')
                    if et is None:
                        continue
                    r = body.reachable(et)
                    bad = [x for x in ok_assign_blocks(body) if x[0] in r]
                    rep.ob('R14.1', not bad, 'R14.1|%s|flush-error-propagated' % body.nkey, 'a failed inner flush is reported' if not bad else 'a failed inner flush can still be reported as success', body.loc(sbb))

    # ---------------- R14.2 a writer of the chain that owns a byte container drains it in flush
    BYTE_BUFS = ('Vec<u8>', 'VecDeque<u8>', 'Cursor<', 'BufWriter<', 'LineWriter<', 'BytesMut', 'Box<[u8]>')
    n_types = 0
    for fl_body in targets:
        adt = fl_body.impl_adt
        if not adt or fl_body.impl_trait != 'std::io::Write':
            continue
        a = prog.adt(adt, fl_body.pkg)
        if a is None or not a['variants']:
            continue
        n_types += 1
        bufs = [f['name'] for v in a['variants'] for f in v['fields'] if any(x in f['nty'] for x in BYTE_BUFS)]
        if not bufs:
            rep.ob('R14.2', True, 'R14.2|%s|no-buffer-field' % adt, 'no byte container field: every accepted byte is handed to the inner writer within write()', '-')
            continue
        for F in bufs:
            def drains(body):
                out = []
                for blk in body.calls():
                    t = blk.term
                    if t.cmethod in ('write_all', 'flush') and t.ctrait == 'std::io::Write':
                        for ar in t.args:
                            if ar.place is None:
                                continue
                            o = origins(body, [ar.place[0]], through_calls=True)
                            if 1 in o.params and any(F in f for f in o.fields):
                                out.append(blk.idx)
                return out
            helpers = {b.key for b in prog.crates[fl_body.pkg].bodies if b.impl_adt == adt and b.key != fl_body.key and drains(b)}
            dblocks = list(drains(fl_body))
            for blk in fl_body.calls():
                cands, exact = resolve_call(prog, fl_body, blk.term)
                if exact and len(cands) == 1 and cands[0].key in helpers:
                    dblocks.append(blk.idx)
            avoid = fl_body.reachable(0, removed_blocks=dblocks)
            oks = [(bb, i) for bb, i in ok_assign_blocks(fl_body) if bb in avoid]
            ok = bool(dblocks) and not oks
            rep.ob('R14.2', ok, 'R14.2|%s|buffer:%s|drained-by-flush' % (adt, F), 'every Ok result of flush passes through write_all(self.%s) to the inner writer' % F if ok else
                   '%s keeps accepted bytes in self.%s but its flush can return Ok without handing them to the inner writer: after a successful flush() part of the '
                   'appended data is still in memory and is lost by a cut' % (adt, F), fl_body.loc())
    rep.floor('R14.2', n_types, 6, 'writer types of the chain whose fields were inspected')
    cf = one_body(prog, rep, 'R14.2', 'mla', adt='layers::compress::CompressionLayerWriter', name='flush', trait='std::io::Write')
    if cf is not None:
        sws = arm_of_enum_switch(prog, cf, adt='layers::compress::CompressionLayerWriterState')
        ok = len(sws) == 1
        if ok:
            sbb, si = sws[0]
            ind = enum_arm_target(si, 'InData')
            r = cf.reachable(ind) if ind is not None else set()
            fl = [b for b in cf.calls() if b.idx in r and cf.edge_dominates((sbb, ind), b.idx) and b.term.cmethod == 'flush' and 'brotli::CompressorWriter' in b.term.cargs]
            ok = len(fl) == 1
            if ok:
                o = origins(cf, [fl[0].term.args[0].place[0]], through_calls=True)
                ok = any('state' in f for f in o.fields)
        rep.ob('R14.2', ok, 'R14.2|%s|InData-flushes-compressor' % cf.nkey, 'InData arm flushes the brotli CompressorWriter held in self.state' if ok else 'InData arm does not flush the brotli compressor', cf.loc())

    # ---------------- R14.4 a chunk that was read is kept even when the stream stops right after it
    # (the writer emits the tag of a full chunk lazily: after a flush on a chunk boundary the destination ends with the chunk and no tag)
    lu = one_body(prog, rep, 'R14.4', 'mla', exact='layers::encrypt::EncryptionLayerInternal::load_in_cache_unauthenticated')
    if lu is not None:
        rte = [b for b in lu.calls() if b.term.cmethod == 'read_to_end' and b.term.ctrait == 'std::io::Read']
        stores = [b.idx for b in lu.blocks if not b.cleanup for st in b.stmts if st.kind == 'assign' and place_fields(st.place)[-1:] == ['chunk_cache'] and st.rv.r == 'use']
        if len(rte) != 1 or not stores:
            rep.ob('R14.4', False, 'R14.4|%s|anchors' % lu.nkey, 'expected one chunk read_to_end and a store into chunk_cache (found %d / %d)' % (len(rte), len(stores)), lu.loc())
        else:
            EXACT = {'read_exact', 'read_u8', 'read_u16', 'read_u32', 'read_u64', 'read_u128', 'deserialize_from'}
            between = lu.reachable(rte[0].term.target, removed_blocks=stores) if rte[0].term.target is not None else set()
            bad = [b for b in lu.calls() if b.idx in between and b.term.cmethod in EXACT and b.term.ctrait in ('std::io::Read', 'byteorder::ReadBytesExt', '')
                   and any(a.place is not None and any(f[-1] == 'inner' for f in origins(lu, [a.place[0]], through_calls=False).fields) for a in b.term.args)]
            rep.ob('R14.4', not bad, 'R14.4|%s|tag-skip-tolerates-missing-tag' % lu.nkey,
                   'between reading a chunk and caching it, nothing fails on a short / missing tag (the tag is skipped with a tolerant copy)' if not bad else
                   'after the chunk data was read, %s on the inner reader fails with UnexpectedEof when fewer than %s bytes follow: the chunk already read is dropped, so data '
                   'flushed on a chunk boundary is not recovered' % (bad[0].term.cmethod, 'TAG_LENGTH'), lu.loc(bad[0].idx) if bad else lu.loc())

    # ---------------- R14.6 "however little was appended": in the unauthenticated loader only a read of 0 bytes means the end of the stream -- any chunk data
    # that was read (even fewer bytes than a tag: the tag of the current chunk is written lazily, after a flush the stream may end with a few data bytes) is
    # decrypted and cached
    if lu is not None and len(rte) == 1 and stores and rte[0].term.target is not None:
        from .c13 import ok_payload_locals
        r1 = rte[0]
        pay = ok_payload_locals(lu, r1) | ({r1.term.dest[0]} if r1.term.dest else set())
        zero_edges = []
        for bl in lu.blocks:
            si = switch_info(prog, lu, bl.idx)
            if not si or si['kind'] != 'bool':
                continue
            e = expr_of(lu, si['cond'])
            if e[0] == 'binop' and e[1] in ('Eq', 'Ne') and e[3][0] == 'const' and e[3][1] == 0 and e[2][0] == 'place' and \
                    (e[2][1][0] in pay or must_derive(lu, e[2][1][0], lambda k_, ob_, bb_: k_ == 'call' and bb_ == r1.idx, extra_transparent=('branch',))):
                zero_edges.append((bl.idx, si['true'] if e[1] == 'Eq' else si['false']))
        r = reachable_vs(lu, r1.term.target, removed_blocks=stores, removed_edges=zero_edges, env0={r1.term.dest[0]: 'Ok'} if r1.term.dest and not r1.term.dest[1] else None)
        early = [lu.loc(bl.idx) for bl in lu.blocks if bl.idx in r and not bl.cleanup for st in bl.stmts
                 if st.kind == 'assign' and st.place == (0, ()) and st.rv.r == 'aggregate' and st.rv.j.get('variant') == 'Ok']
        rep.ob('R14.6', not early, 'R14.6|%s|only-zero-bytes-ends-the-stream' % lu.nkey, 'after the chunk read, Ok is returned without caching only when 0 bytes were read' if not early else
               'the unauthenticated loader reports the end of the stream (%s) although chunk data was read (count not 0): the last bytes pushed out by a flush are dropped' % ', '.join(early), lu.loc(r1.idx))

    # ---------------- R14.7 "in authenticated mode at least everything in completed encryption chunks": a completed chunk is read completely before its tag
    # is checked, however the source splits its reads (= R13.3 / R03.7)
    from .c13 import chunk_loads_complete
    chunk_loads_complete(prog, rep, 'R14.7')

    # ---------------- R14.9 "at least everything in completed chunks": whatever is wrong with the bytes *after* the last completed chunk (a tag that does not
    # verify, a chunk cut inside its tag) is reported by the authenticated loader as AuthenticatedDecryptionWrongTag -- the one error the fail-safe reader
    # turns into "end of the authenticated data" (Ok(0)), which lets the layers above drain what they already decoded. Any other error of its own making
    # is propagated as a hard failure and the decoded bytes of completed chunks are dropped
    lc = one_body(prog, rep, 'R14.9', 'mla', exact='layers::encrypt::EncryptionLayerInternal::load_in_cache')
    if lc is not None:
        rds = [b for b in lc.calls() if b.term.ctrait == 'std::io::Read' and b.term.cmethod in ('read_to_end', 'read', 'read_exact')]
        rep.floor('R14.9', len(rds), 1, 'chunk reads in the authenticated loader')
        own = []
        for bl in lc.blocks:
            if bl.cleanup or not any(lc.dominates(r.idx, bl.idx) for r in rds):
                continue
            for i, st in enumerate(bl.stmts):
                if st.kind == 'assign' and st.place == (0, ()) and st.rv.r == 'aggregate' and st.rv.j.get('variant') == 'Err' and 'Result' in str(st.rv.j.get('adt')):
                    op = st.rv.ops[0] if st.rv.ops else None
                    names = set()
                    if op is not None and op.place is not None:
                        o = origins(lc, [op.place[0]])
                        names |= {a.j.get('variant') for (_b, _i, a) in o.aggs if str(a.j.get('adt', '')).endswith('errors::Error')}
                        names |= {'io::Error::' + lc.blocks[c].term.cmethod for c in o.calls if 'std::io::Error' in cnorm(lc.blocks[c].term)}
                    elif op is not None and op.kind == 'const':
                        names.add(str(op.k.get('txt') or op.k.get('def') or 'const').rsplit('::', 1)[-1])
                    own.append((bl.idx, i, names))
        rep.floor('R14.9.refusals', len(own), 1, 'refusals built by the authenticated loader after the chunk read')
        for k, (bb, i, names) in enumerate(own):
            ok = names == {'AuthenticatedDecryptionWrongTag'}
            rep.ob('R14.9', ok, 'R14.9|%s|refusal#%d|is-wrong-tag' % (lc.nkey, k), 'the chunk is refused with AuthenticatedDecryptionWrongTag' if ok else
                   'the authenticated loader refuses the bytes after the last completed chunk with %s, not AuthenticatedDecryptionWrongTag: the fail-safe reader '
                   'propagates it as a failure instead of ending the authenticated data, and what the layers above decoded from completed chunks is lost' % sorted(names), lc.loc(bb, i))

    # ---------------- R14.8 repair reads on until the source ends: a step of the fail-safe decompressor that produced nothing is never reported as Ok(0)
    # mid-stream, which every caller takes for the end of the data (= R13.4 / R02.8)
    from .c13 import decoder_zero_count_rule
    decoder_zero_count_rule(prog, rep, 'R14.8')

    # ---------------- R14.3 decoder drained before end of input is reported
    rd = one_body(prog, rep, 'R14.3', 'mla', adt='layers::compress::CompressionLayerFailSafeReader', name='read', trait='std::io::Read')
    if rd is not None:
        dec = [b for b in rd.calls() if b.term.cmethod == 'BrotliDecompressStream' or cnorm(b.term).endswith('BrotliDecompressStream')]
        inner_reads = [b for b in rd.calls() if b.term.cmethod == 'read' and b.term.ctrait == 'std::io::Read' and cnorm(b.term) != norm(rd.defpath)
                       and 'CompressionLayerFailSafeReader' not in b.term.callee.get('self_ty', '')]
        key = 'R14.3|%s|eof-before-decode' % rd.nkey
        if len(dec) != 1 or len(inner_reads) != 1:
            rep.ob('R14.3', False, key, 'anchors: decode calls=%d inner reads=%d' % (len(dec), len(inner_reads)), rd.loc())
        else:
            ir = inner_reads[0]
            from .c13 import ok_payload_locals
            pay = ok_payload_locals(rd, ir)
            # edges taken when the inner read returned Ok(0): the tested value is the Ok payload of that call (must-derive, not may-depend)
            zero_edges = []
            for bl in rd.blocks:
                si = switch_info(prog, rd, bl.idx)
                if not si or si['kind'] != 'bool' or not rd.dominates(ir.idx, bl.idx):
                    continue
                e = expr_of(rd, si['cond'])
                if e[0] == 'binop' and e[1] in ('Eq', 'Ne') and ((e[3][0] == 'const' and e[3][1] == 0) or (e[2][0] == 'const' and e[2][1] == 0)):
                    x = e[2] if e[3][0] == 'const' else e[3]
                    if x[0] == 'place' and (x[1][0] == ir.term.dest[0] or x[1][0] in pay):
                        zero_edges.append((bl.idx, si['true'] if e[1] == 'Eq' else si['false']))
            if not zero_edges:
                rep.ob('R14.3', False, key, 'no test of the inner read count against 0 found', rd.loc(ir.idx))
            else:
                bad = []
                for (sb, tgt) in zero_edges:
                    # exits that skip the decoder are tolerated only as Ok(0) on the edge where nothing was produced for the current
                    # stream yet (a counter kept in the reader state compared with 0): a fresh decoder holds no pending output
                    fresh_edges = []
                    for bl in rd.blocks:
                        si2 = switch_info(prog, rd, bl.idx)
                        if not si2 or si2['kind'] != 'bool':
                            continue
                        e2 = expr_of(rd, si2['cond'])
                        if e2[0] == 'binop' and e2[1] in ('Gt', 'Eq', 'Ne') and e2[3][0] == 'const' and e2[3][1] == 0 and e2[2][0] == 'place':
                            o2 = origins(rd, [e2[2][1][0]], through_calls=False)
                            if any(f[-1] == 'uncompressed_read' for f in o2.fields):
                                fresh_edges.append((bl.idx, si2['true'] if e2[1] == 'Eq' else si2['false']))
                    removed_edges = set(fresh_edges)
                    r = rd.reachable(tgt, removed_blocks=[dec[0].idx], removed_edges=removed_edges)
                    rets = [x for x in rd.return_blocks() if x in r]
                    if rets:
                        bad.append(rd.loc(sb))
                    # on the tolerated edges the result must be Ok(0) / Err, never a positive count
                    for (fb, ft) in fresh_edges:
                        if fb in rd.reachable(tgt, removed_blocks=[dec[0].idx]):
                            rr = rd.reachable(ft, removed_blocks=[dec[0].idx])
                            for x in rr:
                                for s_ in rd.blocks[x].stmts:
                                    if s_.kind == 'assign' and s_.place == (0, ()) and s_.rv.r == 'aggregate' and s_.rv.j.get('variant') == 'Ok' and const_int_of(rd, s_.rv.ops[0]) != 0 and rd.edge_dominates((fb, ft), x):
                                        bad.append(rd.loc(x))
                rep.ob('R14.3', not bad, key, 'after the inner source is exhausted the decoder is still called before anything is returned' if not bad else
                       'when the inner source returns 0 bytes the reader returns (UnexpectedEof / Ok(0)) without calling the decoder: output the brotli decoder already holds is discarded, so data appended before a flush cannot be recovered',
                       rd.loc(zero_edges[0][0]))

    # ---------------- R14.5 bytes a decode step produced are never replaced by an error
    r14_5(prog, rep)


def r14_5(prog, rep, RULE='R14.5'):
    """In the fail-safe decompressor, after a BrotliDecompressStream call that did not report ResultFailure, an explicit error result is reachable only across
    an edge on which the step's output count is 0. (The bytes are already in the caller's buffer: turning them into an error loses the tail that a flush pushed
    out.) `?` on integer conversions (try_from) is not an explicit error result."""
    rd = one_body(prog, rep, RULE, 'mla', adt='layers::compress::CompressionLayerFailSafeReader', name='read', trait='std::io::Read')
    if rd is None:
        return
    from ..inline import inlined_body
    rd = inlined_body(prog, rd)      # integer conversions may go through a private helper
    dec = [b for b in rd.calls() if cnorm(b.term).endswith('BrotliDecompressStream')]
    key = RULE + '|%s|produced-bytes-not-dropped' % rd.nkey
    if len(dec) != 1 or dec[0].term.target is None:
        rep.ob(RULE, False, key, 'anchors: decode calls=%d' % len(dec), rd.loc())
        return
    d = dec[0]
    # the output count: the `&mut usize` handed over right before the output buffer (5th argument of BrotliDecompressStream)
    outs = set()
    if len(d.term.args) >= 5 and d.term.args[4].place is not None:
        outs = {l for l in origins(rd, [d.term.args[4].place[0]], through_calls=False).locals if rd.lty(l) == 'usize'}
    if not outs:
        rep.ob(RULE, False, key, 'anchor: output-count argument of the decode call not found', rd.loc(d.idx))
        return
    cut = []
    for bl in rd.blocks:
        si = switch_info(prog, rd, bl.idx)
        if not si or si['kind'] != 'bool':
            continue
        e = expr_of(rd, si['cond'])
        if e[0] == 'binop' and e[1] in ('Eq', 'Ne', 'Gt') and e[3][0] == 'const' and e[3][1] == 0 and e[2][0] == 'place' and \
                origins(rd, [e[2][1][0]], through_calls=False).locals & outs:
            cut.append((bl.idx, si['true'] if e[1] == 'Eq' else si['false']))
    for sbb, si in arm_of_enum_switch(prog, rd):
        if 'BrotliResult' in (si['adt'] or ''):
            t = enum_arm_target(si, 'ResultFailure')
            if t is not None:
                cut.append((sbb, t))
            if si.get('otherwise') is not None and t is None:
                cut.append((sbb, si['otherwise']))
    r = reachable_vs(rd, d.term.target, removed_blocks=[d.idx], removed_edges=cut)
    bad = []
    for x in r:
        bl = rd.blocks[x]
        if bl.cleanup:
            continue
        for i, s in enumerate(bl.stmts):
            if s.kind == 'assign' and s.rv.r == 'aggregate' and s.rv.j.get('variant') == 'Err' and rd.lty(s.place[0]).startswith('std::result::Result<usize'):
                bad.append(rd.loc(x, i))
        t = bl.term
        if t.kind == 'call' and t.cmethod == 'from_residual' and t.args and t.args[0].place is not None:
            o = origins(rd, [t.args[0].place[0]])
            if not any(rd.blocks[c].term.cmethod in ('try_from', 'try_into', 'checked_add', 'checked_sub', 'checked_mul', 'ok_or', 'ok_or_else') for c in o.calls):
                bad.append(rd.loc(x))
    rep.ob(RULE, not bad, key, 'after a decode step, an error result is reachable only where the step produced 0 bytes (or the decoder reported failure)' if not bad else
           'an error is returned after a decode step that may have written bytes into the caller\'s buffer (%s): the bytes the decoder still held at the end of the '
           'input -- what a flush pushed out -- are dropped' % ', '.join(bad), rd.loc(d.idx))
