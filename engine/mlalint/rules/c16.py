"""C16 -- the command-line extractor never writes outside the output directory (clause level)."""
import json, os
from ..core import *

EXPLANATION = ("Static MIR rules on crate mlar: (R16.1) in get_extracted_path the ParentDir arm of the switch on Component is a separate arm "
               "from which no Some(_) result is reachable, every mutation of the destination path is PathBuf::push of the payload of "
               "Component::Normal, the path starts as output_dir.to_path_buf() and the Some result is that path; (R16.2) in create_file every "
               "File::create / OpenOptions::open is edge-dominated by the true outcome of starts_with(canonicalize(parent(p)), output_dir) with p "
               "the result of get_extracted_path(output_dir, fname); (R16.3) extract hands create_file a canonicalized directory, every FileWriter "
               "path comes from create_file's result, FileWriter::write opens only self.path; (R16.4) census of every filesystem-mutating call of "
               "mlar against tables/fs_sinks.json: a sink whose path may derive from an archive member name outside create_file is a violation. "
               "(R16.5) the destination of create_file is created empty (File::create / create_new / OpenOptions with create+truncate); (R16.6) FileWriter::write reopens an evicted destination in append mode, so later blocks of a member continue where the earlier ones stopped. Symlink races and extracted content are runtime and not decided.")
TRUSTED = ['rustc MIR', 'std::path::Path::{components,starts_with,parent}', 'std::fs::canonicalize']
ASSUMPTIONS = ['no concurrent modification of the output directory (symlink race) during extraction']

FS_SINKS = {
    'std::fs::File::create', 'std::fs::File::create_new', 'std::fs::OpenOptions::open', 'std::fs::write', 'std::fs::create_dir',
    'std::fs::create_dir_all', 'std::fs::rename', 'std::fs::copy', 'std::fs::remove_file', 'std::fs::remove_dir',
    'std::fs::remove_dir_all', 'std::fs::hard_link', 'std::os::unix::fs::symlink', 'std::fs::set_permissions', 'std::fs::soft_link',
    'std::fs::File::options', 'std::fs::DirBuilder::create', 'std::fs::File::set_len',
}
MEMBER_SOURCES_CALLS = {'list_files', 'get_file'}


def normal_payload(body, local):
    def is_src(kind, obj, bb):
        if kind == 'assign' and obj.rv.r == 'use' and obj.rv.ops[0].place is not None:
            pr = obj.rv.ops[0].place[1]
            downs = [p[2] for p in pr if p[0] == 'down']
            if downs == ['Normal']:
                return True
        return False
    return must_derive(body, local, is_src)


def r16_1_iterator_form(prog, rep, gp):
    """get_extracted_path written with iterator adapters: `if components.clone().any(|c| c == ParentDir) { return None }` followed by
    `dst.extend(components.filter_map(|c| match c { Normal(p) => Some(p), .. => None }))`. Returns False when the function does not have that shape
    (the caller then reports the missing switch)."""
    clos = prog.closures_of(gp)
    anys = [b for b in gp.calls() if b.term.cmethod == 'any' and b.term.ctrait == 'std::iter::Iterator']
    exts = [b for b in gp.calls() if b.term.cmethod == 'extend' and 'PathBuf' in (cnorm(b.term) + b.term.callee.get('self_ty', '') + b.term.cargs)]
    if len(anys) != 1 or len(exts) != 1:
        return False
    an, ex = anys[0], exts[0]
    key = 'R16.1|%s|' % gp.nkey

    def closure_of(op):
        if op.place is None:
            return None
        for d in gp.defs.get(op.place[0], []):
            if d[2] == 'assign' and d[3].rv.r == 'aggregate' and d[3].rv.j.get('closure'):
                c = [x for x in clos if x.defpath == d[3].rv.j.get('closure')]
                return c[0] if c else None
        return None

    def from_name_components(local):
        o = origins(gp, [local])
        return 2 in o.params and any(gp.blocks[c].term.cmethod == 'components' for c in o.calls)
    # (1) the `any` test looks for ParentDir among the components of file_name, and its true edge reaches no Some(_)
    ca = closure_of(an.term.args[1])
    okp = ca is not None and an.term.args[0].place is not None and from_name_components(an.term.args[0].place[0])
    if okp:
        rep.fn(ca)
        cmp_pd = False
        for b in ca.calls():
            if b.term.cmethod in ('eq', 'ne') and 'Component' in b.term.cargs:
                for a in b.term.args:
                    o2 = origins(ca, [a.place[0]], through_calls=False) if a.place is not None else None
                    for bl2 in ca.blocks:
                        for st2 in bl2.stmts:
                            if st2.kind == 'assign' and o2 is not None and st2.place[0] in o2.locals and st2.rv.r == 'use' and st2.rv.ops[0].kind == 'const' and \
                                    (st2.rv.ops[0].k or {}).get('promoted_variant', '').endswith('Component::ParentDir'):
                                cmp_pd = b.term.cmethod
        for sbb, si in arm_of_enum_switch(prog, ca, adt='std::path::Component'):
            if enum_arm_target(si, 'ParentDir') is not None and enum_arm_target(si, 'ParentDir') != si['otherwise']:
                cmp_pd = 'match'
        okp = cmp_pd in ('eq', 'match')
    somes = [(b.idx, i) for b in gp.blocks if not b.cleanup for i, st in enumerate(b.stmts)
             if st.kind == 'assign' and st.place == (0, ()) and st.rv.r == 'aggregate' and st.rv.j.get('variant') == 'Some']
    rep.floor('R16.1', len(somes), 1, 'Some(_) results of get_extracted_path')
    guard = None
    for bl in gp.blocks:
        r = branch_on_call(prog, gp, bl.idx)
        if r and r[0] == an.idx or (r and r[1] is an.term):
            guard = (bl.idx, r[2], r[3])
    okg = guard is not None and not any(bb in gp.reachable(guard[1]) for bb, _ in somes) and all(gp.edge_dominates((guard[0], guard[2]), bb) for bb, _ in somes)
    rep.ob('R16.1', bool(okp and okg), key + 'parentdir-refuses', "a '..' among the components of the name returns None before any path is built" if (okp and okg) else
           "a name containing '..' can still yield Some(path) (any(ParentDir) test missing, not on the name's components, or not leading to None)", gp.loc(an.idx))
    rep.ob('R16.1', okp, key + 'iterates-name-components', 'the test and the path construction iterate Path::new(file_name).components()' if okp else 'the ParentDir test does not iterate the components of file_name', gp.loc(an.idx))
    # (2) the destination is only extended with Normal payloads, over the components of the same name
    cf_ = None
    eo = origins(gp, [ex.term.args[1].place[0]]) if ex.term.args[1].place is not None else None
    fm = [gp.blocks[c] for c in (eo.calls if eo else []) if gp.blocks[c].term.cmethod == 'filter_map' and gp.blocks[c].term.ctrait == 'std::iter::Iterator']
    okx = len(fm) == 1 and eo is not None and 2 in eo.params and any(gp.blocks[c].term.cmethod == 'components' for c in eo.calls) and \
        not [gp.blocks[c].term.cmethod for c in eo.calls if gp.blocks[c].term.cmethod in ('chain', 'flat_map', 'map', 'rev', 'cycle', 'once', 'repeat')]
    if okx:
        cf_ = closure_of(fm[0].term.args[1])
        okx = cf_ is not None
    if okx:
        rep.fn(cf_)
        for bl in cf_.blocks:
            for st in bl.stmts:
                if st.kind == 'assign' and st.rv.r == 'aggregate' and st.rv.j.get('variant') == 'Some' and 'Option' in (st.rv.j.get('adt') or ''):
                    op = st.rv.ops[0]
                    if op.place is None or not normal_payload(cf_, op.place[0]):
                        okx = False
    rep.ob('R16.1', bool(okx), key + 'path-mutation|extend', 'destination path extended only with the payloads of Normal components (filter_map closure)' if okx else
           'destination path extended with something else than Normal components of the name', gp.loc(ex.idx))
    # (3) base path and other mutations
    okd = True
    for bb, i in somes:
        st = gp.blocks[bb].stmts[i]
        op = st.rv.ops[0]
        owners = [l for l in origins(gp, [op.place[0]], through_calls=False).locals if gp.lty(l) == 'std::path::PathBuf'] if op.place else []
        okd = okd and len(set(owners)) >= 1
        for l in set(owners):
            for (b2, si2, kind, obj) in gp.defs.get(l, []):
                if kind == 'call':
                    if not (obj.cmethod == 'to_path_buf' and obj.args[0].place is not None and must_derive(gp, obj.args[0].place[0], lambda k, ob, b3: k == 'param' and ob == 1)):
                        okd = False
                elif kind == 'assign' and obj.rv.r == 'use' and obj.rv.ops[0].place is not None and obj.rv.ops[0].place[0] in owners:
                    continue
                else:
                    okd = False
            for (b2, t, ai) in mutarg_defs(gp).get(l, []):
                if b2 != ex.idx:
                    okd = False
    rep.ob('R16.1', okd, key + 'path-base-is-output_dir', 'returned path = output_dir.to_path_buf() extended once' if okd else 'returned path is not built from output_dir (or is modified elsewhere)', gp.loc())
    return True


def created_empty(cf, c):
    """(fresh, how): does the file-opening call `c` of body `cf` yield an empty file -- File::create, create_new, or OpenOptions with create_new, or create + truncate
    and no append. The builder is followed through statement-by-statement setters and through chained ones."""
    cn5 = cnorm(c.term)
    fresh = True
    why5 = cn5.rsplit('::', 1)[-1]
    if cn5 == 'std::fs::OpenOptions::open':
        oo = origins(cf, [c.term.args[0].place[0]]) if c.term.args[0].place is not None else None
        owners = [l for l in (oo.locals if oo else []) if 'OpenOptions' in cf.lty(l) and not cf.lty(l).startswith('&')]
        setters = {}
        for l in owners:
            for ent in mutarg_defs(cf).get(l, []):
                t5 = ent[1]
                if t5.cmethod in ('truncate', 'create', 'create_new', 'append', 'write') and len(t5.args) > 1:
                    setters[t5.cmethod] = const_eval(cf, t5.args[1])
        for x in (oo.calls if oo else []):
            t5 = cf.blocks[x].term
            if t5.cmethod in ('truncate', 'create', 'create_new', 'append', 'write') and len(t5.args) > 1:
                setters[t5.cmethod] = const_eval(cf, t5.args[1])
        # builder chain `options.write(true).create(true).truncate(true)`: each setter receives the reference returned by the previous one
        for b5 in cf.calls():
            t5 = b5.term
            if t5.cmethod in ('truncate', 'create', 'create_new', 'append', 'write') and 'OpenOptions' in cnorm(t5) and len(t5.args) > 1 and t5.args[0].place is not None:
                if set(origins(cf, [t5.args[0].place[0]]).locals) & set(owners):
                    setters[t5.cmethod] = const_eval(cf, t5.args[1])
        fresh = (setters.get('create_new') == 1) or (setters.get('create') == 1 and setters.get('truncate') == 1 and setters.get('append') != 1)
        why5 = 'OpenOptions %s' % sorted(setters.items())
    return fresh, why5


def run(prog, rep, tier):
    mlar = prog.crates['mlar']
    # ---------------- R16.1 component filter
    gp = one_body(prog, rep, 'R16.1', 'mlar', exact='get_extracted_path')
    if gp is not None and gp.kind != 'Closure':
        sws = arm_of_enum_switch(prog, gp, adt='std::path::Component')
        if not sws and r16_1_iterator_form(prog, rep, gp):
            pass
        elif len(sws) != 1:
            rep.ob('R16.1', False, 'R16.1|%s|component-switch' % gp.nkey, 'expected one switch on std::path::Component, found %d' % len(sws), gp.loc())
        else:
            sbb, si = sws[0]
            pd = enum_arm_target(si, 'ParentDir')
            nm = enum_arm_target(si, 'Normal')
            others = {enum_arm_target(si, v) for v in ('Prefix', 'RootDir', 'CurDir', 'Normal')}
            somes = [(b.idx, i) for b in gp.blocks if not b.cleanup for i, s in enumerate(b.stmts)
                     if s.kind == 'assign' and s.place == (0, ()) and s.rv.r == 'aggregate' and s.rv.j.get('variant') == 'Some']
            rep.floor('R16.1', len(somes), 1, 'Some(_) results of get_extracted_path')
            ok = pd is not None and pd not in others
            r = gp.reachable(pd) if ok else set()
            bad = [bb for bb, _ in somes if bb in r]
            loopback = sbb in r
            rep.ob('R16.1', ok and not bad and not loopback, 'R16.1|%s|parentdir-refuses' % gp.nkey,
                   "'..' component leaves through a separate arm that reaches no Some(_) result and does not continue the loop" if (ok and not bad and not loopback) else
                   "a name containing '..' can still yield Some(path) (ParentDir arm missing, merged, or continuing)", gp.loc(sbb))
            # the switched value is an item of components() of the file_name parameter
            o = origins(gp, [si['place'][0]])
            okc = 2 in o.params and any(gp.blocks[c].term.cmethod == 'components' for c in o.calls)
            rep.ob('R16.1', okc, 'R16.1|%s|iterates-name-components' % gp.nkey, 'switch iterates Path::new(file_name).components()' if okc else 'component switch does not iterate the components of file_name', gp.loc(sbb))
            # destination path: starts as output_dir.to_path_buf(), only pushed Normal payloads, returned as is
            for bb, i in somes:
                s = gp.blocks[bb].stmts[i]
                op = s.rv.ops[0]
                owners = [l for l in origins(gp, [op.place[0]], through_calls=False).locals if gp.lty(l) == 'std::path::PathBuf'] if op.place else []
                okd = len(set(owners)) >= 1
                for l in set(owners):
                    for (b2, si2, kind, obj) in gp.defs.get(l, []):
                        if kind == 'call':
                            if not (obj.cmethod == 'to_path_buf' and obj.args[0].place is not None and must_derive(gp, obj.args[0].place[0], lambda k, ob, b3: k == 'param' and ob == 1)):
                                okd = False
                        elif kind == 'assign' and obj.rv.r == 'use' and obj.rv.ops[0].place is not None and obj.rv.ops[0].place[0] in owners:
                            continue
                        else:
                            okd = False
                    for (b2, t, ai) in mutarg_defs(gp).get(l, []):
                        good = cnorm(t) == 'std::path::PathBuf::push' and ai == 0 and t.args[1].place is not None and normal_payload(gp, t.args[1].place[0]) \
                            and nm is not None and gp.edge_dominates((sbb, nm), b2)
                        rep.ob('R16.1', good, 'R16.1|%s|path-mutation|%s' % (gp.nkey, t.cmethod),
                               'destination path extended only by push(Normal payload) under the Normal arm' if good else
                               'destination path modified by %s with something else than a Normal component' % t.cargs, gp.loc(b2))
                rep.ob('R16.1', okd, 'R16.1|%s|path-base-is-output_dir' % gp.nkey, 'returned path = output_dir.to_path_buf() + pushes' if okd else 'returned path is not built from output_dir', gp.loc(bb, i))

    # ---------------- R16.2 canonical prefix before creation
    cf = one_body(prog, rep, 'R16.2', 'mlar', exact='create_file')
    if cf is not None and cf.kind == 'Closure':
        cf = None
    if cf is not None:
        from ..inline import inlined_body
        cf_plain = cf
        cf = inlined_body(prog, cf, skip=('get_extracted_path',))     # the creation (with its error message) may be a private helper
        creates = [b for b in cf.calls() if cnorm(b.term) in ('std::fs::File::create', 'std::fs::File::create_new', 'std::fs::OpenOptions::open', 'std::fs::write')]
        rep.floor('R16.2', len(creates), 1, 'file creations in create_file')
        gps = [b for b in cf.calls() if cnorm(b.term) == 'get_extracted_path']
        guard = None
        for bl in cf.blocks:
            r = branch_on_call(prog, cf, bl.idx)
            if r and cnorm(r[1]) == 'std::path::Path::starts_with':
                guard = (bl.idx, r[2], r[0], r[1])
        for c in creates:
            key = 'R16.2|%s|%s|prefix-checked' % (cf.nkey, c.term.cmethod)
            if guard is None or len(gps) != 1:
                rep.ob('R16.2', False, key, 'no starts_with test / get_extracted_path call found in create_file', cf.loc(c.idx))
                continue
            gpb = gps[0]
            is_gp = lambda k, ob, b3: k == 'call' and b3 == gpb.idx
            st = guard[3]
            # p = get_extracted_path(output_dir, fname)
            pop = c.term.args[-1] if cnorm(c.term) == 'std::fs::OpenOptions::open' else c.term.args[0]   # open(&self, path)
            okp = pop.place is not None and must_derive(cf, pop.place[0], is_gp)
            # get_extracted_path receives the two parameters
            a0, a1 = gpb.term.args[0], gpb.term.args[1]
            okargs = a0.place is not None and must_derive(cf, a0.place[0], lambda k, ob, b3: k == 'param' and ob == 1) and \
                a1.place is not None and must_derive(cf, a1.place[0], lambda k, ob, b3: k == 'param' and ob == 2)
            # canon = canonicalize(parent(p))
            can = []

            def is_can(kind, obj, b3, can=can):
                if kind == 'call' and cnorm(obj) == 'std::fs::canonicalize':
                    can.append((b3, obj))
                    return True
                return False
            okc = st.args[0].place is not None and must_derive(cf, st.args[0].place[0], is_can) and len(can) == 1
            okpar = False
            if okc:
                par = []

                def is_par(kind, obj, b3, par=par):
                    if kind == 'call' and cnorm(obj) == 'std::path::Path::parent':
                        par.append((b3, obj))
                        return True
                    return False
                ca = can[0][1].args[0]
                okpar = ca.place is not None and must_derive(cf, ca.place[0], is_par) and len(par) == 1 and \
                    par[0][1].args[0].place is not None and must_derive(cf, par[0][1].args[0].place[0], is_gp)
            okdir = st.args[1].place is not None and must_derive(cf, st.args[1].place[0], lambda k, ob, b3: k == 'param' and ob == 1)
            okdom = cf.edge_dominates((guard[0], guard[1]), c.idx)
            allok = okp and okargs and okc and okpar and okdir and okdom
            rep.ob('R16.2', bool(allok), key,
                   'creation of p edge-dominated by starts_with(canonicalize(parent(p)), output_dir), p = get_extracted_path(output_dir, fname)' if allok else
                   'file creation not protected by the canonical-prefix test (path-from-filter=%s args=%s canon=%s parent-of-path=%s dir=%s dominated=%s)' % (okp, okargs, okc, okpar, okdir, okdom),
                   cf.loc(c.idx))
        # directories are only created for the parent of the filtered path
        for b in cf.calls():
            if cnorm(b.term) in ('std::fs::create_dir_all', 'std::fs::create_dir') and gps:
                gpb = gps[0]
                ok = b.term.args[0].place is not None and must_derive(cf, b.term.args[0].place[0], lambda k, ob, b3: k == 'call' and (b3 == gpb.idx), extra_transparent=('parent',))
                rep.ob('R16.2', ok, 'R16.2|%s|create_dir_all|parent-of-filtered-path' % cf.nkey, 'directories created only for parent(get_extracted_path(..))' if ok else 'create_dir_all on a path that is not the parent of the filtered path', cf.loc(b.idx))

    # ---------------- R16.5 "extracted ... with exactly their content": the destination is created empty (File::create, create_new, or OpenOptions with
    # create + truncate / create_new): a file that already exists in the output directory does not keep its old bytes
    if cf is not None:
        for c in [b for b in cf.calls() if cnorm(b.term) in ('std::fs::File::create', 'std::fs::File::create_new', 'std::fs::OpenOptions::open')]:
            fresh, why5 = created_empty(cf, c)
            rep.ob('R16.5', fresh, 'R16.5|%s|destination-created-empty' % cf.nkey, 'destination created empty (%s)' % why5 if fresh else
                   'the destination file is opened without being emptied (%s): when it already exists its old content survives next to / under the extracted bytes' % why5, cf.loc(c.idx))
    # ---------------- R16.3 callers
    ex = one_body(prog, rep, 'R16.3', 'mlar', exact='extract')
    if ex is not None and ex.kind == 'Closure':
        ex = None
    cfcalls = []
    for body in mlar.bodies:
        for b in body.calls():
            if cnorm(b.term) == 'create_file':
                cfcalls.append((body, b))
    rep.floor('R16.3', len(cfcalls), 2, 'callers of create_file')
    for body, b in cfcalls:
        rep.fn(body)
        can = []

        def is_can2(kind, obj, b3, can=can):
            if kind == 'call' and cnorm(obj) == 'std::fs::canonicalize':
                can.append(b3)
                return True
            return False
        a0 = b.term.args[0]
        ok = a0.place is not None and must_derive_ip(prog, body, a0.place[0], is_can2) and bool(can)
        if not ok and body.kind == 'Closure' and a0.place is not None:
            # the per-member work sits in a closure (iterator chain over the member names): the directory is a captured variable of the enclosing function
            parent_ = prog.body(body.pkg, body.defpath.rsplit('::{closure#', 1)[0])
            if parent_ is not None:
                ok = must_derive_captured(prog, parent_, body, a0.place[0], lambda k_, ob_, b3_: k_ == 'call' and cnorm(ob_) == 'std::fs::canonicalize', extra_transparent=('as_path', 'as_ref', 'deref', 'borrow'))
        rep.ob('R16.3', ok, 'R16.3|%s|create_file-dir-canonical' % body.nkey, 'output directory handed to create_file is fs::canonicalize(..)' if ok else 'create_file called with a directory that is not canonicalized', body.loc(b.idx))
    # FileWriter aggregates
    fws = []
    for body in mlar.bodies:
        for bl in body.blocks:
            if bl.cleanup:
                continue
            for i, s in enumerate(bl.stmts):
                if s.kind == 'assign' and s.rv.r == 'aggregate' and s.rv.j.get('adt') == 'FileWriter':
                    fws.append((body, bl.idx, i, s))
    rep.floor('R16.3.fw', len(fws), 1, 'constructions of FileWriter')
    for body, bb, i, s in fws:
        if 'path' not in s.rv.j['fields']:
            rep.ob('R16.3', False, 'R16.3|%s|FileWriter.path-from-create_file' % body.nkey,
                   'FileWriter no longer carries the vetted path returned by create_file (fields: %s): the path it opens is rebuilt from unvetted parts' % ', '.join(s.rv.j['fields']), body.loc(bb, i))
            continue
        op = s.rv.ops[s.rv.j['fields'].index('path')]
        ok = op.place is not None and must_derive(body, op.place[0], lambda k, ob, b3: k == 'call' and cnorm(ob) == 'create_file')
        if not ok and body.kind == 'Closure' and op.place is not None and must_derive(body, op.place[0], lambda k, ob, b3: k == 'param' and ob == 2):
            # `create_file(..)...map(|(_file, path)| FileWriter { path, .. })`: the closure's argument is the value create_file returned
            parent_ = prog.body(body.pkg, body.defpath.rsplit('::{closure#', 1)[0])
            if parent_ is not None:
                for pc in parent_.calls():
                    if pc.term.cmethod in ('map', 'and_then', 'map_or', 'map_or_else') and len(pc.term.args) >= 2:
                        ce_ = expr_of(parent_, pc.term.args[-1])
                        if ce_[0] == 'agg' and ce_[3].j.get('closure') == body.defpath and pc.term.args[0].place is not None:
                            ok = must_derive(parent_, pc.term.args[0].place[0], lambda k, ob, b3: k == 'call' and cnorm(ob) == 'create_file',
                                             extra_transparent=('transpose', 'branch', 'ok', 'unwrap', 'expect'))
        rep.ob('R16.3', ok, 'R16.3|%s|FileWriter.path-from-create_file' % body.nkey, 'FileWriter.path is the vetted path returned by create_file' if ok else 'FileWriter.path does not come from create_file', body.loc(bb, i))
    fw = one_body(prog, rep, 'R16.3', 'mlar', adt='FileWriter', name='write', trait='std::io::Write')
    if fw is not None:
        # (the open may sit in a closure of write -- e.g. the miss handler of a cache lookup -- that captures the path)
        opens = [(bd, b) for bd in [fw] + prog.closures_of(fw) for b in bd.calls() if cnorm(b.term) in FS_SINKS and cnorm(b.term) != 'std::fs::File::options']
        rep.floor('R16.3.open', len(opens), 1, 'file opens in FileWriter::write')

        def is_self_path(kind, obj, b3):
            if kind == 'assign' and obj.kind == 'assign' and obj.rv is not None:
                pls = obj.rv.src_places()
                return len(pls) == 1 and pls[0][0] == 1 and place_fields(pls[0])[-1:] == ['path']
            return False
        for bd, b in opens:
            pa = b.term.args[-1]
            if bd is fw:
                o = origins(fw, [pa.place[0]], through_calls=False) if pa.place else None
                ok = o is not None and o.fields and all(f[0] == 'self' and f[-1] == 'path' for f in o.fields) and not (o.params - {1})
            else:
                ok = pa.place is not None and must_derive_captured(prog, fw, bd, pa.place[0], is_self_path, extra_transparent=('as_path', 'as_ref', 'deref', 'borrow', 'clone'))
            rep.ob('R16.3', bool(ok), 'R16.3|%s|opens-only-self.path' % fw.nkey, 'FileWriter::write opens only self.path' if ok else 'FileWriter::write opens a path other than self.path', bd.loc(b.idx))
            # "with exactly their content": a destination reopened after its descriptor was evicted from the pool continues at its end (append), it is
            # neither truncated nor rewritten from offset 0
            if cnorm(b.term) == 'std::fs::OpenOptions::open':
                _, how = created_empty(bd, b)
                st_ = dict(eval(how.split(' ', 1)[1])) if how.startswith('OpenOptions ') else {}
                oka = st_.get('append') == 1 and st_.get('truncate') != 1
                rep.ob('R16.6', oka, 'R16.6|%s|reopen-appends' % fw.nkey, 'the destination is reopened in append mode' if oka else
                       'FileWriter::write reopens the destination without append (%s): once its descriptor has been evicted from the pool, the next block of the member '
                       'overwrites what was already extracted' % how, bd.loc(b.idx))
            elif cnorm(b.term) in ('std::fs::File::create', 'std::fs::File::create_new'):
                rep.ob('R16.6', False, 'R16.6|%s|reopen-appends' % fw.nkey, 'FileWriter::write re-creates (truncates) the destination when it reopens it', bd.loc(b.idx))

    # ---------------- R16.4 sink census
    tbl_path = os.path.join(os.path.dirname(os.path.dirname(os.path.dirname(os.path.abspath(__file__)))), 'tables', 'fs_sinks.json')
    table = {e['key']: e for e in json.load(open(tbl_path))['sinks']}
    sinks = []
    for body in mlar.bodies:
        for b in body.calls():
            cn = cnorm(b.term)
            if cn in FS_SINKS and cn != 'std::fs::File::options':
                sinks.append((body, b, cn))
    rep.floor('R16.4', len(sinks), 4, 'filesystem-mutating calls in mlar')   # fewer sinks is safer: the floor only guards against an empty enumeration
    seen_keys = {}
    for body, b, cn in sinks:
        rep.fn(body)
        base = '%s|%s' % (body.nkey, cn)
        n = seen_keys.get(base, 0)
        seen_keys[base] = n + 1
        key = 'R16.4|%s#%d' % (base, n)
        pa = b.term.args[-1] if cn == 'std::fs::OpenOptions::open' else b.term.args[0]
        tainted = False
        how = ''
        if pa.place is not None:
            o = origins(body, [pa.place[0]])
            for c in o.calls:
                t = body.blocks[c].term
                if t.cmethod in MEMBER_SOURCES_CALLS and 'ArchiveReader' in t.cdef:
                    tainted, how = True, 'derives from %s' % t.cmethod
            if any(f[-1] in ('filename', 'fname') for f in o.fields):
                tainted, how = True, 'derives from a member-name field'
            if norm(body.defpath) in ('create_file', 'get_extracted_path') and 2 in o.params:
                tainted, how = True, 'derives from the member-name parameter'
        CREATORS = ('std::fs::File::create', 'std::fs::File::create_new', 'std::fs::OpenOptions::open')
        if key not in table and norm(body.defpath) == 'create_file' and cn in CREATORS:
            # the creation call of create_file written with another std API: same sink, vetted by R16.2 (prefix test) and R16.5 (created fresh)
            alt = [k for k in table if k.startswith('R16.4|%s|' % body.nkey) and k.split('|')[2].rsplit('#', 1)[0] in CREATORS]
            if alt:
                key_tab = alt[0]
                e = table[key_tab]
                rep.ob('R16.4', True, key, 'vetted member path sink (%s)' % e['reason'], body.loc(b.idx))
                continue
        if key in table:
            e = table[key]
            if e['class'] == 'vetted-member-path':
                # must be in a function whose R16.2/R16.3 obligations were evaluated above
                ok = norm(body.defpath) in ('create_file',) or body.impl_adt == 'FileWriter'
                rep.ob('R16.4', ok, key, 'vetted member path sink (%s)' % e['reason'] if ok else 'table says vetted-member-path but the sink is outside create_file/FileWriter', body.loc(b.idx))
            else:
                rep.ob('R16.4', not tainted, key, '%s: %s' % (e['class'], e['reason']) if not tainted else
                       'sink classified %s but its path %s' % (e['class'], how), body.loc(b.idx))
        else:
            if tainted:
                rep.ob('R16.4', False, key, 'filesystem sink %s whose path %s and does not pass through create_file' % (cn, how), body.loc(b.idx))
            else:
                rep.note('unclassified filesystem sink (path not derived from a member name): %s at %s' % (key, body.loc(b.idx)))
                rep.ob('R16.4', True, key, 'unclassified sink, path not derived from an archive member name (informational)', body.loc(b.idx))
