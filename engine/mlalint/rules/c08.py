"""C08 -- untrusted input never crashes, overflows the stack or exhausts memory (crash / allocation / recursion clauses).
Also provides the shared census runner used by C02 (fail-safe scope) and C18 (key parsers)."""
import json, os
import re
from ..core import *
from ..inline import inlined_body
from .. import census, core

EXPLANATION = ("Census over everything reachable (over-approximate call graph incl. trait objects and callbacks through std/byteorder/bincode/brotli) from the "
               "untrusted-input entry points: (PANIC) every MIR Assert (overflow, division, bounds) and every call of a panicking API (index, "
               "copy_from_slice, split_at, Vec::remove, GenericArray::from_slice, unwrap/expect, explicit panic) is either discharged automatically "
               "(constant / type-range intervals refined by dominating comparisons, length facts, x-(x%c), min(_, len), equal constant slice lengths) or "
               "listed in tables/panic_sites.json with a reviewed reason; an unreviewed site whose operands are tainted by archive data is a violation, an "
               "untainted one is reported as informational; (ALLOC) every allocation size that may derive from archive data is bounded by a named "
               "constant (interval), chunk loads read through a bounded take, bincode runs with a Bounded limit that fits u32; (RECUR) every direct "
               "self-recursive call is tabled with its depth bound; (R08.1) callers of the Empty-placeholder panic test for it first; (R08.2) "
               "BlocksToFileReader::new is entered only after the offsets.is_empty() test; (R08.3) the file-name length limit dominates the name "
               "allocation; (R08.4) every loop around a raw Read::read compares the returned count with 0 (necessary part of termination at end of input); (R08.5) a buffer allocated for a read loop has a size of at least 1. Field invariants (private integer fields, fixpoint over all stores) and symbolic slice lengths take part in the discharge. Termination of loops "
               "in general, wall time and peak memory as numbers are not decided.")
TRUSTED = ['rustc MIR (overflow checks on)', 'dependencies (brotli, bincode, byteorder, RustCrypto, std) do not panic on the values MLA hands them other than at the call sites enumerated',
           'Read/Write contracts (returned count <= buffer length)']
ASSUMPTIONS = ['layer stack depth is fixed by from_config (raw + encryption + compression): mutual recursion through inner readers is bounded by it',
               'inputs larger than 2^49 bytes (512 TiB) are out of scope for counter overflows']

TBL_DIR = os.path.join(os.path.dirname(os.path.dirname(os.path.dirname(os.path.abspath(__file__)))), 'tables')


def entry_points(prog, which='c08'):
    roots = []

    def add(pkg, **kw):
        bs = find_bodies(prog, pkg, **kw)
        roots.extend(bs)
        return bs
    if which in ('c08',):
        for n in ('from_config', 'new', 'list_files', 'get_hash', 'get_file'):
            add('mla', adt='ArchiveReader', name=n)
        add('mla', adt='BlocksToFileReader', name='read', trait='std::io::Read')
        add('mla', exact='helpers::linear_extract')
        add('mla', exact='ArchiveHeader::from')
        add('mla', exact='ArchiveFooter::deserialize_from')
        for adt in ('layers::raw::RawLayerReader', 'layers::encrypt::EncryptionLayerReader', 'layers::encrypt::EncryptionLayerInternal', 'layers::compress::CompressionLayerReader'):
            add('mla', adt=adt, name='read', trait='std::io::Read')
            add('mla', adt=adt, name='seek', trait='std::io::Seek')
            add('mla', adt=adt, name='initialize')
        add('mlar', adt='ArchiveInfoReader', name='from_config')
        for n in ('mla_roarchive_extract', 'mla_roarchive_info', 'mla_roarchive_extract_internal', 'mla_roarchive_info_internal'):
            add('mla-bindings-c', exact=n)
    if which in ('c08', 'c02'):
        for n in ('from_config', 'new', 'convert_to_archive'):
            add('mla', adt='ArchiveFailSafeReader', name=n)
        for adt in ('layers::raw::RawLayerFailSafeReader', 'layers::encrypt::EncryptionLayerFailSafeReader', 'layers::compress::CompressionLayerFailSafeReader'):
            add('mla', adt=adt, name='read', trait='std::io::Read')
            add('mla', adt=adt, name='new')
    if which == 'c18':
        for b in prog.crates['curve25519-parser'].bodies:
            if b.kind != 'Closure' and b.vis == 'pub' and b.name.startswith('parse_'):
                roots.append(b)
    return roots


ENTRY_FLOORS = {'c08': 30, 'c02': 9, 'c18': 5}


def param_sources(prog, which, roots):
    out = set()
    if which == 'c18':
        for b in roots:
            out.add((b.key, 1))
    return out


def load_table(name):
    p = os.path.join(TBL_DIR, name)
    return json.load(open(p))


SCOPE_FLOORS = {'c08': 250, 'c02': 230, 'c18': 20}


def moved_into_helper(prog, body, site, table, anywhere):
    """an unreviewed site whose operands are parameters of a private helper: substitute, at every exactly resolved call site, the rendering of the
    arguments for the parameter names; the site is accepted when every resulting (caller | expression) is a reviewed table entry (any occurrence).
    This is what an "extract function" refactoring of a reviewed expression produces."""
    if body.kind == 'Closure' or body.impl_trait or body.vis == 'pub' or body.arg_count == 0:
        return None
    names = {body.lname(p): p for p in range(1, body.arg_count + 1)}
    sites = []
    for b2 in prog.crates[body.pkg].bodies:
        for blk in b2.calls():
            cands, exact = resolve_call(prog, b2, blk.term)
            if exact and len(cands) == 1 and cands[0].key == body.key:
                sites.append((b2, blk))
    if not sites:
        return None
    reasons = []
    for b2, blk in sites:
        desc = site.desc
        for n, pidx in names.items():
            if pidx - 1 >= len(blk.term.args):
                return None
            aop = blk.term.args[pidx - 1]
            ar = None
            for _ in range(5):   # look through reborrows and accessors that hand out the same bytes (`&mut vec` -> deref_mut -> `&mut *slice`)
                ae = deref_expr(b2, expr_of(b2, aop))
                if ae[0] == 'call' and ae[2].cmethod in ('deref_mut', 'deref', 'as_mut_slice', 'as_slice', 'as_mut', 'as_ref', 'borrow_mut', 'borrow') and ae[2].args:
                    aop = ae[2].args[0]
                    continue
                if ae[0] in ('place', 'ref'):
                    ar = b2.lname(ae[1][0]) if not [p for p in ae[1][1] if p[0] != 'deref'] else None
                break
            if ar is None:
                ar = census.describe(b2, aop)
            ar = re.sub(r'^&(mut )?', '', ar)
            desc = re.sub(r'(?<![A-Za-z0-9_.])%s(?![A-Za-z0-9_])' % re.escape(n), lambda m: ar, desc)
        base = '%s|%s' % (b2.nkey, desc)
        if os.environ.get('MLA_DEBUG_MOVED'):
            print('moved?', base)
        ent = anywhere.get(base) or next((e for k2, e in table.items() if k2.rsplit('#', 1)[0] == base), None)
        if ent is None:
            return None
        reasons.append('%s: %s' % (b2.name, ent['reason']))
    return ' / '.join(reasons)[:300]


def _leaves_sans_calls(lv):
    """operand leaves without the producer-call names (those depend on how much was inlined into the view)"""
    return [lv[0]] + [[x[0], x[1], x[2], x[4]] if isinstance(x, list) and x and x[0] == 'val' and len(x) >= 5 else x for x in lv[1:]]


def _same_inputs_entry(table, fn_nkey, lv2):
    want = _leaves_sans_calls(lv2)
    if not any(isinstance(x, list) and x and x[0] == 'val' and (x[1] or x[2]) for x in want[1:]):
        return None
    return next((e2 for k2, e2 in table.items() if k2.split('|', 1)[0] == fn_nkey and e2.get('leaves') and _leaves_sans_calls(e2['leaves']) == want), None)


def helper_site_seen_from_callers(prog, body, site, table, anywhere):
    """a site inside a private helper, looked up where the helper is used: in the inlined view of every (exactly resolved) caller, the same source location
    carries a site of the same kind that is discharged there, or is a reviewed entry of the caller (same rendering, or same operation on the same inputs --
    the locals of the helper may have other names than the ones the expression had in the caller)."""
    if body.kind == 'Closure' or body.impl_trait or body.vis == 'pub':
        return None
    callers = []
    for b2 in prog.crates[body.pkg].bodies:
        for blk in b2.calls():
            cands, exact = resolve_call(prog, b2, blk.term)
            if exact and len(cands) == 1 and cands[0].key == body.key and b2.key != body.key:
                callers.append(b2)
    if not callers:
        return None
    where = site.loc()
    reasons = []
    for b2 in {c.key: c for c in callers}.values():
        try:
            inl = inlined_body(prog, b2)
        except Exception:
            return None
        if not getattr(inl, 'inlined', 0):
            return None
        twins = [s2 for s2 in census.enumerate_sites(prog, inl) if s2.kind == site.kind and s2.loc() == where]
        if not twins:
            return None
        for s2 in twins:
            why = census.discharge(prog, inl, s2)
            ent = None
            if not why:
                base2 = s2.key.rsplit('#', 1)[0]
                ent = anywhere.get(base2) or next((e2 for k2, e2 in table.items() if k2.rsplit('#', 1)[0] == base2), None)
            if not why and ent is None:
                ent = _same_inputs_entry(table, b2.nkey, json.loads(json.dumps(census.site_leaves(inl, s2))))
            if not why and ent is None:
                return None
            reasons.append('%s: %s' % (b2.name, why or ent['reason']))
    return ' / '.join(reasons)[:300]


def run_census(prog, rep, which, rule):
    """PANIC census for a scope; returns (scope, taint)"""
    roots = entry_points(prog, which)
    rep.floor(rule + '.entries', len(roots), ENTRY_FLOORS[which], 'entry points resolved')
    scope = [b for b in reachable_bodies(prog, roots) if b.pkg != 'mla-fuzz-afl']
    # vacuity guard on what is analysed (bodies), not on how many panic sites the code has: removing a panic site is never a violation
    rep.floor(rule + '.scope', len(scope), SCOPE_FLOORS[which], 'function bodies in the census scope')
    for b in roots:
        rep.fn(b)
    from .. import fieldinv
    census.PROG = prog
    finv = fieldinv.compute(prog)     # invariants of private integer fields, used by the interval rules
    taint = census.Taint(prog, scope, param_sources(prog, which, roots))
    table = {e['key']: e for e in load_table('panic_sites.json')['sites']}
    anywhere = {e['key'].rsplit('#', 1)[0]: e for e in table.values() if e.get('anywhere')}
    n_sites = n_dis = n_tab = n_info = 0
    hist = collections.Counter()
    seen_keys = set()
    for body in sorted(scope, key=lambda b: b.nkey):
        for s in census.enumerate_sites(prog, body):
            n_sites += 1
            seen_keys.add(s.key)
            why = census.discharge(prog, body, s)
            key = '%s|%s' % (rule, s.key)
            if why:
                n_dis += 1
                hist[why.split(':')[0].split(' ')[0]] += 1
                rep.ob(rule, True, key, 'discharged: ' + why, s.loc(), sample='discharged: ' + why if n_dis <= 6 else None)
                continue
            ent = table.get(s.key) or anywhere.get(s.key.rsplit('#', 1)[0])
            if ent is not None:
                n_tab += 1
                rep.ob(rule, True, key, 'reviewed: ' + ent['reason'], s.loc(), sample='reviewed: ' + ent['reason'] if n_tab <= 6 else None)
                continue
            # same function, same kind of operation, operands computed from exactly the same inputs (fields, parameters, calls, named constants, in
            # the same operand positions): the reviewed expression was rewritten (`if x == 0 {0} else {x - 1}` -> `x.saturating_sub(1)`)
            lv = json.loads(json.dumps(census.site_leaves(body, s)))
            same = [e2 for k2, e2 in table.items() if k2.split('|', 1)[0] == body.nkey and e2.get('leaves') == lv and any(len(x) > 1 and (x[1] or x[2] or x[3]) for x in lv[1:] if isinstance(x, list) and x and x[0] == 'val')]
            if same:
                n_tab += 1
                rep.ob(rule, True, key, 'reviewed (same operation on the same inputs as a reviewed site of this function): ' + same[0]['reason'], s.loc())
                continue
            # `self.counter += x` of a reviewed counter, written elsewhere in the same method (in the method instead of in a closure of it, or the
            # reverse): the review argues about the counter
            acc = census.accumulator_field(prog, body, s)
            if acc:
                fam = body.nkey.split('::{closure#')[0]
                ea = [e2 for k2, e2 in table.items() if e2.get('accumulator') == acc and k2.split('|', 1)[0].split('::{closure#')[0] == fam]
                if ea:
                    n_tab += 1
                    rep.ob(rule, True, key, 'reviewed (in-place update of the same counter %s in the same method): %s' % (acc, ea[0]['reason']), s.loc())
                    continue
            # the operand is now computed by a private helper (extract-function on the producer side): look the site up as it reads once the
            # helper is spliced back into this function
            viainl = None
            try:
                inl = inlined_body(prog, body)
                if getattr(inl, 'inlined', 0):
                    for s2 in census.enumerate_sites(prog, inl):
                        if s2.bb == s.bb and s2.kind == s.kind:
                            base2 = s2.key.rsplit('#', 1)[0]
                            viainl = anywhere.get(base2) or next((e2 for k2, e2 in table.items() if k2.rsplit('#', 1)[0] == base2), None)
                            if viainl is None and census.discharge(prog, inl, s2):
                                viainl = {'reason': 'discharged once the helper is inlined: ' + census.discharge(prog, inl, s2)}
                            if viainl is None:
                                # same operation on the same inputs as a reviewed site of this function (locals of the helper renamed)
                                viainl = _same_inputs_entry(table, body.nkey, json.loads(json.dumps(census.site_leaves(inl, s2))))
            except Exception:
                viainl = None
            if viainl is not None:
                n_tab += 1
                rep.ob(rule, True, key, 'reviewed (operand produced by a private helper; same site once inlined): ' + viainl['reason'], s.loc())
                continue
            moved = moved_into_helper(prog, body, s, table, anywhere) or helper_site_seen_from_callers(prog, body, s, table, anywhere)
            if moved:
                n_tab += 1
                rep.ob(rule, True, key, 'reviewed at the call sites (expression moved into a private helper): ' + moved, s.loc())
                continue
            if taint.site_tainted(s):
                rep.ob(rule, False, key, 'potential panic site %s in %s is reachable from untrusted input, takes a value derived from the input, and is neither provably safe nor reviewed'
                       % (s.desc, body.nkey), s.loc())
            else:
                n_info += 1
                rep.note('unreviewed, untainted site (informational): %s at %s' % (s.key, s.loc()))
                rep.ob(rule, True, key, 'unreviewed but not derived from untrusted input (informational)', s.loc())
    rep.note('field invariants inferred: %s' % ', '.join('%s#%d in %s' % (k[0], k[1], list(v)) for k, v in sorted(finv.items())))
    rep.note('%s census: %d bodies in scope, %d sites, %d discharged automatically, %d reviewed in the table, %d untainted informational; discharge histogram %s'
             % (which, len(scope), n_sites, n_dis, n_tab, n_info, dict(hist)))
    return scope, taint, seen_keys, table


ALLOC_METHODS = {'with_capacity', 'resize', 'reserve', 'reserve_exact', 'from_elem', 'repeat'}
ALLOC_CAP = 2 ** 26   # 64 MiB: anything above must be justified by a named constant, a bare u32/usize type range never is



def read_buffers_never_empty(prog, rep, scope, RULE):
    # ---------------- R08.5 the buffer a fill loop reads into is never empty
    # (such loops take a zero count for the end of the source; with an empty buffer every read returns 0 without consuming anything, the "buffer not
    # filled => end of block" test compares 0 with 0, and the loop around it never ends: a buffer sized from a length found in the archive is enough)
    nbuf = 0
    for body in sorted(scope, key=lambda b: b.nkey):
        if body.pkg not in ('mla', 'mlar', 'mla-bindings-c'):
            continue
        body = inlined_body(prog, body)       # the fill loop may be a private helper that receives the buffer
        loops = body.loop_blocks()
        cnt = collections.Counter()
        for b in body.calls():
            t = b.term
            if t.ctrait != 'std::io::Read' or t.cmethod != 'read' or b.idx not in loops or len(t.args) < 2 or t.args[1].place is None:
                continue
            # the container the slice handed to read() is cut from: follow `&mut buf[a..]`, `buf.as_mut_slice()`, reborrows
            e = deref_expr(body, expr_of(body, t.args[1]))
            for _ in range(8):
                if e[0] == 'call' and e[2].cmethod in ('index_mut', 'index', 'deref_mut', 'deref', 'as_mut_slice', 'as_mut', 'borrow_mut', 'as_slice') and e[2].args:
                    e = deref_expr(body, expr_of(body, e[2].args[0]))
                else:
                    break
            owners = []
            if e[0] in ('ref', 'place'):
                pl = census.norm_place_c(body, e[1])
                if not [p_ for p_ in pl[1] if p_[0] != 'deref'] and pl[0] > body.arg_count and body.lty(pl[0]).startswith(('std::vec::Vec<u8', '[u8;')):
                    owners = [pl[0]]
            if not owners:
                continue      # the caller's buffer (an `impl Read::read`: see R10.5 / R13.7), or a buffer held in a field (allocated by a constructor, not per block)
            for l in owners:
                key = RULE + '|%s|read-buffer:%s#%d|never-empty' % (body.nkey, body.lname(l), cnt[(body.nkey, l)])
                cnt[(body.nkey, l)] += 1
                lo = None
                if body.lty(l).startswith('[u8;'):
                    mm = re.match(r'\[u8; (\d+)\]', body.lty(l))
                    lo = int(mm.group(1)) if mm else None
                else:
                    for (dbb, dsi, dk, dobj) in body.defs.get(l, []):
                        if dk == 'call' and 'vec::from_elem' in cnorm(dobj) and len(dobj.args) >= 2:
                            iv = census.refined_interval(prog, body, dbb, dobj.args[1])
                            v = iv[0] if iv is not None else 0
                            lo = v if lo is None else min(lo, v)
                        elif dk == 'call' and dobj.cmethod in ('with_capacity', 'new') :
                            lo = 0 if lo is None else min(lo, 0)
                    # resized before the loop?
                    for (rbb, rt, ai) in mutarg_defs(body).get(l, []):
                        if rt.cmethod == 'resize' and len(rt.args) >= 2 and body.dominates(rbb, b.idx):
                            iv = census.refined_interval(prog, body, rbb, rt.args[1])
                            lo = iv[0] if iv is not None else 0
                if lo is None:
                    continue      # not allocated in this function (moved out of the reader's state: sized by its constructor)
                nbuf += 1
                ok = lo >= 1
                rep.ob(RULE, ok, key, 'the buffer of the fill loop has at least %s bytes' % lo if ok else
                       'the buffer a read loop fills may be empty (size lower bound %s): read() then returns 0 without reaching the end of the source, and a loop that tells '
                       '"end of block" from "buffer not filled" never terminates' % lo, body.loc(b.idx))
    rep.note('%s: %d locally allocated buffers of read loops examined' % (RULE, nbuf))

def run(prog, rep, tier):
    scope, taint, seen, table = run_census(prog, rep, 'c08', 'PANIC')
    rep.floor('PANIC', sum(1 for _ in seen), 60, 'panic sites in the reader / repair scope')
    stale = [k for k in table if k not in seen]
    for k in stale:
        rep.note('table entry without a matching site in the C08 scope (stale or other scope): %s' % k)

    # ---------------- ALLOC
    n_alloc = 0
    for body in sorted(scope, key=lambda b: b.nkey):
        tl = taint.locals.get(body.key, set())
        cnt = collections.Counter()
        for b in body.calls():
            t = b.term
            cn = cnorm(t)
            size_ops = []
            if t.cmethod in ALLOC_METHODS and ('Vec' in cn or 'String' in cn or 'BufReader' in cn or 'vec::from_elem' in cn or 'VecDeque' in cn):
                if t.cmethod == 'from_elem':
                    size_ops = [t.args[1]]
                elif t.cmethod == 'resize':
                    size_ops = [t.args[1]]
                elif t.cmethod in ('reserve', 'reserve_exact'):
                    size_ops = [t.args[1]]
                else:
                    size_ops = [t.args[-1]] if t.cmethod == 'with_capacity' and 'BufReader' in cn else [t.args[0]]
            elif cn.endswith('brotli::Decompressor::new') or (t.cmethod == 'new' and 'brotli::Decompressor' in t.cdef):
                size_ops = [t.args[1]]
            elif t.ctrait == 'std::io::Read' and t.cmethod in ('read_to_end', 'read_to_string'):
                # unbounded unless the receiver is a bounded Take
                n_alloc += 1
                ro = origins(body, [t.args[0].place[0]])
                tk = [body.blocks[c].term for c in ro.calls if body.blocks[c].term.cmethod == 'take' and body.blocks[c].term.ctrait == 'std::io::Read']
                ok = False
                if 'std::io::Take<' in t.callee.get('self_ty', '') and len(tk) == 1:
                    iv = census.refined_interval(prog, body, b.idx, tk[0].args[1])
                    ok = iv is not None and iv[1] <= ALLOC_CAP
                base = '%s|%s' % (body.nkey, t.cmethod)
                key = 'ALLOC|%s#%d' % (base, cnt[base])
                cnt[base] += 1
                rep.ob('ALLOC', ok, key, 'read_to_end on a take() bounded by a constant' if ok else 'read_to_end from an untrusted source without a constant bound: memory grows with the input', body.loc(b.idx))
                continue
            if not size_ops:
                continue
            n_alloc += 1
            base = '%s|%s' % (body.nkey, cn.rsplit('::', 2)[-2] + '::' + t.cmethod if '::' in cn else t.cmethod)
            key = 'ALLOC|%s#%d' % (base, cnt[base])
            cnt[base] += 1
            op = size_ops[0]
            iv = census.refined_interval(prog, body, b.idx, op)
            is_t = op.place is not None and (op.place[0] in tl or bool(origins(body, [op.place[0]]).locals & tl))
            bounded = iv is not None and iv[1] <= ALLOC_CAP
            if bounded:
                rep.ob('ALLOC', True, key, 'allocation size within %s' % (iv,), body.loc(b.idx))
            elif not is_t:
                rep.ob('ALLOC', True, key, 'allocation size not derived from untrusted input', body.loc(b.idx))
            else:
                rep.ob('ALLOC', False, key, 'allocation of %s bytes/elements controlled by archive data without an upper bound against a constant' % census.describe(body, op), body.loc(b.idx))
    rep.floor('ALLOC', n_alloc, 5, 'allocation sites in scope')
    # bincode limit fits u32 (on-disk length fields are u32)
    lim = prog.crates['mla'].const_int('BINCODE_MAX_DESERIALIZE')
    rep.ob('ALLOC', lim is not None and lim <= 2 ** 32 - 1, 'ALLOC|mla::BINCODE_MAX_DESERIALIZE|fits-u32', 'bincode limit %s <= u32::MAX' % lim if lim is not None and lim <= 2 ** 32 - 1 else 'bincode deserialisation limit %s does not bound allocations' % lim, '-')
    nde = 0
    for body in scope:
        for b in body.calls():
            t = b.term
            if t.ctrait == 'bincode::Options' and t.cmethod in ('deserialize_from', 'deserialize'):
                nde += 1
                ok = 'bincode::config::Bounded' in t.callee.get('self_ty', '')
                rep.ob('ALLOC', ok, 'ALLOC|%s|bincode-bounded' % body.nkey, 'deserialisation runs with a Bounded limit' if ok else 'bincode deserialisation of untrusted data without with_limit', body.loc(b.idx))
            cn = cnorm(t)
            if cn.startswith('bincode::') and t.cmethod in ('deserialize', 'deserialize_from', 'deserialize_from_custom') and not t.ctrait:
                nde += 1
                rep.ob('ALLOC', False, 'ALLOC|%s|bincode-free-fn-unbounded' % body.nkey,
                       'bincode::%s (default options: no size limit) deserialises untrusted data: a length field of the input becomes an allocation size' % t.cmethod, body.loc(b.idx))
    rep.floor('ALLOC.bincode', nde, 2, 'bincode deserialisations in scope')

    # ---------------- RECUR (direct self recursion)
    rtab = {e['key']: e for e in load_table('recursion.json')['self_calls']}
    nrec = 0
    for body in sorted(scope, key=lambda b: b.nkey):
        cnt = 0
        for b in body.calls():
            t = b.term
            cands, exact = resolve_call(prog, body, t)
            if exact and len(cands) == 1 and cands[0].key == body.key:
                key = 'RECUR|%s|self-call#%d' % (body.nkey, cnt)
                cnt += 1
                nrec += 1
                moved_rec = None
                if key not in rtab and not body.impl_trait and body.vis != 'pub' and body.kind != 'Closure':
                    # the body (and the self-call) of reviewed recursive functions moved into a private helper they now delegate to: every caller of the
                    # helper is a function whose own self-call is tabled and which no longer calls itself
                    callers = {}
                    for b2 in prog.crates[body.pkg].bodies:
                        if b2.key == body.key:
                            continue
                        for blk2 in b2.calls():
                            c2, e2 = resolve_call(prog, b2, blk2.term)
                            if e2 and len(c2) == 1 and c2[0].key == body.key:
                                callers[b2.key] = b2
                    def self_calls(bx):
                        return sum(1 for q in bx.calls() if (lambda r: r[1] and len(r[0]) == 1 and r[0][0].key == bx.key)(resolve_call(prog, bx, q.term)))
                    ents = [rtab.get('RECUR|%s|self-call#%d' % (bx.nkey, cnt - 1)) for bx in callers.values()]
                    if callers and all(ents) and all(self_calls(bx) == 0 for bx in callers.values()):
                        moved_rec = ' / '.join(sorted({e_['bound'] for e_ in ents}))[:300]
                if key in rtab:
                    rep.ob('RECUR', True, key, 'bounded recursion: ' + rtab[key]['bound'], body.loc(b.idx), sample='bounded: ' + rtab[key]['bound'])
                elif moved_rec:
                    rep.ob('RECUR', True, key, 'bounded recursion (moved from reviewed functions that now delegate to this helper): ' + moved_rec, body.loc(b.idx))
                else:
                    rep.ob('RECUR', False, key, 'function calls itself on a path whose length is controlled by the input and no depth bound is recorded: a crafted archive can exhaust the stack', body.loc(b.idx))
    rep.floor('RECUR', nrec, 3, 'direct self-recursive call sites in scope')

    # ---------------- R08.1 placeholder state
    mla = prog.crates['mla']
    pan = [b for b in mla.bodies if norm(b.defpath) == 'layers::compress::CompressionLayerReaderState::into_inner']
    if len(pan) != 1:
        rep.ob('R08.1', False, 'R08.1|anchor|CompressionLayerReaderState::into_inner', 'anchor not found')
    else:
        tgt = pan[0]
        keys = {b.key for b in scope}
        ncall = 0
        for body in scope:
            for b in body.calls():
                cands, exact = resolve_call(prog, body, b.term)
                if any(c.key == tgt.key for c in cands):
                    ncall += 1
                    # the moved-out state must have been tested against the Empty placeholder on the way
                    ok = False
                    for sbb, si in arm_of_enum_switch(prog, body, adt='layers::compress::CompressionLayerReaderState'):
                        et = enum_arm_target(si, 'Empty')
                        others = {enum_arm_target(si, v) for v in ('Ready', 'InData')}
                        if et is not None and et not in others and body.dominates(sbb, b.idx) and b.idx not in reachable_ps(body, et):
                            ok = True
                    rep.ob('R08.1', ok, 'R08.1|%s|into_inner-after-empty-test' % body.nkey, 'the Empty placeholder is excluded before into_inner' if ok else
                           'into_inner() is called on a state that a previous failed read/seek may have left Empty: the explicit panic is reachable after an error', body.loc(b.idx))
        rep.floor('R08.1', ncall, 1, 'callers of CompressionLayerReaderState::into_inner in scope')

    # ---------------- R08.2 guarded entry into the run reader
    newb = [b for b in mla.bodies if norm(b.defpath) == 'BlocksToFileReader::new']
    if len(newb) != 1:
        rep.ob('R08.2', False, 'R08.2|anchor|BlocksToFileReader::new', 'anchor not found')
    else:
        callers = []
        for pkg in prog.crates:
            for body in prog.crates[pkg].bodies:
                for b in body.calls():
                    cands, exact = resolve_call(prog, body, b.term)
                    if any(c.key == newb[0].key for c in cands):
                        callers.append((body, b))
        rep.floor('R08.2', len(callers), 1, 'callers of BlocksToFileReader::new')
        # the obligation exists because new() indexes offsets[0]; once it asks `first()` / `get(0)` instead there is nothing left to guard
        indexes = [s_ for s_ in census.enumerate_sites(prog, newb[0]) if s_.kind in ('BoundsCheck', 'Index')]
        if not indexes:
            rep.ob('R08.2', True, 'R08.2|mla::BlocksToFileReader::new|no-unconditional-index', 'BlocksToFileReader::new does not index its offsets list', newb[0].loc())
            callers = []
        for body, b in callers:
            guard = None
            for bl in body.blocks:
                r = branch_on_call(prog, body, bl.idx)
                if r and r[1].cmethod == 'is_empty':
                    o = origins(body, [r[1].args[0].place[0]], through_calls=False)
                    if any(f[-1] == 'offsets' for f in o.fields):
                        guard = (bl.idx, r[3], r[1])
            ok = guard is not None and body.edge_dominates((guard[0], guard[1]), b.idx)
            if ok:
                # same offsets vector handed to new()
                ao = origins(body, [b.term.args[1].place[0]], through_calls=True)
                go = origins(body, [guard[2].args[0].place[0]], through_calls=True)
                ok = any(f[-1] == 'offsets' for f in ao.fields) and bool({l for l in ao.locals} & {l for l in go.locals})
            rep.ob('R08.2', ok, 'R08.2|%s|new-after-is_empty' % body.nkey, 'BlocksToFileReader::new only after offsets.is_empty() was excluded' if ok else
                   'BlocksToFileReader::new(offsets) is reachable with an empty offsets list: offsets[0] panics on a crafted footer', body.loc(b.idx))

    # ---------------- R08.4 a loop around a raw read distinguishes the end of input
    # (termination itself is not decided; this is the necessary part: a loop that calls Read::read and never compares the count with 0 spins
    # forever once the source is exhausted -- e.g. a hand-written copy loop driven by a length announced by the archive)
    from .c13 import ok_payload_locals
    nloop = 0
    for body in sorted(scope, key=lambda b: b.nkey):
        if body.pkg not in ('mla', 'mlar', 'mla-bindings-c', 'curve25519-parser'):
            continue
        loops = body.loop_blocks()
        cnt = collections.Counter()
        for b in body.calls():
            t = b.term
            if t.ctrait != 'std::io::Read' or t.cmethod != 'read' or b.idx not in loops:
                continue
            # the strongly connected part of the CFG around the read
            fwd = body.reachable(b.idx)
            scc = {x for x in fwd if b.idx in body.reachable(x)}
            if b.idx not in scc or len(scc) < 2:
                continue
            nloop += 1
            rep.fn(body)
            pay = ok_payload_locals(body, b)
            tested = False
            for bl in body.blocks:
                si = switch_info(prog, body, bl.idx)
                if not si:
                    continue
                if si['kind'] == 'bool':
                    e = expr_of(body, si['cond'])
                    if e[0] == 'binop' and e[1] in ('Eq', 'Ne', 'Gt', 'Lt', 'Ge', 'Le'):
                        for x_, y_ in ((e[2], e[3]), (e[3], e[2])):
                            if x_[0] == 'place' and (x_[1][0] in pay or (x_[1][0] == t.dest[0])) and y_[0] == 'const' and y_[1] in (0, 1):
                                tested = True
                elif si['kind'] == 'int' and 0 in si.get('arms', {}):
                    # `match n { 0 => .., _ => .. }` / `match r { Ok(0) => .., Ok(n) => .., Err(e) => .. }`
                    de = expr_of(body, si['discr']) if si.get('discr') is not None else ('unknown',)
                    if de[0] == 'place' and (de[1][0] in pay or de[1][0] == t.dest[0]):
                        tested = True
            key = 'R08.4|%s|read-in-loop#%d|zero-count-tested' % (body.nkey, cnt[body.nkey])
            cnt[body.nkey] += 1
            rep.ob('R08.4', tested, key, 'the count returned by read() inside the loop is compared with 0' if tested else
                   'a loop calls Read::read and never tests for a zero count: when the source ends before the loop condition is met (a length announced by the archive '
                   'is larger than what the stream holds) the loop spins forever', body.loc(b.idx))
    rep.floor('R08.4', nloop, 2, 'raw reads inside loops in the reader / repair scope')

    read_buffers_never_empty(prog, rep, scope, 'R08.5')

    # ---------------- R08.3 name length limit dominates the name allocation
    fb = [b for b in mla.bodies if norm(b.defpath) == 'ArchiveFileBlock::from']
    if fb:
        body = fb[0]
        allocs = [b for b in body.calls() if 'vec::from_elem' in cnorm(b.term) or (b.term.cmethod in ('with_capacity', 'resize', 'reserve') and 'Vec' in cnorm(b.term))]
        grows = [b for b in body.calls() if b.term.cmethod in ('read_to_end', 'read_to_string') and b.term.ctrait == 'std::io::Read']
        ok = bool(allocs) or bool(grows)
        cap = prog.crates['mla'].const_int('FILENAME_MAX_SIZE') or 0
        for a in allocs:
            op = a.term.args[0] if a.term.cmethod == 'with_capacity' else a.term.args[1]
            iv = census.refined_interval(prog, body, a.idx, op)
            ok = ok and iv is not None and iv[1] <= cap
        for g in grows:
            # a growing read is bounded when it goes through take(limit) with limit <= FILENAME_MAX_SIZE
            ro = origins(body, [g.term.args[0].place[0]])
            tk = [body.blocks[c] for c in ro.calls if body.blocks[c].term.cmethod == 'take' and body.blocks[c].term.ctrait == 'std::io::Read']
            okg = len(tk) == 1
            if okg:
                iv = census.refined_interval(prog, body, tk[0].idx, tk[0].term.args[1])
                okg = iv is not None and iv[1] <= cap
            ok = ok and okg
        rep.ob('R08.3', ok, 'R08.3|mla::ArchiveFileBlock::from|name-allocation-bounded', 'name buffer bounded by FILENAME_MAX_SIZE' if ok else 'the file-name buffer is allocated from a length that is not bounded by FILENAME_MAX_SIZE', body.loc())


CLIPPY_LINTS = ('arithmetic_side_effects', 'indexing_slicing', 'unwrap_used', 'expect_used', 'panic')


def clippy_superset(rep, verif, repo, rule, packages):
    """Thorough-tier cross-reference: every site reported by clippy's opt-in restriction lints (an independently generated census) in the given
    packages must coincide (file:line) with a site of the MIR census; guards the extractor against silently skipping a construct."""
    import subprocess, time
    t0 = time.time()
    prog = getattr(core, 'DEFAULT_PROG', None) or Program(os.path.join(verif, '.cache', 'facts', 'default'))
    pkg_of = {'mla': 'mla', 'curve25519-parser': 'curve25519-parser', 'mlar': 'mlar', 'mla-bindings-c': 'mla-bindings-c'}
    lines = set()
    for pkg in packages:
        for b in prog.crates[pkg].bodies:
            for s in census.enumerate_sites(prog, b):
                sp = s.term.span
                if sp:
                    lines.add((sp['file'], sp['line']))
    env = dict(os.environ, CARGO_TARGET_DIR=os.path.join(verif, '.cache', 'target-clippy'), CARGO_NET_OFFLINE='true')
    cmd = ['cargo', '+nightly', 'clippy', '--offline', '--message-format=json']
    for pkg in packages:
        cmd += ['-p', pkg]
    cmd += ['--', '--cap-lints', 'warn'] + sum([['-W', 'clippy::' + l] for l in CLIPPY_LINTS], [])
    r = subprocess.run(cmd, cwd=repo, env=env, capture_output=True, text=True)
    n = 0
    un = []
    for l in r.stdout.splitlines():
        try:
            m = json.loads(l)
        except Exception:
            continue
        if m.get('reason') != 'compiler-message':
            continue
        msg = m['message']
        code = (msg.get('code') or {}).get('code', '')
        if code.split('::')[-1] not in CLIPPY_LINTS:
            continue
        prim = [s for s in msg['spans'] if s['is_primary']]
        if not prim:
            continue
        sp = prim[0]
        dirs = {'mla': 'mla/', 'curve25519-parser': 'curve25519-parser/', 'mlar': 'mlar/', 'mla-bindings-c': 'bindings/C/'}
        if not any(sp['file_name'].startswith(dirs[p_]) for p_ in packages):
            continue   # a path dependency linted along the way
        n += 1
        if (sp['file_name'], sp['line_start']) not in lines:
            un.append('%s:%d %s' % (sp['file_name'], sp['line_start'], code))
    ok = r.returncode == 0 and n > 0 and not un
    rep.ob(rule, ok, '%s|clippy-superset|%s' % (rule, '+'.join(packages)), 'all %d clippy restriction-lint sites are present in the MIR census' % n if ok else
           'clippy reports sites the MIR census does not have (extractor gap?): %s (clippy rc=%d, %d sites)' % (un[:8], r.returncode, n), '-')
    return {'clippy_sites': n, 'clippy_unmatched': un, 'clippy_wall_s': round(time.time() - t0, 1),
            'clippy_cmd': ' '.join(cmd)}


def thorough_extra(rep, verif, repo):
    return clippy_superset(rep, verif, repo, 'PANIC.x', ['mla', 'mla-bindings-c', 'mlar'])
