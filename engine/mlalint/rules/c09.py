"""C09 -- writer calls are validated, and a refused call changes nothing (clause level)."""
import json, os
from ..core import *
from ..inline import inlined_body

EXPLANATION = ("Static MIR rules on ArchiveWriter: (R09.1) in every function reachable from start_file / append_file_content / end_file / add_file / "
               "finalize, no refusal site (construction of DuplicateFilename, FilenameTooLong, WrongArchiveWriterState, WrongWriterState, or a call to a "
               "workspace function that may construct one) is CFG-reachable from an effect site (store through / mutating call on state reachable from a "
               "&mut parameter, byte transfer to the destination), using fixpoint summaries (parameters a callee may write through; may-refuse); refusals "
               "proved dead by a recorded invariant are tabled in tables/writer_dead_refusals.json; (R09.2) every effect of the five methods is dominated by a "
               "state test taking the OpenedFiles edge; (R09.3) the count returned by io::copy(take(src, length), dest) in ArchiveFileBlock::dump is "
               "compared with length and the unequal edge returns Err; (R09.4) StreamWriter::write and every call of mlar into the ArchiveWriter propagate the writer's "
               "error (variant-tracked paths); R09.2 also requires every Ok result of the entry points behind the state test and, for per-file methods, the id-membership tests. A caller-side test discharges a callee refusal (D2) only when both measure the same quantity (len() vs chars().count() differ); HashMap::entry is a lookup, consuming the Entry is the effect. (R09.5) on every path of start_file / append_file_content / end_file to a block write, current_id was compared equal to the block's file or is stored (so the next block of another file opens a run and stays readable); (R09.7) the largest name length the block parser accepts (comparisons with FILENAME_MAX_SIZE guarding FilenameTooLong, normalised) is not below the largest the writer side accepts; (R09.6) = R20.7: no adaptor discards an error of the destination, so calls that all returned Ok did write the archive. Equality of the final archive with the one built without the refused calls is runtime and not decided.")
TRUSTED = ['rustc MIR', 'std collections: get/contains/get_mut do not modify the map']
ASSUMPTIONS = ['I/O errors from the destination are not refusals (they may follow effects)']

REFUSALS = {'DuplicateFilename', 'FilenameTooLong', 'WrongArchiveWriterState', 'WrongWriterState'}
PURE_MUT = REF_PASSTHROUGH | {'get_mut', 'iter_mut', 'values_mut', 'as_mut', 'by_ref', 'get', 'contains_key', 'contains', 'is_empty', 'len', 'position', 'iter',
                              'keys', 'values', 'as_ref', 'deref', 'borrow', 'clone', 'fmt', 'to_string', 'eq', 'ne', 'hash', 'first', 'last', 'as_slice', 'finalize_reset_dummy'}
# a map `entry()` is a lookup: nothing changes until the Entry it returns is consumed by insert / or_insert / remove .. (the Entry carries the
# mutable borrow, so a call that takes it by value is an effect on the map)
PURE_MUT = PURE_MUT | {'entry'}


def is_entry(ty):
    return ty.startswith(('std::collections::hash_map::Entry<', 'std::collections::hash_map::VacantEntry<', 'std::collections::hash_map::OccupiedEntry<',
                          'std::collections::btree_map::Entry<', 'std::collections::btree_map::VacantEntry<', 'std::collections::btree_map::OccupiedEntry<'))


TBL = os.path.join(os.path.dirname(os.path.dirname(os.path.dirname(os.path.abspath(__file__)))), 'tables', 'writer_dead_refusals.json')


def param_rooted(body):
    """local -> set of &mut-ish parameter roots it points into"""
    roots = collections.defaultdict(set)
    for p in range(1, body.arg_count + 1):
        ty = body.lty(p)
        if ty.startswith('&mut') or ty.startswith('*mut'):
            roots[p].add(p)
    changed = True
    while changed:
        changed = False
        for b in body.blocks:
            for s in b.stmts:
                if s.kind != 'assign' or s.place[1]:
                    continue
                d = s.place[0]
                rv = s.rv
                src = None
                if rv.r in ('ref', 'rawptr') and rv.place[1] and rv.place[1][0] == ('deref',) and rv.place[0] in roots:
                    src = rv.place[0]
                elif rv.r in ('use', 'cast') and rv.ops[0].place is not None and rv.ops[0].place[0] in roots:
                    pl = rv.ops[0].place
                    # copying a reference (possibly out of an Option/tuple holding it) keeps the root
                    if body.lty(d).startswith(('&', '*', 'std::option::Option<&', '(&')) or not pl[1] or is_entry(body.lty(d)):
                        src = pl[0]
                if src is not None:
                    new = roots[src] - roots[d]
                    if new:
                        roots[d] |= new
                        changed = True
            t = b.term
            if t.kind == 'call' and t.dest is not None and not t.dest[1] and t.cmethod in PURE_MUT | {'as_mut', 'unwrap', 'expect', 'ok_or_else', 'ok_or', 'branch', 'map_err'}:
                dty = body.lty(t.dest[0])
                if '&mut' in dty or '*mut' in dty or is_entry(dty):
                    for a in t.args[:1]:
                        if a.place is not None and a.place[0] in roots:
                            new = roots[a.place[0]] - roots[t.dest[0]]
                            if new:
                                roots[t.dest[0]] |= new
                                changed = True
    return roots


class Summaries:
    def __init__(self, prog, scope):
        self.prog = prog
        self.scope = {b.key: b for b in scope}
        self.eff = {k: set() for k in self.scope}       # params written through
        self.refuse = {k: False for k in self.scope}
        self.roots = {k: param_rooted(b) for k, b in self.scope.items()}
        self.sites = {}
        self._fix()

    def callee_bodies(self, body, t):
        cands, exact = resolve_call(self.prog, body, t)
        return [c for c in cands if c.key in self.scope], cands, exact

    def effect_sites(self, body):
        """list of (bb, si, what, roots)"""
        roots = self.roots[body.key]
        out = []
        for b in body.blocks:
            if b.cleanup:
                continue
            for i, s in enumerate(b.stmts):
                if s.kind in ('assign', 'setdiscr') and s.place[1] and s.place[1][0] == ('deref',) and s.place[0] in roots:
                    out.append((b.idx, i, 'store to %s' % place_str(body, s.place), roots[s.place[0]]))
            t = b.term
            if t.kind != 'call' or 'indirect' in t.callee:
                continue
            inscope, cands, exact = self.callee_bodies(body, t)
            if inscope:
                hit = set()
                for cb in inscope:
                    for j in self.eff[cb.key]:
                        if j - 1 < len(t.args):
                            a = t.args[j - 1]
                            if a.place is not None and a.place[0] in roots:
                                hit |= roots[a.place[0]]
                if hit:
                    out.append((b.idx, 'term', 'call %s' % cnorm(t), hit))
            elif not cands:
                if t.cmethod in PURE_MUT:
                    continue
                hit = set()
                for a, aty in zip(t.args, t.arg_tys):
                    if a.place is not None and a.place[0] in roots and ('&mut' in aty or '*mut' in aty or is_entry(aty)):
                        hit |= roots[a.place[0]]
                if hit:
                    out.append((b.idx, 'term', 'call %s' % (cnorm(t) or t.cmethod), hit))
        return out

    def refusal_sites(self, body):
        out = []
        n = collections.Counter()
        for b in body.blocks:
            if b.cleanup:
                continue
            for i, s in enumerate(b.stmts):
                if s.kind == 'assign' and s.rv.r == 'aggregate' and s.rv.j.get('adt') == 'errors::Error' and s.rv.j.get('variant') in REFUSALS:
                    v = s.rv.j['variant']
                    out.append((b.idx, i, 'refusal:%s#%d' % (v, n[v]), v))
                    n[v] += 1
                if s.kind == 'assign' and s.rv.r == 'aggregate' and s.rv.j.get('agg') == 'closure':
                    cb = self.scope.get(body.pkg + '::' + s.rv.j['closure'])
                    if cb is not None:
                        for (_, _, _, v) in self.refusal_sites(cb):
                            out.append((b.idx, i, 'refusal-in-closure:%s#%d' % (v, n['k:' + v]), v))
                            n['k:' + v] += 1
            t = b.term
            if t.kind == 'call' and 'indirect' not in t.callee:
                inscope, cands, exact = self.callee_bodies(body, t)
                vs = set()
                for cb in inscope:
                    if cb.kind == 'Closure':
                        continue
                    vs |= self.refusal_variants(cb, self.arg_variant(body, t))
                if vs:
                    nm = norm(inscope[0].defpath).rsplit('::', 1)[-1]
                    out.append((b.idx, 'term', 'refusing-call:%s#%d' % (nm, n['c:' + nm]), '+'.join(sorted(vs))))
                    n['c:' + nm] += 1
        return out

    def arg_variant(self, body, t):
        """variant name if the receiver (arg 0) is a reference to a locally built enum aggregate"""
        if not t.args or t.args[0].place is None:
            return None
        e = deref_expr(body, expr_of(body, t.args[0]))
        if e[0] == 'agg' and e[3].j.get('agg') == 'adt':
            return e[3].j.get('variant')
        if e[0] == 'ref':
            d = unique_def(body, e[1][0])
            if d is not None and d[2] == 'assign' and d[3].rv.r == 'aggregate' and d[3].rv.j.get('agg') == 'adt':
                return d[3].rv.j.get('variant')
        return None

    def refusal_variants(self, cb, variant):
        """refusal variants callee cb may produce; when the receiver variant is known, sites under another arm of the switch on *self are dropped"""
        out = set()
        sws = []
        if variant is not None:
            for sbb, si in arm_of_enum_switch(self.prog, cb):
                if norm_place(cb, si['place'])[0] == 1:
                    sws.append((sbb, si))
        for (rb, ri, rname, v) in self.refusal_sites(cb):
            skip = False
            for sbb, si in sws:
                for arm, tgt in list(si['arms'].items()) + [(r, si['otherwise']) for r in si.get('rest', [])]:
                    if arm != variant and tgt != enum_arm_target(si, variant) and cb.edge_dominates((sbb, tgt), rb):
                        skip = True
            if not skip:
                out |= set(v.split('+'))
        return out

    def _fix(self):
        changed = True
        while changed:
            changed = False
            for k, body in self.scope.items():
                e = set()
                for (_, _, _, r) in self.effect_sites(body):
                    e |= r
                if e - self.eff[k]:
                    self.eff[k] |= e
                    changed = True
                r = bool(self.refusal_sites(body))
                if r and not self.refuse[k]:
                    self.refuse[k] = True
                    changed = True


def writer_scope(prog, entries):
    """block-stream writer level: functions entered by exact workspace calls from the entry methods, excluding the layer stack (which is
    the destination: handing it a &mut is a byte transfer) and crypto/helpers"""
    seen = {}
    st = list(entries)
    while st:
        b = st.pop()
        if b.key in seen:
            continue
        seen[b.key] = b
        for blk in b.calls():
            cands, exact = resolve_call(prog, b, blk.term)
            if exact and len(cands) == 1:
                c = cands[0]
                nd = norm(c.defpath)
                if c.pkg == 'mla' and not nd.startswith(('layers::', 'crypto::', 'helpers::', 'errors::', 'config::')) and not c.impl_trait:
                    st.append(c)
        for c in prog.closures_of(b):
            st.append(c)
    return list(seen.values())


def norm_place(body, pl, depth=0):
    """rewrite (*r).proj where r is a local with the unique definition r = &[mut] P  into  P.proj"""
    if depth > 6:
        return pl
    l, projs = pl
    if projs and projs[0] == ('deref',):
        d = unique_def(body, l)
        if d is not None and d[2] == 'assign' and d[3].rv.r in ('ref', 'rawptr'):
            base = d[3].rv.place
            return norm_place(body, (base[0], tuple(base[1]) + tuple(projs[1:])), depth + 1)
        if d is not None and d[2] == 'assign' and d[3].rv.r == 'use' and d[3].rv.ops[0].place is not None and not d[3].rv.ops[0].place[1]:
            return norm_place(body, (d[3].rv.ops[0].place[0], projs), depth + 1)
    return pl


def place_key(body, pl):
    l, projs = norm_place(body, pl)
    return (l, tuple((p[0], p[1]) if p[0] in ('f', 'down') else (p[0],) for p in projs))


def before(body, a, b):
    """site a (bb, si) may execute before site b on some path"""
    (ba, ia), (bb, ib) = a, b
    if ba == bb:
        ka = 10 ** 6 if ia == 'term' else ia
        kb = 10 ** 6 if ib == 'term' else ib
        if ka < kb:
            return True
        # same block later->earlier only through a cycle
        return ba in body.reachable(ba) - {ba} or any(ba in body.reachable(s) for s in body.succs(ba))
    return bb in body.reachable(ba)


def r09_5(prog, rep, RULE='R09.5'):
    """"every sequence whose calls all succeeded ends in a readable archive": the reader finds the blocks of a file through the offsets of its runs, and the
    writer opens a new run whenever the block it is about to write does not follow a block of the same file. That test is `id != self.current_id`, so
    `current_id` must name the file of the block written last: on every path of a writer method to a block write, either `current_id` was just compared
    equal to the block's id or it is stored. (A method that writes a block and leaves `current_id` naming another file makes the *next* block of that
    other file look contiguous: no offset is recorded for it and the file cannot be read back.)"""
    from ..inline import inlined_body
    mla = prog.crates['mla']
    n = 0
    for name in ('start_file', 'append_file_content', 'end_file'):
        bs = [b for b in mla.bodies if b.impl_adt == 'ArchiveWriter' and b.name == name and b.kind != 'Closure']
        if len(bs) != 1:
            rep.ob(RULE, False, RULE + '|anchor|ArchiveWriter::%s' % name, 'method not found')
            continue
        inl = inlined_body(prog, bs[0], skip=('dump',))
        dumps = [b for b in inl.calls() if cnorm(b.term).endswith('ArchiveFileBlock::dump')]
        stores = [bl.idx for bl in inl.blocks if not bl.cleanup for st in bl.stmts if st.kind == 'assign' and place_fields(st.place)[-1:] == ['current_id']]
        eq_edges = []
        for bl in inl.blocks:
            si = switch_info(prog, inl, bl.idx)
            if not si or si['kind'] != 'bool':
                continue
            e = expr_of(inl, si['cond'])
            if e[0] == 'binop' and e[1] in ('Eq', 'Ne') and any(x[0] == 'place' and place_fields(x[1])[-1:] == ['current_id'] for x in (e[2], e[3])):
                eq_edges.append((bl.idx, si['true'] if e[1] == 'Eq' else si['false']))
                continue
            # `self.current_id != Some(id)`: a PartialEq call on the field itself (not on the result of take() / replace(), which change it)
            r = branch_on_call(prog, inl, bl.idx)
            if r and r[1].cmethod in ('eq', 'ne') and len(r[1].args) == 2:
                for a_ in r[1].args:
                    ea = deref_expr(inl, expr_of(inl, a_))
                    if ea[0] in ('ref', 'place') and place_fields(ea[1])[-1:] == ['current_id']:
                        eq_edges.append((bl.idx, r[2]))
        if not dumps:
            rep.ob(RULE, False, RULE + '|%s|anchor' % bs[0].nkey, 'no block write found in %s' % name, bs[0].loc())
            continue
        rep.fn(bs[0])
        n += 1
        r = reachable_vs(inl, 0, removed_blocks=stores, removed_edges=eq_edges)
        bad = [inl.loc(d.idx) for d in dumps if d.idx in r]
        rep.ob(RULE, not bad, RULE + '|%s|current_id-names-the-file-of-the-block-written' % bs[0].nkey,
               'every block write follows `current_id == id` or a store to current_id' if not bad else
               'a block is written (%s) on a path that neither found `current_id` equal to the block\'s file nor updated it: the next block of the file that was current gets '
               'no offset and cannot be read back' % ', '.join(bad), bs[0].loc())
    rep.floor(RULE, n, 3, 'writer methods that write blocks')


def run(prog, rep, tier):
    mla = prog.crates['mla']
    entries = []
    for name in ('start_file', 'append_file_content', 'end_file', 'add_file', 'finalize'):
        b = one_body(prog, rep, 'R09.1', 'mla', adt='ArchiveWriter', name=name)
        if b is not None:
            entries.append(b)
    if len(entries) != 5:
        return
    scope = writer_scope(prog, entries)
    S = Summaries(prog, scope)
    dead = {e['key']: e for e in json.load(open(TBL))['dead_refusals']}
    # ---------------- R09.1
    n_ref = 0
    for body in sorted(scope, key=lambda b: b.nkey):
        refs = S.refusal_sites(body)
        if not refs:
            continue
        effs = S.effect_sites(body)
        rep.fn(body)
        for (rb, ri, rname, rv) in refs:
            n_ref += 1
            key = 'R09.1|%s|%s|after-effect' % (body.nkey, rname)
            prior = [(eb, ei, what) for (eb, ei, what, r) in effs if (eb, ei) != (rb, ri) and before(body, (eb, ei), (rb, ri))]
            if not prior:
                rep.ob('R09.1', True, key, '%s precedes every effect of %s' % (rname, body.name or body.nkey), body.loc(rb, ri))
                continue
            why = discharge(prog, S, body, (rb, ri, rname, rv), effs)
            if why:
                rep.ob('R09.1', True, key, 'discharged: ' + why, body.loc(rb, ri), sample='discharged: ' + why)
                continue
            if key in dead:
                rep.ob('R09.1', True, key, 'tabled dead refusal: %s' % dead[key]['reason'], body.loc(rb, ri), sample='tabled: ' + dead[key]['reason'])
                continue
            rep.ob('R09.1', False, key, '%s in %s can be reached after the call already had an effect (%s): the refused call does not leave the archive unchanged' %
                   (rname, body.nkey, '; '.join('%s at %s' % (w, body.loc(eb, ei)) for eb, ei, w in prior[:4])), body.loc(rb, ri))
    rep.floor('R09.1', n_ref, 12, 'refusal sites in the writer call tree')
    stale = [k for k in dead if not any(k == 'R09.1|%s|%s|after-effect' % (b.nkey, r[2]) for b in scope for r in S.refusal_sites(b))]
    for k in stale:
        rep.note('stale table entry (no such refusal site any more): %s' % k)

    # ---------------- R09.2 state test first
    # (the tests may be a macro, inline code or a private read-only method used with `?`: the entry points are examined with such helpers spliced in;
    #  the helpers that have effects of their own -- mark_continuous_block, extend_file_size, .. -- keep being summarised by S)
    def pure_checker(c):
        return c.key in S.roots and not S.effect_sites(c) and c.lty(0).startswith('std::result::Result<()')
    for body0 in entries:
        if body0.name == 'add_file':
            continue  # delegates to the three others
        body = inlined_body(prog, body0, only=pure_checker)
        effs = S.effect_sites(body)
        oks = [(b.idx, i) for b in body.blocks if not b.cleanup for i, st in enumerate(b.stmts)
               if st.kind == 'assign' and st.place == (0, ()) and st.rv.r == 'aggregate' and st.rv.j.get('variant') == 'Ok']
        # a state test: a switch on the ArchiveWriterState discriminant with a distinct OpenedFiles arm. "Behind the test" is decided in a form that
        # survives the join at the end of a checking helper used with `?`: with the OpenedFiles edge cut, the site is no longer reachable from the
        # entry of the function (paths track the Ok / Err variant through `?`)
        guards = []
        for sbb, si in arm_of_enum_switch(prog, body, adt='ArchiveWriterState'):
            t = enum_arm_target(si, 'OpenedFiles')
            f = enum_arm_target(si, 'Finalized')
            if t is not None and t != f:
                # what stays reachable (tracking Ok / Err through `?`) when the OpenedFiles edge of this test is cut
                guards.append((sbb, t, reachable_vs(body, 0, removed_edges=[(sbb, t)])))

        def behind(bb):
            return any(bb not in g[2] for g in guards)
        bad_ok = [(bb, i) for bb, i in oks if not behind(bb)]
        rep.ob('R09.2', bool(guards) and not bad_ok, 'R09.2|%s|state-test-dominates-success' % body.nkey,
               '%d Ok result(s) all behind the OpenedFiles edge of a state test' % len(oks) if (guards and not bad_ok) else
               '%s can return Ok without having tested the archive state (%s): a call that must be refused is reported as success' % (body.name, ', '.join(body.loc(bb, i) for bb, i in bad_ok[:3])), body.loc())
        bad = [(eb, ei, w) for (eb, ei, w, r) in effs if not behind(eb)]
        rep.ob('R09.2', bool(guards) and not bad, 'R09.2|%s|state-test-dominates-effects' % body.nkey,
               '%d effect site(s) all behind the OpenedFiles edge of a state test' % len(effs) if (guards and not bad) else
               'effects not guarded by the archive-state test: %s' % '; '.join('%s at %s' % (w, body.loc(eb, ei)) for eb, ei, w in bad[:4]), body.loc())
    # per-file methods test id membership before any effect
    for body0 in entries:
        if body0.name not in ('append_file_content', 'end_file'):
            continue
        body = inlined_body(prog, body0, only=pure_checker)
        effs = S.effect_sites(body)
        tests = []
        for bl in body.blocks:
            r = branch_on_call(prog, body, bl.idx)
            if r and r[1].cmethod in ('contains', 'contains_key'):
                tests.append((bl.idx, r[2], reachable_vs(body, 0, removed_edges=[(bl.idx, r[2])])))

        def behind2(bb):
            return sum(1 for g in tests if bb not in g[2]) >= 2
        oks = [(b.idx, i) for b in body.blocks if not b.cleanup for i, st in enumerate(b.stmts)
               if st.kind == 'assign' and st.place == (0, ()) and st.rv.r == 'aggregate' and st.rv.j.get('variant') == 'Ok']
        bad_ok = [(bb, i) for bb, i in oks if not behind2(bb)]
        rep.ob('R09.2', len(tests) >= 2 and not bad_ok, 'R09.2|%s|id-membership-dominates-success' % body.nkey,
               'every Ok result behind ids.contains(id) && hashes.contains_key(id)' if (len(tests) >= 2 and not bad_ok) else
               '%s can return Ok for an id that is not an open file (%s)' % (body.name, ', '.join(body.loc(bb, i) for bb, i in bad_ok[:3])), body.loc())
        bad = [(eb, ei, w) for (eb, ei, w, r) in effs if not behind2(eb)]
        rep.ob('R09.2', len(tests) >= 2 and not bad, 'R09.2|%s|id-membership-dominates-effects' % body.nkey,
               'effects behind ids.contains(id) && hashes.contains_key(id)' if (len(tests) >= 2 and not bad) else 'effects not guarded by the open-file membership tests', body.loc())

    # ---------------- R09.3 announced length is the copied length
    dump = one_body(prog, rep, 'R09.3', 'mla', exact='ArchiveFileBlock::dump')
    if dump is not None:
        dump = inlined_body(prog, dump)   # the bounded copy and its length test may live in a private helper
        copies = [b for b in dump.calls() if cnorm(b.term) == 'std::io::copy']
        rep.floor('R09.3', len(copies), 1, 'io::copy calls in ArchiveFileBlock::dump')
        for c in copies:
            key = 'R09.3|%s|copied-count-compared-with-length' % dump.nkey
            res = c.term.dest[0]
            flow = forward_locals(dump, [res], through_calls=True)
            ok = False
            for bl in dump.blocks:
                si = switch_info(prog, dump, bl.idx)
                if not si or si['kind'] != 'bool' or not dump.dominates(c.idx, bl.idx):
                    continue
                e = expr_of(dump, si['cond'])
                if e[0] == 'binop' and e[1] in ('Eq', 'Ne', 'Lt', 'Gt', 'Le', 'Ge'):
                    sides = []
                    for x in (e[2], e[3]):
                        if x[0] == 'place':
                            l = x[1][0]
                            if l in flow:
                                sides.append('count')
                            else:
                                o = origins(dump, [l])
                                sides.append('length' if any(f[-1] == 'length' for f in o.fields) else '?')
                        else:
                            sides.append('?')
                    short_true = (e[1] == 'Ne') or (e[1] == 'Lt' and sides == ['count', 'length']) or (e[1] == 'Gt' and sides == ['length', 'count'])
                    short_false = (e[1] == 'Eq') or (e[1] == 'Ge' and sides == ['count', 'length']) or (e[1] == 'Le' and sides == ['length', 'count'])
                    if sorted(sides) == ['count', 'length'] and (short_true or short_false):
                        # the edge taken when fewer bytes than announced were copied must return Err
                        mism = si['true'] if short_true else si['false']
                        r = reachable_vs(dump, mism)     # follows the Err of a helper through `?` to the error return only
                        errs = [b2 for b2 in r for s in dump.blocks[b2].stmts if s.kind == 'assign' and s.rv.r == 'aggregate' and s.rv.j.get('variant') == 'Err' and 'Result' in (s.rv.j.get('adt') or '')] + \
                               [b2 for b2 in r if dump.blocks[b2].term.kind == 'call' and dump.blocks[b2].term.cmethod == 'from_residual']
                        okr = [b2 for b2 in r for s in dump.blocks[b2].stmts if s.kind == 'assign' and s.place == (0, ()) and s.rv.r == 'aggregate' and s.rv.j.get('variant') == 'Ok']
                        if errs and not okr:
                            ok = True
            rep.ob('R09.3', ok, key, 'io::copy count compared with the announced length; mismatch returns Err' if ok else
                   'the number of bytes copied from the source is never compared with the announced length: a source that ends early is reported as success and yields an unreadable archive',
                   dump.loc(c.idx))

    # ---------------- R09.6 "every sequence whose calls all succeeded ends in a readable archive": no adaptor discards an error of the destination (= R20.7)
    from .c20 import discarded_sink_errors
    discarded_sink_errors(prog, rep, 'R09.6')

    # ---------------- R09.5 run bookkeeping: current_id names the file of the block written last
    r09_5(prog, rep)
    r09_7(prog, rep)

    # ---------------- R09.4 refusals surface
    sw = one_body(prog, rep, 'R09.4', 'mla', adt='helpers::StreamWriter', name='write', trait='std::io::Write')
    if sw is not None:
        calls = [b for b in sw.calls() if cnorm(b.term) == 'ArchiveWriter::append_file_content']
        ok = len(calls) == 1
        if ok:
            c = calls[0]
            br = [b for b in sw.calls() if b.term.cmethod == 'branch' and b.term.args[0].place and b.term.args[0].place[0] == c.term.dest[0]]
            ok = len(br) == 1
            if ok:
                si = switch_info(prog, sw, br[0].term.target)
                brk = enum_arm_target(si, 'Break') if si and si['kind'] == 'enum' else None
                r = sw.reachable(brk) if brk is not None else set()
                oks = [b2 for b2 in r for s in sw.blocks[b2].stmts if s.kind == 'assign' and s.place == (0, ()) and s.rv.r == 'aggregate' and s.rv.j.get('variant') == 'Ok']
                ok = brk is not None and not oks and any(sw.blocks[b2].term.kind == 'call' and sw.blocks[b2].term.cmethod == 'from_residual' for b2 in r)
        rep.ob('R09.4', ok, 'R09.4|%s|propagates-append-error' % sw.nkey, 'StreamWriter::write returns the error of append_file_content' if ok else 'StreamWriter::write can swallow a refusal of append_file_content', sw.loc())
    # every call of the CLI into the writer hands a refusal on: with the result known to be Err, no Ok(..) result of the calling function is reachable
    WR = ('ArchiveWriter::add_file', 'ArchiveWriter::start_file', 'ArchiveWriter::append_file_content', 'ArchiveWriter::end_file', 'ArchiveWriter::finalize')
    nsites = 0
    cnt = collections.Counter()
    for af in prog.crates['mlar'].bodies:
        for c in af.calls():
            cn = cnorm(c.term)
            if not cn.endswith(WR) or c.term.dest is None or c.term.dest[1] or c.term.target is None:
                continue
            nsites += 1
            rep.fn(af)
            base = '%s|%s' % (af.nkey, cn.rsplit('::', 1)[-1])
            key = 'R09.4|%s#%d|propagates-writer-error' % (base, cnt[base])
            cnt[base] += 1
            if c.term.dest == (0, ()):
                rep.ob('R09.4', True, key, 'result of %s returned as is' % cn.rsplit('::', 1)[-1], af.loc(c.idx))
                continue
            r = reachable_vs(af, c.term.target, env0={c.term.dest[0]: 'Err'})
            oks = [b2 for b2 in r for s2 in af.blocks[b2].stmts if s2.kind == 'assign' and s2.place == (0, ()) and s2.rv.r == 'aggregate' and s2.rv.j.get('variant') == 'Ok']
            rep.ob('R09.4', not oks, key, 'a refusal of %s is propagated to the caller' % cn.rsplit('::', 1)[-1] if not oks else
                   '%s can return Ok after %s returned an error: the refusal is swallowed by the command line tool' % (af.nkey, cn.rsplit('::', 1)[-1]), af.loc(c.idx))
    rep.floor('R09.4', nsites, 2, 'calls of mlar into the ArchiveWriter')


def guard_of(prog, body, bb):
    """nearest dominating two-way test such that bb is edge-dominated by exactly one of its edges: (switch_bb, taken_target, other_target)"""
    best = None
    for d in sorted(body.doms.get(bb, ()), key=lambda x: -len(body.doms[x])):
        t = body.blocks[d].term
        if t.kind != 'switch' or d == bb:
            continue
        tg = set(t.succs())
        tg = [x for x in tg if body.blocks[x].term.kind != 'unreachable']
        if len(tg) != 2:
            continue
        for x in tg:
            if body.edge_dominates((d, x), bb):
                other = [y for y in tg if y != x][0]
                return (d, x, other)
    return best


def discharge(prog, S, body, ref, effs):
    rb, ri, rname, rv = ref
    r_ = _discharge_d1(prog, body, rb)
    if r_ is None:
        # the dominating test may sit in a private checker (`self.state.ensure_opened()?`): spliced in (block numbers of the function are kept), and the
        # "first test did not take this arm" part decided with the variants of the checker's Result followed
        from ..inline import inlined_body
        ib = inlined_body(prog, body, depth=1)
        if getattr(ib, 'inlined', 0):
            r_ = _discharge_d1(prog, ib, rb, variant_paths=True)
    if r_ is not None:
        return r_
    return _discharge_d2(prog, S, body, ref, effs)


def _discharge_d1(prog, body, rb, variant_paths=False):
    # D1: the refusal sits on an arm that contradicts a dominating test of the same place, with no intervening write of that place
    for sbb, si in arm_of_enum_switch(prog, body):
        for arm in list(si['arms']) + si.get('rest', []):
            tgt = enum_arm_target(si, arm)
            if tgt is None or not body.edge_dominates((sbb, tgt), rb) or sbb == rb and False:
                continue
            pk = place_key(body, si['place'])
            for sbb1, si1 in arm_of_enum_switch(prog, body):
                if sbb1 == sbb or si1['adt'] != si['adt'] or place_key(body, si1['place']) != pk or not body.dominates(sbb1, sbb):
                    continue
                t1 = enum_arm_target(si1, arm)
                others = {enum_arm_target(si1, a) for a in list(si1['arms']) + si1.get('rest', []) if a != arm}
                if t1 in others or t1 is None:
                    continue
                # the second test is reached only when the first did not take `arm`
                if not any(body.edge_dominates((sbb1, o), sbb) for o in others if o is not None):
                    # (path form: taking `arm` at the first test never leads to the second one -- Err(..) -> `?` -> return, variants followed)
                    if not (variant_paths and sbb not in reachable_vs(body, t1)):
                        continue
                # no write to the tested place in between
                between = body.reachable(sbb1) & {b for b in range(len(body.blocks)) if sbb in body.reachable(b)}
                dirty = False
                for b in between:
                    for s_ in body.blocks[b].stmts:
                        if s_.kind in ('assign', 'setdiscr') and s_.place[1] and place_key(body, s_.place)[:1] == pk[:1] and place_key(body, s_.place)[1][:len(pk[1])] == pk[1]:
                            dirty = True
                    t = body.blocks[b].term
                    if t.kind == 'call' and t.cmethod not in PURE_MUT:
                        for a, aty in zip(t.args, t.arg_tys):
                            if a.place is not None and '&mut' in aty:
                                e = expr_of(body, a)
                                if e[0] == 'ref' and place_key(body, e[1])[1][:len(pk[1])] == pk[1] and place_key(body, e[1])[0] == pk[0]:
                                    dirty = True
                if not dirty:
                    return 'arm %s of the test on %s contradicts the dominating test at %s (no write in between)' % (arm, place_str(body, si['place']), body.loc(sbb1))
    return None


def _discharge_d2(prog, S, body, ref, effs):
    rb, ri, rname, rv = ref
    # D2: the same refusal variant was already tested negative, on the same named constant, before any effect
    variants = set(rv.split('+')) if rv else set()
    if rname.startswith('refusing-call') and len(variants) == 1:
        v = list(variants)[0]
        for (rb0, ri0, rname0, rv0) in S.refusal_sites(body):
            if (rb0, ri0) == (rb, ri) or not rname0.startswith('refusal:') or rv0 != v:
                continue
            if any(before(body, (eb, ei), (rb0, ri0)) for (eb, ei, w, r) in effs):
                continue
            g0 = guard_of(prog, body, rb0)
            if g0 is None or not body.edge_dominates((g0[0], g0[2]), rb):
                continue
            c0 = {c.get('def') for c in origins(body, [body.blocks[g0[0]].term.discr.place[0]]).consts if c.get('def')}
            NEUTRAL = {'as_bytes', 'as_str', 'deref', 'as_ref', 'borrow', 'into', 'from', 'try_from', 'try_into', 'clone', 'to_owned', 'as_slice'}

            def measure(b_, sw_blk):
                # how the compared quantity is computed from the name: the methods applied (str::len == as_bytes().len(); chars().count() is another measure)
                o_ = origins(b_, [b_.blocks[sw_blk].term.discr.place[0]])
                return frozenset((b_.blocks[c].term.cmethod or '?') for c in o_.calls) - NEUTRAL
            m0 = measure(body, g0[0])
            # constants tested by the callee's guard of that refusal
            t = body.blocks[rb].term
            cs = set()
            same_measure = True
            for cb in S.callee_bodies(body, t)[0]:
                for (rbb, rii, rn, rvv) in S.refusal_sites(cb):
                    if rvv == v and rn.startswith('refusal:'):
                        g = guard_of(prog, cb, rbb)
                        if g is not None and cb.blocks[g[0]].term.discr.place is not None:
                            cs |= {c.get('def') for c in origins(cb, [cb.blocks[g[0]].term.discr.place[0]]).consts if c.get('def')}
                            if measure(cb, g[0]) != m0:
                                same_measure = False
            if c0 & cs and same_measure:
                return '%s already refused before any effect on the same limit %s (%s)' % (v, sorted(c0 & cs), body.loc(rb0, ri0))
    return None



def r09_7(prog, rep, RULE='R09.7'):
    """"every sequence whose calls all succeeded ends in a readable archive": whatever name length the writer side accepts (start_file, the block writer),
    the block parser accepts too. Every comparison with FILENAME_MAX_SIZE that guards a FilenameTooLong refusal is normalised to the largest accepted
    length; the smallest bound of the reader side (ArchiveFileBlock::from) must not be below the largest bound of the writer side."""
    from ..inline import inlined_body
    mla = prog.crates['mla']
    K = mla.const_int('FILENAME_MAX_SIZE')
    sites = []      # (role, body, bb, accepted maximum)
    for body0 in mla.bodies:
        if body0.kind == 'Closure':
            continue
        role = 'reader' if norm(body0.defpath) == 'ArchiveFileBlock::from' else ('writer' if norm(body0.defpath) in ('ArchiveFileBlock::dump', 'ArchiveWriter::start_file') else None)
        if role is None:
            continue
        body = inlined_body(prog, body0, depth=1)      # the test may sit in a shared private helper
        refusals = [bl.idx for bl in body.blocks if not bl.cleanup for st in bl.stmts
                    if st.kind == 'assign' and st.rv.r == 'aggregate' and st.rv.j.get('variant') == 'FilenameTooLong']
        for bl in body.blocks:
            si = switch_info(prog, body, bl.idx)
            if not si or si['kind'] != 'bool':
                continue
            e = expr_of(body, si['cond'])
            if e[0] != 'binop' or e[1] not in ('Gt', 'Ge', 'Lt', 'Le'):
                continue
            cs = [i for i, x in enumerate((e[2], e[3])) if x[0] == 'const' and ((x[2] or {}).get('def') or '').endswith('FILENAME_MAX_SIZE')]
            if len(cs) != 1:
                continue
            op = e[1] if cs[0] == 1 else {'Gt': 'Lt', 'Ge': 'Le', 'Lt': 'Gt', 'Le': 'Ge'}[e[1]]      # x op K
            t_ref = any(body.edge_dominates((bl.idx, si['true']), r) for r in refusals)
            f_ref = any(body.edge_dominates((bl.idx, si['false']), r) for r in refusals)
            if t_ref == f_ref or K is None:
                continue
            # the set of x that is NOT refused is {x <= m}
            if t_ref:
                m = {'Gt': K, 'Ge': K - 1}.get(op)
            else:
                m = {'Le': K, 'Lt': K - 1}.get(op)
            if m is None:
                continue
            sites.append((role, body0, bl.idx, m))
            rep.fn(body0)
    rd = [x for x in sites if x[0] == 'reader']
    wr = [x for x in sites if x[0] == 'writer']
    rep.floor(RULE + '.reader', len(rd), 1, 'name-length tests of the block parser')
    rep.floor(RULE + '.writer', len(wr), 2, 'name-length tests of the writer side')
    if rd and wr:
        lo = min(x[3] for x in rd)
        hi = max(x[3] for x in wr)
        worst = [x for x in rd if x[3] == lo][0]
        rep.ob(RULE, lo >= hi, RULE + '|mla::ArchiveFileBlock::from|name-length-accepted-by-writer-is-accepted-by-reader',
               'the block parser accepts names up to %d bytes, the writer side up to %d' % (lo, hi) if lo >= hi else
               'the block parser refuses names longer than %d bytes while the writer accepts up to %d: an archive whose calls all succeeded cannot be read back' % (lo, hi),
               worst[1].loc(worst[2]))
