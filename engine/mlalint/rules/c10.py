"""C10 -- random access: results do not depend on what was read before (necessary structural conditions only)."""
import os, subprocess, time
from ..core import *
from ..inline import inlined_body
from .. import census

EXPLANATION = ("(R10.4) sync_inner_with_uncompressed_pos seeks the inner layer absolutely on every successful return. " "Three structural facts that are necessary for history independence (sufficiency is NOT claimed): (R10.1) every operation that reads "
               "through ArchiveReader::src first positions it absolutely: BlocksToFileReader::new seeks to Start(offsets[0]) of the slice it was given, "
               "get_hash to Start(eof_offset) of the looked-up entry, get_file hands in the offsets of the entry looked up by the requested name, "
               "move_to_next_block seeks to Start(offsets[current_offset]) after the increment, the footer readers seek from the end, linear_extract "
               "rewinds; each seek dominates the first read and its error is propagated; (R10.2) seek(Start) of each layer rewrites every "
               "position-dependent field on all Ok paths (compression: state with a decompressor created in the same call, underlayer_pos; encryption: "
               "current_chunk_number, cipher + cache through load_in_cache, cache cursor; raw: inner seek with the header offset); new struct fields are "
               "reported; (R10.3, thorough) compile-fail witnesses: a second get_file/get_hash while an ArchiveFile is alive does not borrow-check. "
               "R10.1 also requires every hash get_hash returns to come from the EndOfFile block parsed in the same call (nothing remembered from earlier operations). (R10.6) BlocksToFileReader::read stores its terminal state (the one whose arm reads nothing) only in the EndOfFile arm of the block just parsed; (R10.5) a reader never turns `0 bytes transferred` into an error unless the request was non-empty: reads with buffers of any size, empty ones included, leave the layer usable. "
               "Equality of the returned bytes along a history is runtime and not decided.")
TRUSTED = ['rustc MIR and borrow checker', 'std::io::Seek semantics of the underlying source']
ASSUMPTIONS = ['the numeric correctness of the position arithmetic is not decided (C11 not applicable)']

FROZEN_FIELDS = {
    'layers::compress::CompressionLayerReader': {'position': {'state', 'underlayer_pos'}, 'other': {'sizes_info': 'set once by initialize(), position independent'}},
    'layers::encrypt::EncryptionLayerInternal': {'position': {'cipher', 'chunk_cache', 'current_chunk_number'}, 'other': {'inner': 'repositioned by inner.seek in the same call', 'key': 'constant per archive', 'nonce': 'constant per archive'}},
    'layers::raw::RawLayerReader': {'position': set(), 'other': {'inner': 'repositioned by inner.seek', 'offset_pos': 'set once by reset_position()'}},
}


def seek_start_calls(body):
    """seek calls whose position argument is SeekFrom::Start{x}: list of (blk, operand x)"""
    out = []
    for b in body.calls():
        t = b.term
        if t.cmethod == 'seek' and t.ctrait == 'std::io::Seek' and len(t.args) >= 2:
            e = expr_of(body, t.args[1])
            if e[0] == 'agg' and e[3].j.get('variant') == 'Start':
                out.append((b, e[3].ops[0]))
    return out


def seek_ok_propagated(prog, body, blk):
    """the Err outcome of the seek leaves the function (via ?)"""
    br = [b for b in body.calls() if b.term.cmethod == 'branch' and b.term.args[0].place and b.term.args[0].place[0] == blk.term.dest[0]]
    if len(br) != 1:
        return None
    si = switch_info(prog, body, br[0].term.target)
    if not si or si['kind'] != 'enum':
        return None
    return enum_arm_target(si, 'Continue'), enum_arm_target(si, 'Break'), br[0].term.target



def r10_2(prog, rep, RULE='R10.2', adts=None):
    # ---------------- R10.2 seek(Start) rewrites position state
    def start_arm(body):
        for sbb, si in arm_of_enum_switch(prog, body, adt='std::io::SeekFrom'):
            t = enum_arm_target(si, 'Start')
            if t is not None and si['place'][0] == 2:
                return sbb, t, si
        return None
    for adt, spec in FROZEN_FIELDS.items():
        if adts is not None and adt not in adts:
            continue
        a = prog.adt(adt, 'mla')
        if a is None:
            rep.ob(RULE, False, RULE + '|anchor|%s' % adt, 'struct not found')
            continue
        fields = {f['name'] for f in a['variants'][0]['fields']}
        known = spec['position'] | set(spec['other'])
        for f in sorted(fields - known):
            rep.note('new field %s.%s: not classified as position-dependent or not (R10.2 field lists are frozen)' % (adt, f))
        missing = known - fields
        rep.ob(RULE, not missing, RULE + '|%s|field-list' % adt, 'field list matches (%s position-dependent)' % sorted(spec['position']) if not missing else 'fields %s no longer exist: re-review the list' % sorted(missing), '-')
        body = one_body(prog, rep, RULE, 'mla', adt=adt, name='seek', trait='std::io::Seek')
        if body is None:
            continue
        from ..inline import inlined_body
        if start_arm(body) is not None:
            plain_arm = start_arm(body)
            # the Start arm may delegate to a private method (`SeekFrom::Start(pos) => self.seek_from_start(pos)`): examine it with that method spliced in
            arm_calls = [b for b in body.calls() if body.edge_dominates((plain_arm[0], plain_arm[1]), b.idx)]
            if not any(s.kind == 'assign' and s.place == (0, ()) and s.rv.r == 'aggregate' and s.rv.j.get('variant') == 'Ok'
                       for b in body.blocks if body.edge_dominates((plain_arm[0], plain_arm[1]), b.idx) for s in b.stmts):
                body = inlined_body(prog, body, depth=1, skip=('load_in_cache', 'sync_inner_with_uncompressed_pos', 'new_decompressor_at'))
        sa = start_arm(body)
        if sa is None:
            rep.ob(RULE, False, RULE + '|%s|start-arm' % body.nkey, 'no SeekFrom::Start arm found', body.loc())
            continue
        sbb, tgt, si = sa
        arm_blocks = {b for b in body.reachable(tgt) if body.edge_dominates((sbb, tgt), b)}
        # (after splicing a helper in, its result local is copied into _0)
        ret_copies = {s.rv.ops[0].place[0] for b in body.blocks if b.idx in arm_blocks for s in b.stmts
                      if s.kind == 'assign' and s.place == (0, ()) and s.rv.r == 'use' and s.rv.ops[0].place is not None and not s.rv.ops[0].place[1]}
        oks = [(b.idx, i) for b in body.blocks if b.idx in arm_blocks and not b.cleanup for i, s in enumerate(b.stmts)
               if s.kind == 'assign' and (s.place == (0, ()) or (not s.place[1] and s.place[0] in ret_copies)) and s.rv.r == 'aggregate' and s.rv.j.get('variant') == 'Ok']
        rep.floor(RULE + '.%s' % adt.rsplit('::', 1)[-1], len(oks), 1, 'Ok results of the Start arm')
        written = collections.defaultdict(list)   # field -> blocks
        # locals that are `self` (the parameter, copies and reborrows of it -- a spliced-in method has its own)
        # greatest fixpoint over the locals of self's type: kept while every definition copies / reborrows another kept local
        selfs = {1} | {l_ for l_ in body.defs if body.lty(l_) == body.lty(1)}
        shrunk = True
        while shrunk:
            shrunk = False
            for l_ in sorted(selfs - {1}):
                for d_ in body.defs.get(l_, []):
                    src_ = None
                    if d_[2] == 'assign' and d_[3].place[1]:
                        continue      # a store through the reference, not a redefinition of it
                    if d_[2] == 'assign' and not d_[3].place[1]:
                        rv_ = d_[3].rv
                        if rv_.r == 'use' and rv_.ops[0].place is not None and not rv_.ops[0].place[1]:
                            src_ = rv_.ops[0].place[0]
                        elif rv_.r == 'ref' and rv_.place is not None and rv_.place[1] == (('deref',),):
                            src_ = rv_.place[0]
                    if src_ not in selfs:
                        selfs.discard(l_)
                        shrunk = True
                        break
        for b in body.blocks:
            if b.idx not in arm_blocks or b.cleanup:
                continue
            for i, s in enumerate(b.stmts):
                if s.kind == 'assign' and s.place[0] in selfs and place_fields(s.place):
                    written[place_fields(s.place)[0]].append(b.idx)
            t = b.term
            if t.kind == 'call':
                for a_, aty in zip(t.args, t.arg_tys):
                    if a_.place is None or '&mut' not in aty:
                        continue
                    e = expr_of(body, a_)
                    if e[0] == 'ref' and e[1][0] in selfs and place_fields(e[1]):
                        written[place_fields(e[1])[0]].append(b.idx)
                    elif a_.place[0] in selfs or (e[0] == 'ref' and e[1][0] in selfs and not place_fields(e[1])):
                        # &mut self handed to a method: rewrites what that method assigns
                        cands, _ = resolve_call(prog, body, t)
                        for c in cands:
                            for cb in c.blocks:
                                for s2 in cb.stmts:
                                    if s2.kind == 'assign' and s2.place[0] == 1 and place_fields(s2.place):
                                        written[place_fields(s2.place)[0]].append(b.idx)
                                if cb.term.kind == 'call':
                                    for a3, aty3 in zip(cb.term.args, cb.term.arg_tys):
                                        e3 = expr_of(c, a3) if a3.place is not None else ('?',)
                                        if '&mut' in aty3 and e3[0] == 'ref' and e3[1][0] == 1 and place_fields(e3[1]):
                                            written[place_fields(e3[1])[0]].append(b.idx)
        def fast_path_ok(obb):
            """an Ok result that skips the rewrite is tolerated only on a path that established (i) equality between a value computed from the
            requested position and a position field of self, and (ii) a second test on another position field (validity of the cached state)"""
            ident = False
            valid = False
            for (e, taken, d) in census.guards_on_path(prog, body, obb):
                neg = False
                while e[0] == 'not':
                    e = e[1]
                    neg = not neg
                if e[0] != 'binop' or e[1] not in ('Eq', 'Ne') or d not in arm_blocks:
                    continue
                holds_eq = (e[1] == 'Eq') == (taken != neg)
                sides = []
                for x in (e[2], e[3]):
                    fl = None
                    while x[0] == 'cast':
                        x = x[1]
                    if x[0] == 'place' and x[1][0] == 1 and place_fields(x[1]):
                        fl = place_fields(x[1])[0]
                    elif x[0] == 'call' and x[2].args and x[2].args[0].place is not None:
                        oo = origins(body, [x[2].args[0].place[0]], through_calls=True)
                        fs = [ff[1] for ff in oo.fields if ff[0] == 'self' and len(ff) > 1]
                        fl = fs[0] if fs else None
                    sides.append(fl)
                fields_here = [x for x in sides if x in spec['position']]
                if not fields_here:
                    continue
                def _uc(x):
                    while x[0] == 'cast':
                        x = x[1]
                    return x
                other = [_uc(x) for x, fl in zip((e[2], e[3]), sides) if fl not in spec['position']]
                if holds_eq and other and other[0][0] != 'const':
                    ident = ident or fields_here[0]
                elif (not holds_eq) and other and other[0][0] == 'const':
                    valid = valid or fields_here[0]
            return bool(ident) and bool(valid) and ident != valid
        for f in sorted(spec['position']):
            okw = all(any(body.dominates(wb, obb) for wb in written.get(f, [])) or fast_path_ok(obb) for obb, _ in oks) and bool(oks)
            rep.ob(RULE, okw, RULE + '|%s|Start-rewrites|%s' % (body.nkey, f), 'seek(Start) rewrites %s before returning Ok' % f if okw else
                   'seek(Start) can return Ok without rewriting the position-dependent field %s: the next read continues from a stale state' % f, body.loc(tgt))
        # the inner source is repositioned
        inner_seek = [b for b in body.calls() if b.idx in arm_blocks and b.term.cmethod == 'seek' and b.term.ctrait == 'std::io::Seek' and cnorm(b.term) != norm(body.defpath)] + \
                     [b for b in body.calls() if b.idx in arm_blocks and b.term.cmethod == 'sync_inner_with_uncompressed_pos']
        oki = bool(inner_seek) and all(any(body.dominates(b.idx, obb) for b in inner_seek) or fast_path_ok(obb) for obb, _ in oks)
        rep.ob(RULE, oki, RULE + '|%s|Start-repositions-inner' % body.nkey, 'the inner reader is repositioned in the same call' if oki else 'seek(Start) does not reposition the inner reader', body.loc(tgt))
    # compression: the decompressor stored is created in the same call
    cs = prog.body('mla', "<layers::compress::CompressionLayerReader<'_, R> as std::io::Seek>::seek")
    if cs is None:
        bs = find_bodies(prog, 'mla', adt='layers::compress::CompressionLayerReader', name='seek', trait='std::io::Seek')
        cs = bs[0] if bs else None
    if cs is not None:
        st = [s for b in cs.blocks if not b.cleanup for s in b.stmts if s.kind == 'assign' and s.rv.r == 'aggregate' and s.rv.j.get('variant') == 'InData'
              and s.rv.j.get('adt') == 'layers::compress::CompressionLayerReaderState']
        ok = len(st) == 1
        if ok:
            dop = st[0].rv.ops[st[0].rv.j['fields'].index('decompressor')]
            o = origins(cs, [dop.place[0]])
            ok = any(cs.blocks[c].term.cmethod == 'new_decompressor_at' for c in o.calls)
        rep.ob(RULE, ok, RULE + '|%s|fresh-decompressor' % cs.nkey, 'the state stored by seek(Start) holds a decompressor created in the same call' if ok else 'seek(Start) reuses a decompressor from before the seek', cs.loc())

def run(prog, rep, tier):
    mla = prog.crates['mla']
    # ---------------- R10.1
    nb = one_body(prog, rep, 'R10.1', 'mla', exact='BlocksToFileReader::new')
    if nb is not None:
        reads = [b for b in nb.calls() if cnorm(b.term) == 'ArchiveFileBlock::from']
        sk = seek_start_calls(nb)
        ok = len(reads) == 1 and len(sk) == 1
        msg = 'anchors: reads=%d seeks=%d' % (len(reads), len(sk))
        if ok:
            sblk, pos = sk[0]
            e = expr_of(nb, pos)
            okpos = e[0] == 'place' and e[1][0] == 2 and any(p[0] in ('idx', 'cidx') for p in e[1][1])
            if okpos:
                ip = [p for p in e[1][1] if p[0] in ('idx', 'cidx')][0]
                okpos = (ip[0] == 'cidx' and ip[1] == 0) or (ip[0] == 'idx' and const_eval(nb, census._mk_copy((ip[1], ()))) == 0)
            if not okpos and pos.place is not None:
                # `offsets.first()` form: the position is (a copy of) the element first() / get(0) returned for the offsets parameter
                def is_first(k, ob, bb):
                    if k != 'call' or not ob.args or ob.args[0].place is None or 2 not in origins(nb, [ob.args[0].place[0]]).params:
                        return False
                    return ob.cmethod == 'first' or (ob.cmethod == 'get' and len(ob.args) == 2 and const_eval(nb, ob.args[1]) == 0)
                okpos = must_derive(nb, pos.place[0], is_first, extra_transparent=('copied', 'cloned', 'ok_or_else', 'ok_or', 'branch', 'unwrap', 'expect'))
            oksrc = sblk.term.args[0].place is not None and must_derive(nb, sblk.term.args[0].place[0], lambda k, ob, bb: k == 'param' and ob == 1) and \
                reads[0].term.args[0].place is not None and must_derive(nb, reads[0].term.args[0].place[0], lambda k, ob, bb: k == 'param' and ob == 1)
            pr = seek_ok_propagated(prog, nb, sblk)
            okdom = pr is not None and pr[0] is not None and nb.edge_dominates((pr[2], pr[0]), reads[0].idx)
            ok = okpos and oksrc and okdom
            msg = 'seek(Start(offsets[0])) on src succeeds before the FileStart block is parsed from src' if ok else \
                'the file reader does not position the source at offsets[0] before its first read (pos=%s src=%s dominated=%s)' % (okpos, oksrc, okdom)
        rep.ob('R10.1', ok, 'R10.1|%s|seek-before-first-read' % nb.nkey, msg, nb.loc())
    gh = one_body(prog, rep, 'R10.1', 'mla', adt='ArchiveReader', name='get_hash')
    if gh is not None:
        reads = [b for b in gh.calls() if cnorm(b.term) == 'ArchiveFileBlock::from']
        sk = seek_start_calls(gh)
        ok = len(reads) == 1 and len(sk) == 1
        msg = 'anchors: reads=%d seeks=%d' % (len(reads), len(sk))
        if ok:
            sblk, pos = sk[0]
            po = origins(gh, [pos.place[0]]) if pos.place is not None else None
            e = expr_of(gh, pos)
            okpos = e[0] == 'place' and place_fields(e[1])[-1:] == ['eof_offset']
            # the entry comes from files_info.get(filename param)
            gets = [gh.blocks[c].term for c in (po.calls if po else []) if gh.blocks[c].term.cmethod == 'get' and 'HashMap' in gh.blocks[c].term.cdef]
            okent = len(gets) == 1 and gets[0].args[1].place is not None and must_derive(gh, gets[0].args[1].place[0], lambda k, ob, bb: k == 'param' and ob == 2)
            so = origins(gh, [sblk.term.args[0].place[0]], through_calls=False)
            ro = origins(gh, [reads[0].term.args[0].place[0]], through_calls=False)
            oksrc = any(f[-1] == 'src' for f in so.fields) and any(f[-1] == 'src' for f in ro.fields)
            pr = seek_ok_propagated(prog, gh, sblk)
            okdom = pr is not None and pr[0] is not None and gh.edge_dominates((pr[2], pr[0]), reads[0].idx)
            ok = okpos and okent and oksrc and okdom
            msg = 'self.src.seek(Start(entry(filename).eof_offset)) succeeds before the EndOfFile block is parsed' if ok else \
                'get_hash does not seek to the eof_offset of the requested name before reading (pos=%s entry=%s src=%s dominated=%s)' % (okpos, okent, oksrc, okdom)
        rep.ob('R10.1', ok, 'R10.1|%s|seek-before-first-read' % gh.nkey, msg, gh.loc())
        # "asking for hashes gives the same hash as on a fresh reader": the hash handed out is the one of the EndOfFile block parsed in this call, never a value
        # remembered from an earlier operation
        if len(reads) == 1:
            somes = [(bl.idx, i, st) for bl in gh.blocks if not bl.cleanup for i, st in enumerate(bl.stmts)
                     if st.kind == 'assign' and st.rv.r == 'aggregate' and st.rv.j.get('variant') == 'Some' and st.rv.ops and st.rv.ops[0].place is not None
                     and gh.lty(st.rv.ops[0].place[0]).startswith('[u8; 32]') or
                     (st.kind == 'assign' and st.rv.r == 'aggregate' and st.rv.j.get('variant') == 'Some' and st.rv.ops and st.rv.ops[0].place is not None and '[u8; 32]' in gh.lty(st.place[0]))]
            stale = [gh.loc(bb, i) for (bb, i, st) in somes
                     if not must_derive(gh, st.rv.ops[0].place[0], lambda k, ob, b3: k == 'call' and b3 == reads[0].idx, extra_transparent=('branch', 'clone', 'copied'))]
            rep.ob('R10.1', bool(somes) and not stale, 'R10.1|%s|hash-from-the-block-read-in-this-call' % gh.nkey,
                   'every hash returned is taken from the EndOfFile block parsed after the seek' if (somes and not stale) else
                   'get_hash returns a hash that does not come from the EndOfFile block it parses (%s): a value kept from an earlier operation makes the answer depend on what was read before'
                   % (', '.join(stale) or 'no Some(hash) result found'), gh.loc())
    gf = one_body(prog, rep, 'R10.1', 'mla', adt='ArchiveReader', name='get_file')
    if gf is not None:
        news = [b for b in gf.calls() if cnorm(b.term) == 'BlocksToFileReader::new']
        ok = len(news) == 1
        msg = 'BlocksToFileReader::new calls: %d' % len(news)
        if ok:
            t = news[0].term
            oo = origins(gf, [t.args[1].place[0]])
            gets = [gf.blocks[c].term for c in oo.calls if gf.blocks[c].term.cmethod == 'get' and 'HashMap' in gf.blocks[c].term.cdef]
            okent = len(gets) == 1 and any(f[-1] == 'offsets' for f in oo.fields) and \
                must_derive(gf, t.args[1].place[0], lambda k, ob, bb: k == 'call' and ob is gets[0])
            if okent:
                ko = origins(gf, [gets[0].args[1].place[0]], through_calls=True)
                okent = 2 in ko.params
            so = origins(gf, [t.args[0].place[0]], through_calls=False)
            oksrc = any(f[-1] == 'src' for f in so.fields)
            # the size reported comes from the same entry
            aggs = [s for b in gf.blocks for s in b.stmts if s.kind == 'assign' and s.rv.r == 'aggregate' and s.rv.j.get('adt') == 'ArchiveFile']
            oksize = len(aggs) == 1
            if oksize:
                a = aggs[0]
                szo = origins(gf, [a.rv.ops[a.rv.j['fields'].index('size')].place[0]])
                oksize = any(f[-1] == 'size' for f in szo.fields) and any(gf.blocks[c].term is gets[0] for c in szo.calls) if gets else False
            ok = okent and oksrc and oksize
            msg = 'reader built on self.src with the offsets (and size) of the entry looked up by the requested name' if ok else \
                'get_file does not use the index entry of the requested name (entry=%s src=%s size=%s)' % (okent, oksrc, oksize)
        rep.ob('R10.1', ok, 'R10.1|%s|entry-of-requested-name' % gf.nkey, msg, gf.loc())
    mv = one_body(prog, rep, 'R10.1', 'mla', exact='BlocksToFileReader::move_to_next_block')
    if mv is not None:
        sk = seek_start_calls(mv)
        stores = [(b.idx, i) for b in mv.blocks for i, s in enumerate(b.stmts) if s.kind == 'assign' and place_fields(s.place)[-1:] == ['current_offset']]
        ok = len(sk) == 1 and len(stores) == 1
        msg = 'anchors seeks=%d stores=%d' % (len(sk), len(stores))
        if ok:
            sblk, pos = sk[0]
            e = expr_of(mv, pos)
            npl = census.norm_place_c(mv, e[1]) if e[0] == 'place' else None
            okpos = npl is not None and 'offsets' in place_fields(npl) and any(p[0] == 'idx' for p in npl[1])
            if okpos:
                ip = [p for p in npl[1] if p[0] == 'idx'][0]
                ie = expr_of(mv, census._mk_copy((ip[1], ())))
                okpos = ie[0] == 'place' and place_fields(ie[1])[-1:] == ['current_offset']
            if not okpos and pos.place is not None:
                # `offsets.get(current_offset)` form: the position is (a copy of) the element that lookup returned
                def is_get(k, ob, bb):
                    if k != 'call' or ob.cmethod != 'get' or len(ob.args) < 2 or ob.args[0].place is None or ob.args[1].place is None:
                        return False
                    co = origins(mv, [ob.args[0].place[0]])
                    ie_ = expr_of(mv, ob.args[1])
                    return any(f[-1] == 'offsets' for f in co.fields) and ie_[0] == 'place' and place_fields(ie_[1])[-1:] == ['current_offset'] and \
                        mv.dominates(stores[0][0], bb)
                okpos = must_derive(mv, pos.place[0], is_get, extra_transparent=('copied', 'cloned', 'ok_or_else', 'ok_or', 'branch', 'unwrap', 'expect'))
            okdom = mv.dominates(stores[0][0], sblk.idx)
            so = origins(mv, [sblk.term.args[0].place[0]], through_calls=False)
            oksrc = any(f[-1] == 'src' for f in so.fields)
            ok = okpos and okdom and oksrc
            msg = 'seek(Start(offsets[current_offset])) on src after the increment' if ok else 'run change does not seek to the next recorded offset (pos=%s after-increment=%s src=%s)' % (okpos, okdom, oksrc)
        rep.ob('R10.1', ok, 'R10.1|%s|seek-to-next-run' % mv.nkey, msg, mv.loc())
    # footer readers position from the end before reading
    for pkgadt, name, exact in ((None, None, 'ArchiveFooter::deserialize_from'), ('layers::compress::CompressionLayerReader', 'initialize', None)):
        body = one_body(prog, rep, 'R10.1', 'mla', exact=exact) if exact else one_body(prog, rep, 'R10.1', 'mla', adt=pkgadt, name=name)
        if body is None:
            continue
        from ..inline import inlined_body
        body = inlined_body(prog, body)      # the `[record][record length]` reader may be a helper shared by the footer and the sizes index
        seeks = [b for b in body.calls() if b.term.cmethod == 'seek' and b.term.ctrait == 'std::io::Seek']
        reads = [b for b in body.calls() if b.term.ctrait in ('byteorder::ReadBytesExt', 'bincode::Options') and b.term.cmethod in ('read_u32', 'deserialize_from')]
        ends = [b for b in seeks if (expr_of(body, b.term.args[1]) or ('?',))[0] == 'agg' and expr_of(body, b.term.args[1])[3].j.get('variant') == 'End']
        starts = [b for b in seeks if (expr_of(body, b.term.args[1]) or ('?',))[0] == 'agg' and expr_of(body, b.term.args[1])[3].j.get('variant') == 'Start']
        ok = len(ends) == 1 and len(starts) == 1 and len(reads) == 2
        if ok:
            r32 = [b for b in reads if b.term.cmethod == 'read_u32'][0]
            des = [b for b in reads if b.term.cmethod == 'deserialize_from'][0]
            ok = body.dominates(ends[0].idx, r32.idx) and body.dominates(starts[0].idx, des.idx) and body.dominates(r32.idx, starts[0].idx)
        rep.ob('R10.1', ok, 'R10.1|%s|footer-located-from-end' % body.nkey, 'seek(End) before the length field, seek(Start) before the table' if ok else 'footer reader does not position the source before reading', body.loc())
    le = prog.body('mla', 'helpers::linear_extract')
    if le is not None:
        rw = [b for b in le.calls() if b.term.cmethod == 'rewind' and b.term.ctrait == 'std::io::Seek']
        fr = [b for b in le.calls() if cnorm(b.term) == 'ArchiveFileBlock::from']
        ok = len(rw) == 1 and len(fr) == 1 and le.dominates(rw[0].idx, fr[0].idx)
        rep.ob('R10.1', ok, 'R10.1|mla::helpers::linear_extract|rewind-before-first-read', 'rewind dominates the block loop' if ok else 'linear_extract does not rewind before reading', le.loc())

    r10_2(prog, rep, 'R10.2')
    r10_4(prog, rep)
    r10_5(prog, rep)
    r10_6(prog, rep)


def thorough_extra(rep, verif, repo):
    """R10.3 compile-fail witnesses (rustdoc compile_fail,E0xxx with compiling twins) -- thorough tier only"""
    from .. import witness
    return witness.run_witnesses(rep, verif, repo, 'R10.3', ('R10_3',))


def r10_4(prog, rep, RULE='R10.4'):
    """the helper that positions the inner layer at a block start does so on every successful return: every Ok result of
    sync_inner_with_uncompressed_pos passes a seek(SeekFrom::Start(..)) of its `inner` parameter (no "it is already there" shortcut: where the inner
    layer stands depends on what was read before)"""
    body = one_body(prog, rep, RULE, 'mla', adt='layers::compress::CompressionLayerReader', name='sync_inner_with_uncompressed_pos')
    if body is None:
        return
    body = inlined_body(prog, body)
    rep.fn(body)
    seeks = []
    for b in body.calls():
        t = b.term
        if t.cmethod == 'seek' and t.ctrait == 'std::io::Seek' and t.args and t.args[0].place is not None:
            o = origins(body, [t.args[0].place[0]], through_calls=False)
            e = expr_of(body, t.args[1]) if len(t.args) > 1 else ('unknown',)
            start = e[0] == 'agg' and e[3].j.get('variant') == 'Start'
            if 2 in o.params and start:
                seeks.append(b.idx)
    oks = [(b.idx, i) for b in body.blocks if not b.cleanup for i, st in enumerate(b.stmts)
           if st.kind == 'assign' and st.place == (0, ()) and st.rv.r == 'aggregate' and st.rv.j.get('variant') == 'Ok']
    r = body.reachable(0, removed_blocks=seeks)
    bad = [body.loc(bb, i) for bb, i in oks if bb in r]
    ok = bool(seeks) and bool(oks) and not bad
    rep.ob(RULE, ok, RULE + '|%s|always-seeks-absolutely' % body.nkey, 'every Ok result follows inner.seek(SeekFrom::Start(block start))' if ok else
           'sync_inner_with_uncompressed_pos can return Ok without seeking the inner layer (%s): the position the next decompressor starts from then depends on what '
           'was read before' % (', '.join(bad) or 'no absolute seek found'), body.loc())


def r10_5(prog, rep, RULE='R10.5'):
    """"reading with buffers of any sizes": a reader never turns "0 bytes transferred" into an error when 0 bytes were asked for. For every raw
    read (in an `impl Read::read` of crate mla) that fills the caller's buffer, an edge taken when the count is 0 and from which no Ok result is
    reachable must lie behind a test that the request was not empty. (An error there also leaves the layer in its placeholder state.)"""
    from .c13 import ok_payload_locals
    mla = prog.crates['mla']
    n = 0
    for body in mla.bodies:
        if body.impl_trait != 'std::io::Read' or body.name != 'read' or body.kind == 'Closure':
            continue
        raws = [b for b in body.calls() if b.term.ctrait == 'std::io::Read' and b.term.cmethod == 'read' and len(b.term.args) > 1 and b.term.args[1].place is not None
                and 2 in origins(body, [b.term.args[1].place[0]]).params]
        for k, rb in enumerate(raws):
            pay = ok_payload_locals(body, rb) | {rb.term.dest[0]}
            for bl in body.blocks:
                si = switch_info(prog, body, bl.idx)
                if not si or si['kind'] != 'bool' or not body.dominates(rb.idx, bl.idx):
                    continue
                e = expr_of(body, si['cond'])
                if not (e[0] == 'binop' and e[1] in ('Eq', 'Ne') and e[3][0] == 'const' and e[3][1] == 0 and e[2][0] == 'place'):
                    continue
                base = e[2][1][0]
                if base not in pay and not must_derive(body, base, lambda k_, ob_, bb_: k_ == 'call' and bb_ == rb.idx, extra_transparent=('branch',)):
                    continue
                zero = si['true'] if e[1] == 'Eq' else si['false']
                r = reachable_vs(body, zero)
                oks = [x for x in r if any(st.kind == 'assign' and st.place == (0, ()) and st.rv.r == 'aggregate' and st.rv.j.get('variant') == 'Ok' for st in body.blocks[x].stmts)]
                tail = [x for x in r if body.blocks[x].term.kind == 'call' and body.blocks[x].term.dest == (0, ()) and body.blocks[x].term.cmethod in ('read', 'map_err')]
                if oks or tail:
                    continue      # zero is (also) reported as Ok(..): end of stream, fine
                n += 1
                # the error edge must be behind "the request is not empty"
                guarded = False
                for g in body.blocks:
                    sg = switch_info(prog, body, g.idx)
                    if sg and sg['kind'] == 'bool':
                        eg = expr_of(body, sg['cond'])
                        if eg[0] == 'binop' and eg[1] in ('Eq', 'Ne', 'Gt') and eg[3][0] == 'const' and eg[3][1] == 0 and eg[2][0] == 'place':
                            og = origins(body, [eg[2][1][0]])
                            if 2 in og.params and any(body.blocks[c].term.cmethod in ('len', 'min') for c in og.calls) and not (og.calls & {rb.idx}):
                                ne = sg['false'] if eg[1] == 'Eq' else sg['true']
                                if body.edge_dominates((g.idx, ne), bl.idx) or body.edge_dominates((g.idx, ne), zero):
                                    guarded = True
                    rg = branch_on_call(prog, body, g.idx)
                    if rg and rg[1].cmethod == 'is_empty' and rg[1].args and rg[1].args[0].place is not None and 2 in origins(body, [rg[1].args[0].place[0]], through_calls=False).params:
                        if body.edge_dominates((g.idx, rg[3]), bl.idx) or body.edge_dominates((g.idx, rg[3]), zero):
                            guarded = True
                rep.fn(body)
                rep.ob(RULE, guarded, RULE + '|%s|raw-read#%d|zero-count-error-needs-nonempty-request' % (body.nkey, k),
                       'a zero count is an error only when bytes were asked for' if guarded else
                       'a read that transferred 0 bytes is turned into an error without checking that the caller asked for any: read(&mut []) fails (and leaves the layer '
                       'unusable) although the same file read alone is fine', body.loc(bl.idx))
    if n == 0:
        rep.ob(RULE, True, RULE + '|mla|no-zero-count-error', 'no reader of crate mla turns a zero count of a caller-buffer read into an error', '-')


def r10_6(prog, rep, RULE='R10.6'):
    """"the bytes delivered do not depend on the buffer sizes used": the per-file reader enters its terminal state (after which every read returns 0) only
    in the EndOfFile arm of the block it has just parsed -- never because one transfer moved 0 bytes, which a zero-length buffer also produces."""
    from ..inline import inlined_body
    bs = [b for b in prog.crates['mla'].bodies if (b.impl_adt or '').endswith('BlocksToFileReader') and b.name == 'read' and b.impl_trait == 'std::io::Read' and b.kind != 'Closure']
    key0 = RULE + '|mla::<BlocksToFileReader as std::io::Read>::read|'
    if len(bs) != 1:
        rep.ob(RULE, False, key0 + 'anchor', 'expected one Read impl of BlocksToFileReader, found %d' % len(bs))
        return
    rep.fn(bs[0])
    body = inlined_body(prog, bs[0], skip=('move_to_next_block',))
    # terminal states: variants of the state enum whose arm in the state switch returns without reading (found from the code: the arm that reaches no read call)
    st_adts = {str(st.rv.j.get('adt')) for bl in body.blocks for st in bl.stmts if st.kind == 'assign' and st.rv.r == 'aggregate' and str(st.rv.j.get('adt', '')).endswith('BlocksToFileReaderState')}
    if len(st_adts) != 1:
        rep.ob(RULE, False, key0 + 'anchor', 'state enum of the per-file reader not found', bs[0].loc())
        return
    st_adt = st_adts.pop()
    terminal = set()
    for sbb, si in arm_of_enum_switch(prog, body, adt=st_adt):
        o = origins(body, [si['place'][0]], through_calls=False)
        if 1 not in o.params:
            continue
        for v, tgt in si['arms'].items():
            r = body.reachable(tgt, removed_blocks=[sbb])
            reads = [b for b in body.calls() if b.idx in r and (b.term.cmethod in ('read', 'read_exact', 'read_to_end') and b.term.ctrait == 'std::io::Read' or cnorm(b.term) == 'ArchiveFileBlock::from')]
            if not reads:
                terminal.add(v)
    if not terminal:
        rep.ob(RULE, False, key0 + 'anchor', 'no terminal state found in the state switch of the per-file reader', bs[0].loc())
        return
    blocksw = [(sbb, si) for sbb, si in arm_of_enum_switch(prog, body, adt='ArchiveFileBlock') if 'EndOfFile' in si['arms']]
    stores = [(bl.idx, i, st.rv.j.get('variant')) for bl in body.blocks if not bl.cleanup for i, st in enumerate(bl.stmts)
              if st.kind == 'assign' and st.rv.r == 'aggregate' and str(st.rv.j.get('adt', '')) == st_adt and st.rv.j.get('variant') in terminal]
    rep.floor(RULE, len(stores), 1, 'stores of a terminal state in BlocksToFileReader::read')
    for k, (bb, i, v) in enumerate(stores):
        ok = any(enum_arm_target(si, 'EndOfFile') is not None and body.edge_dominates((sbb, enum_arm_target(si, 'EndOfFile')), bb) for sbb, si in blocksw)
        if not ok and blocksw:
            # the block is classified by a helper that returns an Option / Result (`None` for the end of the file): decided on paths -- with the
            # EndOfFile edges cut, the store is not reachable when the variants of the values returned and matched are followed
            cut = [(sbb, enum_arm_target(si, 'EndOfFile')) for sbb, si in blocksw if enum_arm_target(si, 'EndOfFile') is not None]
            ok = bool(cut) and bb not in reachable_vs(body, 0, removed_edges=cut)
            if not ok and cut:
                # `let Some(length) = self.next_block()? else { Finish }`: the store sits on the None arm of a switch on an Option, and every `None`
                # that value can be was built in the EndOfFile arm
                for obb, osi in arm_of_enum_switch(prog, body, adt='std::option::Option'):
                    nt = enum_arm_target(osi, 'None')
                    if nt is None or nt == enum_arm_target(osi, 'Some') or not body.edge_dominates((obb, nt), bb):
                        continue
                    oty = body.lty(osi['place'][0])
                    nones = [(abb, a) for (abb, _si, a) in origins(body, [osi['place'][0]]).aggs if a.j.get('variant') == 'None' and a.j.get('adt_args') == oty]
                    if nones and all(any(body.edge_dominates(e, abb) for e in cut) for abb, _a in nones):
                        ok = True
        rep.ob(RULE, ok, key0 + 'terminal-state#%d|only-at-end-of-file-block' % k, 'state %s is entered in the EndOfFile arm of the parsed block' % v if ok else
               'the per-file reader enters its terminal state %s outside the EndOfFile arm of a parsed block: a condition on the bytes moved by one read (0 for an empty '
               'buffer) ends the file early, and what get_file delivers depends on the buffer sizes of the caller' % v, body.loc(bb, i))
