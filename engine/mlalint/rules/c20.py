"""C20 -- the C interface (clause level): null discipline, handle ownership, status mapping, callback adapters."""
from ..core import *
from ..inline import inlined_body

EXPLANATION = ("Static MIR rules on crate mla-bindings-c: (R20.1) in every extern \"C\" function (and raw-pointer helpers they call) each dereference / "
               "Box::from_raw / CStr::from_ptr / slice::from_raw_parts of a raw-pointer parameter, and of every pointer loaded through one, is "
               "edge-dominated by the non-null outcome of is_null on that pointer, and the null outcome cannot reach a Success status; (R20.2) every "
               "Box::from_raw is followed on all normal exits by Box::leak/into_raw of that box unless the caller's handle was nulled before (release "
               "functions); (R20.3) MLAStatus::Success is not reachable from the Err outcome of any fallible library call, results are not dropped; "
               "R20.1 also requires that with the non-null edges of a handle's tests cut no Success status is reachable (no early success above the null tests); R20.3 also requires that no `From<..> for MLAStatus` conversion yields Success and follows map_or_else error functions; "
               "(R20.10) a callback adapter builds no Err of its own before the callback is invoked (failed integer conversions, which leave through `?`, aside); (R20.9) every field of the CallbackOutput registered for a file (write callback, flush callback, context) must-derives from the FileWriter the per-file callback filled (assume_init), not from an argument of the extraction call; (R20.8) no field of the callback adapters is updated from the requested length without the count the callback reported; (R20.7) at every call of a dependency function that discards the io::Error of the writes it issues (brotli CompressorWriter::into_inner), inside a function returning a Result, the writer handed back is asked for the error it recorded on every path to Ok; "
               "(R20.4) the callback adapters return Ok only on callback status 0, with the count the callback reported; (R20.5) extraction registers "
               "only writers initialised by the file callback under its status-0 edge and goes through linear_extract; (R20.6) no BufWriter / LineWriter stands in front of a "
               "caller callback unless every path to Success passes its flush (whose result R20.3 examines). Byte equality with the Rust "
               "interface and misbehaving callbacks are not decided.")
TRUSTED = ['rustc MIR', 'Box::from_raw / Box::leak ownership semantics']
ASSUMPTIONS = ['callbacks respect their contract (count <= offered length)', 'non-null handles were produced by this interface']

PTR_CONSUMERS = {'from_raw', 'from_ptr', 'from_raw_parts', 'from_raw_parts_mut', 'read', 'write', 'as_ref', 'as_mut', 'read_unaligned', 'write_unaligned', 'copy_to', 'copy_from', 'offset', 'add'}
PTR_XFORM = {'cast', 'cast_mut', 'cast_const', 'as_ptr', 'as_mut_ptr'}


def is_rawptr(ty):
    return ty.startswith('*mut') or ty.startswith('*const')


def ptr_closure(body, roots):
    """locals holding the same pointer value as any of roots (copies, casts, .cast())"""
    seen = set(roots)
    changed = True
    while changed:
        changed = False
        for b in body.blocks:
            for s in b.stmts:
                if s.kind == 'assign' and not s.place[1] and s.place[0] not in seen and s.rv.r in ('use', 'cast'):
                    op = s.rv.ops[0]
                    if op.place is not None and not op.place[1] and op.place[0] in seen and is_rawptr(body.lty(s.place[0])):
                        seen.add(s.place[0])
                        changed = True
            t = b.term
            if t.kind == 'call' and t.cmethod in PTR_XFORM and t.args and t.args[0].place is not None and not t.args[0].place[1] \
                    and t.args[0].place[0] in seen and t.dest is not None and not t.dest[1] and t.dest[0] not in seen and is_rawptr(body.lty(t.dest[0])):
                seen.add(t.dest[0])
                changed = True
    return seen


def uses_of_ptr(body, ptrs):
    """(bb, si, what) where a pointer in `ptrs` is dereferenced or handed to a consumer"""
    out = []
    for b in body.blocks:
        if b.cleanup:
            continue
        for i, s in enumerate(b.stmts):
            if s.kind != 'assign':
                continue
            places = [s.place] + s.rv.src_places()
            for pl in places:
                if pl[0] in ptrs and pl[1] and pl[1][0] == ('deref',):
                    out.append((b.idx, i, 'dereference'))
                    break
        t = b.term
        if t.kind == 'call' and t.cmethod in PTR_CONSUMERS:
            if any(a.place is not None and not a.place[1] and a.place[0] in ptrs for a in t.args):
                out.append((b.idx, 'term', t.cmethod))
    return out


def loads_through(body, ptrs):
    """locals assigned `*p` for p in ptrs, of raw pointer type: (local, bb, si)"""
    out = []
    for b in body.blocks:
        if b.cleanup:
            continue
        for i, s in enumerate(b.stmts):
            if s.kind == 'assign' and not s.place[1] and s.rv.r == 'use':
                op = s.rv.ops[0]
                if op.place is not None and op.place[0] in ptrs and op.place[1] == (('deref',),) and is_rawptr(body.lty(s.place[0])):
                    out.append((s.place[0], b.idx, i))
    return out


def null_guards(prog, body, ptrs):
    """list of (switch_bb, nonnull_target, null_target) for is_null tests on a pointer in ptrs"""
    gs = []
    for b in body.blocks:
        r = branch_on_call(prog, body, b.idx)
        if r and r[1].cmethod == 'is_null' and r[1].args and r[1].args[0].place is not None and r[1].args[0].place[0] in ptrs:
            gs.append((b.idx, r[3], r[2]))
    return gs


def success_blocks(body):
    out = []
    for b in body.blocks:
        if b.cleanup:
            continue
        for i, s in enumerate(b.stmts):
            if s.kind == 'assign' and s.rv.r == 'aggregate' and s.rv.j.get('adt') == 'MLAStatus' and s.rv.j.get('variant') == 'Success':
                out.append((b.idx, i))
    return out


ERROR_DISCARDING = {'brotli::CompressorWriter::into_inner': 'brotli 8: `into_inner` runs `flush_or_close(FINISH)` and drops its io::Result (`match .. { Ok(_) => {}, Err(_) => {} }`)'}


def discarded_sink_errors(prog, rep, RULE='R20.7'):
    """"callbacks that report failure return an error status": an error the destination reports is never thrown away by an adaptor standing in front of it.
    Some dependency calls discard the io::Error of the writes they issue (table ERROR_DISCARDING, confirmed by reading the dependency); at each such call
    site inside a function that returns a Result, the writer the call hands back must be asked for the error it saw -- a workspace method returning a Result
    on that value, reached on every path to an Ok result -- and the wrapper's `write` must record it."""
    mla = prog.crates['mla']
    n = 0
    cnt = collections.Counter()
    for body in mla.bodies:
        if body.kind == 'Closure' or not body.lty(0).startswith('std::result::Result<'):
            continue
        for b in body.calls():
            cn = cnorm(b.term)
            if cn not in ERROR_DISCARDING or b.term.dest is None or b.term.target is None:
                continue
            n += 1
            rep.fn(body)
            key = RULE + '|%s|%s#%d|error-examined' % (body.nkey, cn.rsplit('::', 2)[-2] + '::' + cn.rsplit('::', 1)[-1], cnt[body.nkey])
            cnt[body.nkey] += 1
            handed = forward_locals(body, [b.term.dest[0]], through_calls=False)
            checks = []
            for c in body.calls():
                t = c.term
                if c.idx == b.idx or not t.args or t.args[0].place is None or t.args[0].place[0] not in handed or t.dest is None:
                    continue
                cands, exact = resolve_call(prog, body, t)
                if exact and len(cands) == 1 and cands[0].pkg == 'mla' and body.lty(t.dest[0]).startswith('std::result::Result<'):
                    # ... and the method does look at an error the wrapper kept
                    reads_latch = any(st.kind == 'assign' and any(pl is not None and any(p[0] == 'f' and 'std::io::Error' in str(p[4]) for p in pl[1]) for pl in st.rv.src_places())
                                      for bl in cands[0].blocks for st in bl.stmts)
                    if reads_latch:
                        checks.append(c.idx)
            r = reachable_vs(body, b.term.target, removed_blocks=checks)
            oks = [x for x in r if not body.blocks[x].cleanup and any(st.kind == 'assign' and st.place == (0, ()) and st.rv.r == 'aggregate' and st.rv.j.get('variant') == 'Ok'
                                                                       for st in body.blocks[x].stmts)]
            tails = [x for x in r if body.blocks[x].term.kind == 'call' and body.blocks[x].term.dest == (0, ()) and not body.blocks[x].cleanup]
            ok = bool(checks) and not oks and not tails
            rep.ob(RULE, ok, key, 'the writer handed back is asked for the error it recorded before success is reported' if ok else
                   '%s discards the error of the writes it issues (%s) and nothing examines what the destination reported before the function returns Ok: a write callback '
                   'that fails while the compressed stream is being closed goes unnoticed and the archive is short' % (cn, ERROR_DISCARDING[cn].split(':')[0]), body.loc(b.idx))
    rep.floor(RULE, n, 1, 'calls that discard the errors of the writer they own, in functions returning a Result')


def _through_tuples(body, local, is_src, depth=0):
    """must-derive that also looks through a tuple built and taken apart again (`let (Some(a), Some(b)) = (x.a, x.b) else ..`): the value read from
    position k of a tuple local is the operand stored at position k of the aggregate that defines it"""
    if depth > 6:
        return False

    def src(k, ob, bb):
        if is_src(k, ob, bb):
            return True
        if k == 'assign' and ob.kind == 'assign' and ob.rv is not None and ob.rv.r in ('use', 'copy') and ob.rv.ops and ob.rv.ops[0].place is not None:
            base, projs = ob.rv.ops[0].place
            fs = [p for p in projs if p[0] == 'f']
            if fs and body.lty(base).startswith('('):
                ds = [d for d in body.defs.get(base, []) if d[2] == 'assign' and d[3].rv.r == 'aggregate' and d[3].rv.j.get('agg') == 'tuple']
                if len(ds) == 1 and len(body.defs.get(base, [])) == 1 and fs[0][1] < len(ds[0][3].rv.ops):
                    o2 = ds[0][3].rv.ops[fs[0][1]]
                    return o2.place is not None and (must_derive(body, o2.place[0], is_src) or _through_tuples(body, o2.place[0], is_src, depth + 1))
        return False
    return must_derive(body, local, src)


def run(prog, rep, tier):
    c = prog.crates['mla-bindings-c']
    ext = [b for b in c.bodies if b.kind != 'Closure' and (b.abi or '').startswith('C')]
    rep.floor('R20.extern', len(ext), 13, 'extern "C" functions')
    helpers = [b for b in c.bodies if b.kind != 'Closure' and not (b.abi or '').startswith('C') and any(is_rawptr(b.lty(i)) for i in range(1, b.arg_count + 1))]
    # ---------------- R20.1
    def prechecked_by_callers(h, pidx, depth=0):
        sites = []
        for body in c.bodies:
            for b in body.calls():
                if cnorm(b.term) == norm(h.defpath):
                    sites.append((body, b))
        if not sites:
            return False
        for body, b in sites:
            a = b.term.args[pidx - 1]
            if a.place is None:
                return False
            roots = [l for l in origins(body, [a.place[0]], through_calls=False).locals if 1 <= l <= body.arg_count]
            if len(roots) != 1:
                return False
            ptrs = ptr_closure(body, roots)
            if not any(body.edge_dominates((g[0], g[1]), b.idx) for g in null_guards(prog, body, ptrs)):
                # the caller is itself a private helper that receives the pointer already tested by its own callers
                if depth < 3 and body in helpers and prechecked_by_callers(body, roots[0], depth + 1):
                    continue
                return False
        return True

    n_ptr_params = 0
    for body in ext + helpers:
        rep.fn(body)
        succ = success_blocks(body)
        for p in range(1, body.arg_count + 1):
            if not is_rawptr(body.lty(p)):
                continue
            ptrs = ptr_closure(body, [p])
            uses = uses_of_ptr(body, ptrs)
            # a closure that captures the pointer (a `with_handle(h, |w| { .. *ptr .. })` helper form) may use it whenever it runs: its construction counts
            # as a use, so the null test has to come before the closure is even built
            for bl_ in body.blocks:
                if bl_.cleanup:
                    continue
                for si_, st_ in enumerate(bl_.stmts):
                    if st_.kind == 'assign' and st_.rv.r == 'aggregate' and st_.rv.j.get('agg') == 'closure':
                        caps_ = [o_ for o_ in st_.rv.ops if o_.place is not None and (o_.place[0] in ptrs or origins(body, [o_.place[0]], through_calls=False).locals & set(ptrs))]
                        if caps_:
                            uses = list(uses) + [(bl_.idx, si_, 'captured by a closure')]
            loads = loads_through(body, ptrs)
            if not uses and not loads:
                continue
            n_ptr_params += 1
            pname = body.lname(p)
            guards = null_guards(prog, body, ptrs)
            pre = body in helpers and prechecked_by_callers(body, p)
            key = 'R20.1|%s|param:%s|null-checked-before-use' % (body.nkey, pname)
            bad = []
            if not pre:
                for (bb, si, what) in uses:
                    if not any(body.edge_dominates((g[0], g[1]), bb) for g in guards):
                        bad.append('%s at %s' % (what, body.loc(bb, si)))
            rep.ob('R20.1', not bad, key, ('%d use(s) of %s all behind its null test%s' % (len(uses), pname, ' (test in every caller)' if pre else '')) if not bad else
                   'pointer parameter %s used without a dominating null test: %s' % (pname, '; '.join(bad)), body.loc())
            # a handle that is tested at all is tested before any success: with the non-null edges of its tests cut, no Success is reachable from the
            # entry (an early `return Success` placed above the null tests -- e.g. for a zero length -- reports success for a null / released handle)
            if guards and succ and not pre:
                r0 = body.reachable(0, removed_edges=[(g[0], g[1]) for g in guards])
                early = [body.loc(bb, i) for bb, i in succ if bb in r0]
                rep.ob('R20.1', not early, 'R20.1|%s|param:%s|success-only-after-null-test' % (body.nkey, pname),
                       'every Success status lies behind the null test of %s' % pname if not early else
                       'Success can be returned without %s having been tested for null (%s)' % (pname, ', '.join(early[:3])), body.loc())
            # the null edge never reports success
            for g in guards:
                r = body.reachable(g[2])
                leak = [bb for bb, _ in succ if bb in r]
                # any non-constant status assignment reachable from the null edge is suspicious too
                rep.ob('R20.1', not leak, 'R20.1|%s|param:%s|null-edge-not-success' % (body.nkey, pname),
                       'null %s returns an error status' % pname if not leak else 'a null %s can still return Success' % pname, body.loc(g[0]))
            # loaded handles
            for (h, lbb, lsi) in loads:
                hptrs = ptr_closure(body, [h])
                huses = [u for u in uses_of_ptr(body, hptrs)]
                hg = null_guards(prog, body, hptrs)
                hname = body.lname(h)
                hbad = []
                for (bb, si, what) in huses:
                    if not any(body.edge_dominates((g[0], g[1]), bb) for g in hg):
                        hbad.append('%s at %s' % (what, body.loc(bb, si)))
                if huses:
                    rep.ob('R20.1', not hbad, 'R20.1|%s|loaded:%s<-*%s|null-checked-before-use' % (body.nkey, hname, pname),
                           'handle loaded through %s is null-tested before %d use(s)' % (pname, len(huses)) if not hbad else
                           'handle loaded through *%s is used without a null test (%s): the interface itself nulls handles on release, so a second call dereferences null' % (pname, '; '.join(hbad)),
                           body.loc(lbb, lsi))
                for g in hg:
                    r = body.reachable(g[2])
                    leak = [bb for bb, _ in succ if bb in r]
                    rep.ob('R20.1', not leak, 'R20.1|%s|loaded:%s<-*%s|null-edge-not-success' % (body.nkey, hname, pname),
                           'null inner handle returns an error status' if not leak else 'a null inner handle can still return Success', body.loc(g[0]))
        # Option<extern fn> parameters: the None arm returns an error
        for p in range(1, body.arg_count + 1):
            if body.lty(p).startswith('std::option::Option<extern "C" fn') or body.lty(p).startswith('std::option::Option<unsafe extern "C" fn'):
                for sbb, si in arm_of_enum_switch(prog, body, adt='std::option::Option'):
                    if si['place'] == (p, ()):
                        nt = enum_arm_target(si, 'None')
                        r = body.reachable(nt) if nt is not None else set()
                        st = enum_arm_target(si, 'Some')
                        leak = [bb for bb, _ in succ if bb in r] or nt == st
                        rep.ob('R20.1', not leak, 'R20.1|%s|param:%s|missing-callback-is-error' % (body.nkey, body.lname(p)),
                               'missing callback %s returns an error status' % body.lname(p) if not leak else 'a missing callback can still return Success', body.loc(sbb))
    rep.floor('R20.1', n_ptr_params, 18, 'raw-pointer parameters that are dereferenced or converted')

    # ---------------- R20.2 ownership pairing
    n_from_raw = 0
    for body in ext + helpers:
        body = inlined_body(prog, body)      # the null tests / the nulling of the caller's slot may be a shared private helper
        frs = [b for b in body.calls() if cnorm(b.term) == 'std::boxed::Box::from_raw']
        for fr in frs:
            n_from_raw += 1
            B = fr.term.dest[0]
            # release function? : a null store through a pointer parameter dominates this from_raw and the box handle was loaded through it
            nulled = False
            for b in body.blocks:
                for i, s in enumerate(b.stmts):
                    if s.kind == 'assign' and s.place[1] == (('deref',),) and 1 <= min(ptr_root(body, s.place[0]), 999) <= body.arg_count:
                        e = expr_of(body, s.rv.ops[0]) if s.rv.ops else ('unknown',)
                        if e[0] == 'call' and e[2].cmethod in ('null_mut', 'null') and (body.dominates(b.idx, fr.idx) or fr.idx not in reachable_vs(body, 0, removed_blocks=[b.idx])):
                            ho = origins(body, [fr.term.args[0].place[0]], through_calls=True)
                            if ptr_root(body, s.place[0]) in ho.locals:
                                nulled = True
            key = 'R20.2|%s|from_raw:%s|released-or-leaked' % (body.nkey, body.lname(B))
            if nulled:
                rep.ob('R20.2', True, key, 'release function: caller handle nulled before the box is taken; box dropped on exit', body.loc(fr.idx))
                continue
            leaks = [b for b in body.calls() if cnorm(b.term) in ('std::boxed::Box::leak', 'std::boxed::Box::into_raw') and b.term.args[0].place is not None
                     and must_derive(body, b.term.args[0].place[0], lambda k, ob, bb: k == 'call' and bb == fr.idx)]
            start = fr.term.target
            r = reachable_ps(body, start, removed_blocks=[l.idx for l in leaks]) if start is not None else set()
            esc = [x for x in body.return_blocks() if x in r]
            rep.ob('R20.2', bool(leaks) and not esc, key, 'box re-leaked on every normal exit' if (leaks and not esc) else
                   'Box::from_raw(%s) can reach a return without Box::leak: the caller-owned object is freed while the caller keeps its handle' % body.lname(B), body.loc(fr.idx))
    rep.floor('R20.2', n_from_raw, 3, 'Box::from_raw sites')

    # ---------------- R20.3 status mapping
    n_res = 0
    for body in ext + helpers:
        succ = success_blocks(body)
        for b in body.calls():
            t = b.term
            if t.dest is None or t.dest[1] or not body.lty(t.dest[0]).startswith('std::result::Result<'):
                continue
            if t.cmethod in ('map_err', 'branch', 'map', 'ok_or', 'ok_or_else', 'and_then'):
                continue
            n_res += 1
            d = t.dest[0]
            key = 'R20.3|%s|%s|err-not-success' % (body.nkey, t.cmethod)
            # how is the result consumed?
            sw = [(sbb, si) for sbb, si in arm_of_enum_switch(prog, body, adt='std::result::Result') if si['place'][0] == d or d in origins(body, [si['place'][0]], through_calls=False).locals]
            if sw:
                ok = True
                for sbb, si in sw:
                    et = enum_arm_target(si, 'Err')
                    okt = enum_arm_target(si, 'Ok')
                    if et is None or et == okt:
                        ok = False
                        continue
                    r = body.reachable(et)
                    if any(bb in r for bb, _ in succ):
                        ok = False
                rep.ob('R20.3', ok, key, 'Err outcome of %s cannot reach a Success status' % t.cmethod if ok else 'Err outcome of %s can still return Success' % t.cargs, body.loc(b.idx))
                continue
            # consumed by a combinator with a non-success default?
            cons = [x for x in body.calls() if x.term.args and x.term.args[0].place is not None and x.term.args[0].place[0] == d]
            if len(cons) == 1 and cons[0].term.cmethod == 'map_or_else':
                # the Err outcome goes through the first function: a closure without any Success status, or a `From<..> for MLAStatus` conversion
                # (none of which yields Success, checked below as R20.3|..|error-conversion-never-success)
                a1 = cons[0].term.args[1]
                e = expr_of(body, a1)
                ok, how = False, 'the error function of map_or_else could not be resolved'
                if e[0] == 'agg' and e[3].j.get('agg') == 'closure':
                    cb = prog.body(body.pkg, e[3].j['closure'])
                    ok = cb is not None and not success_blocks(cb)
                    how = 'Err outcome mapped by a closure that never yields Success' if ok else 'the closure mapping the Err outcome can yield Success'
                elif (e[0] == 'const' or a1.kind == 'const') and 'MLAStatus as std::convert::From<' in ((a1.k or {}).get('fn_args') or (a1.k or {}).get('txt') or ''):
                    ok, how = True, 'Err outcome mapped by MLAStatus::from'
                rep.ob('R20.3', ok, key, how, body.loc(b.idx))
                continue
            if len(cons) == 1 and cons[0].term.cmethod == 'map_or':
                e = expr_of(body, cons[0].term.args[1])
                ok = e[0] == 'agg' and e[3].j.get('adt') == 'MLAStatus' and e[3].j.get('variant') != 'Success'
                rep.ob('R20.3', ok, key, 'Err outcome mapped to %s by map_or' % (e[3].j.get('variant') if e[0] == 'agg' else '?') if ok else 'map_or default status is Success', body.loc(b.idx))
                continue
            if len(cons) == 1 and cons[0].term.cmethod in ('is_err', 'is_ok'):
                rep.ob('R20.3', True, key, 'result tested with %s' % cons[0].term.cmethod, body.loc(b.idx))
                continue
            rep.ob('R20.3', False, key, 'result of fallible call %s is not examined' % t.cargs, body.loc(b.idx))
        # Success requires at least one dominating check or no fallible call at all: (covered by the per-call rule)
    rep.floor('R20.3', n_res, 10, 'fallible calls in the C entry points')
    # the conversions of an error into a status never produce Success
    nconv = 0
    for cv in prog.crates['mla-bindings-c'].bodies:
        if cv.impl_trait == 'std::convert::From' and cv.name == 'from' and cv.kind != 'Closure' and cv.lty(0) == 'MLAStatus':
            nconv += 1
            rep.fn(cv)
            bad = success_blocks(cv)
            rep.ob('R20.3', not bad, 'R20.3|%s|error-conversion-never-success' % cv.nkey, 'no arm of the conversion yields Success' if not bad else
                   'a conversion from an error to MLAStatus can yield Success (%s)' % cv.loc(bad[0][0]), cv.loc())
    rep.floor('R20.3.conv', nconv, 1, '`From<..> for MLAStatus` conversions')

    # ---------------- R20.4 callback adapters
    # the adapters are found by what they do: every Read::read / Seek::seek / Write::write / Write::flush of the crate that invokes a caller callback
    # (the types may be split or renamed; an impl that only delegates to another adapter has no callback invocation of its own)
    adapter_bodies = []
    for ab_ in c.bodies:
        if ab_.kind == 'Closure' or (ab_.impl_trait, ab_.name) not in (('std::io::Write', 'write'), ('std::io::Write', 'flush'), ('std::io::Read', 'read'), ('std::io::Seek', 'seek')):
            continue
        if any(bl_.term.kind == 'call' and 'indirect' in bl_.term.callee for bl_ in ab_.blocks):
            adapter_bodies.append(ab_)
    rep.floor('R20.4.adapters', len(adapter_bodies), 4, 'callback adapters (Read/Seek/Write impls invoking a callback)')
    for body in adapter_bodies:
        rep.fn(body)
        name = body.name
        body = inlined_body(prog, body)    # the status -> io::Result mapping may be a shared private helper
        ind = [b for b in body.blocks if b.term.kind == 'call' and 'indirect' in b.term.callee]
        key = 'R20.4|%s|ok-only-on-status-0' % body.nkey
        if len(ind) != 1:
            rep.ob('R20.4', False, key, 'expected one callback invocation, found %d' % len(ind), body.loc())
            continue
        cb = ind[0]
        st = cb.term.dest[0]
        # R20.10 "behaves like the Rust interface": the adapter hands every request to the caller's callback -- the only refusals of its own are failed
        # integer conversions (`try_from(..).map_err(..)?`). An explicit Err built before the callback (a request "that makes no sense", e.g. End(0))
        # refuses something the Rust reader accepts from the same source
        early = [(b.idx, i) for b in body.blocks if not b.cleanup and not body.dominates(cb.idx, b.idx) for i, s_ in enumerate(b.stmts)
                 if s_.kind == 'assign' and s_.place == (0, ()) and s_.rv.r == 'aggregate' and s_.rv.j.get('variant') == 'Err']
        rep.ob('R20.10', not early, 'R20.10|%s|no-refusal-before-the-callback' % body.nkey, 'every request reaches the callback (conversion failures aside)' if not early else
               'the adapter refuses a request by itself, before the callback is asked (%s): an operation the Rust interface performs on the same source (e.g. '
               'seek(End(0)) to measure it) fails through the C interface' % ', '.join(body.loc(bb_, i_) for bb_, i_ in early), body.loc(early[0][0], early[0][1]) if early else body.loc())
        all_oks = [(b.idx, i, s) for b in body.blocks if not b.cleanup for i, s in enumerate(b.stmts) if s.kind == 'assign' and s.rv.r == 'aggregate' and s.rv.j.get('variant') == 'Ok' and 'Result' in (s.rv.j.get('adt') or '')]
        oks = [x for x in all_oks if x[2].place == (0, ())]
        sws = [b for b in body.blocks if b.term.kind == 'switch' and b.term.discr.place is not None and not b.cleanup and
               (b.term.discr.place[0] == st or (st in origins(body, [b.term.discr.place[0]], through_calls=False).locals and body.dominates(cb.idx, b.idx)))]
        ok = len(sws) == 1 and bool(all_oks)
        if ok:
            sw = sws[0].term
            zero = [t for v, t in sw.targets if v == 0]
            ok = len(zero) == 1 and zero[0] != sw.otherwise and not [1 for v, t2 in sw.targets if v != 0 and t2 == zero[0]]
            if ok:
                # some Ok result lies behind the status-0 edge, and none is reachable from any other edge of the status test
                rz = body.reachable(zero[0])
                ok = any(bb in rz for bb, _, _ in all_oks)
                for t2 in set([sw.otherwise] + [t for v, t in sw.targets if v != 0]):
                    r = reachable_vs(body, t2)      # follows an Err through `?` to the Break arm only
                    if any(bb in r for bb, _, _ in all_oks):
                        ok = False
        rep.ob('R20.4', ok, key, 'Ok only on callback status 0; any other status becomes an io::Error' if ok else 'adapter can return Ok although the callback reported a failure', body.loc(cb.idx))
        # a callback invoked in a loop (the adapter drains the buffer itself) must be given the part of the buffer not handed over yet: its data pointer
        # depends on the running count
        if name in ('write', 'read') and cb.idx in body.loop_blocks():
            outc = set()
            for a in cb.term.args:
                if a.place is not None and is_rawptr(body.lty(a.place[0])):
                    o = origins(body, [a.place[0]], through_calls=False)
                    outc |= {l for l in o.locals if body.lty(l) in ('u32', 'u64', 'usize')}
            accs = set()
            for bl in body.blocks:
                for st in bl.stmts:
                    if st.kind == 'assign' and st.rv.r == 'binop' and st.rv.j['op'].startswith('Add') and not st.place[1]:
                        ls = [op.place[0] for op in st.rv.ops if op.place is not None]
                        if any(origins(body, [l], through_calls=True).locals & outc for l in ls):
                            accs |= set(ls) | forward_locals(body, [st.place[0]], through_calls=False)
            pa = cb.term.args[0]
            po = origins(body, [pa.place[0]], through_calls=True).locals if pa.place is not None else set()
            adv = bool(po & accs)
            rep.ob('R20.4', adv, 'R20.4|%s|looped-callback-advances' % body.nkey, 'the data pointer handed to the callback advances with the count already transferred' if adv else
                   'the callback is invoked in a loop with a data pointer that does not depend on the count already transferred: after a partial transfer the same bytes '
                   'are handed over again', body.loc(cb.idx))
        if name in ('write', 'read', 'seek') and oks:
            # the Ok payload is the out-parameter the callback filled
            outl = None
            for a in cb.term.args:
                if a.place is not None and is_rawptr(body.lty(a.place[0])):
                    o = origins(body, [a.place[0]], through_calls=False)
                    cand = [l for l in o.locals if body.lty(l) in ('u32', 'u64')]
                    if cand:
                        outl = cand
            good = False
            if outl:
                for bb, i, s in oks:
                    o = origins(body, [s.rv.ops[0].place[0]], through_calls=False) if s.rv.ops and s.rv.ops[0].place else None
                    if o and any(l in o.locals for l in outl):
                        good = True
            rep.ob('R20.4', good, 'R20.4|%s|count-from-callback' % body.nkey, 'returned count/position is the value the callback reported' if good else 'returned count is not the one reported by the callback', body.loc())

    # ---------------- R20.5 extraction through linear_extract with caller writers
    exi = one_body(prog, rep, 'R20.5', 'mla-bindings-c', exact='mla_roarchive_extract_internal')
    if exi is not None:
        le = [b for b in exi.calls() if cnorm(b.term).endswith('helpers::linear_extract')]
        ins = [b for b in exi.calls() if b.term.cmethod == 'insert' and 'HashMap' in b.term.cdef]
        ind = [b for b in exi.blocks if b.term.kind == 'call' and 'indirect' in b.term.callee]
        ok = len(le) == 1 and len(ins) == 1 and len(ind) == 1
        msg = 'anchors linear_extract=%d insert=%d callback=%d' % (len(le), len(ins), len(ind))
        if ok:
            cb = ind[0]
            # insert edge-dominated by (callback() == 0) true edge
            guard = None
            for bl in exi.blocks:
                si = switch_info(prog, exi, bl.idx)
                if si and si['kind'] == 'bool':
                    e = expr_of(exi, si['cond'])
                    if e[0] == 'binop' and e[1] in ('Eq', 'Ne') and ((e[2][0] == 'call' and e[2][1] == cb.idx and e[3][0] == 'const' and e[3][1] == 0) or (e[3][0] == 'call' and e[3][1] == cb.idx and e[2][0] == 'const' and e[2][1] == 0)):
                        guard = (bl.idx, si['true'] if e[1] == 'Eq' else si['false'])   # the edge taken when the callback returned 0
            okg = guard is not None and exi.edge_dominates(guard, ins[0].idx)
            # the inserted CallbackOutput is built from the FileWriter the callback initialised
            vo = origins(exi, [ins[0].term.args[2].place[0]])
            fw_arg = cb.term.args[3]
            fwo = origins(exi, [fw_arg.place[0]]) if fw_arg.place is not None else None
            okw = fwo is not None and any(exi.blocks[x].term.cmethod == 'assume_init' for x in vo.calls) and bool(set(l for l in vo.locals if 'MaybeUninit' in exi.lty(l)) & set(l for l in fwo.locals if 'MaybeUninit' in exi.lty(l)))
            # linear_extract receives that map and the archive opened from the source parameter
            mo = origins(exi, [le[0].term.args[1].place[0]], through_calls=False)
            io_ = origins(exi, [ins[0].term.args[0].place[0]], through_calls=False)
            okm = bool(set(l for l in mo.locals if 'HashMap' in exi.lty(l)) & set(l for l in io_.locals if 'HashMap' in exi.lty(l)))
            ok = okg and okw and okm
            msg = 'writers registered only on callback status 0, built from the FileWriter the callback filled, extracted by linear_extract' if ok else \
                'extraction does not route through the caller-supplied writers as documented (guard=%s writer=%s map=%s)' % (okg, okw, okm)
        rep.ob('R20.5', ok, 'R20.5|%s|extract-via-caller-writers' % exi.nkey, msg, exi.loc())
        # R20.9 "hands each file's exact bytes to the writer the caller supplied for it": every part of the registered writer -- both callbacks *and the
        # context they are called with* -- is the one the per-file callback wrote into its FileWriter, not a value of the extraction call itself
        from ..inline import inlined_body as _inl
        exi0, exi = exi, _inl(prog, exi)      # the writer may be built by a constructor / conversion helper
        aggs = [(bl.idx, i, st) for bl in exi.blocks if not bl.cleanup for i, st in enumerate(bl.stmts)
                if st.kind == 'assign' and st.rv.r == 'aggregate' and strip_generics(str(st.rv.j.get('adt', ''))).endswith('CallbackOutput')]
        is_fw = lambda k, ob, bb: k == 'call' and ob.cmethod in ('assume_init', 'assume_init_read', 'assume_init_ref')
        # a conversion that cannot be spliced (a trait impl: `TryFrom<FileWriter> for CallbackOutput`): judged in two halves -- inside it every field comes
        # from its FileWriter parameter, and extract_internal calls it with the FileWriter the per-file callback filled
        nconv = 0
        if not aggs:
            for hb in prog.crates['mla-bindings-c'].bodies:
                if hb.kind == 'Closure' or hb.key == exi0.key:
                    continue
                haggs = [(bl.idx, i, st) for bl in hb.blocks if not bl.cleanup for i, st in enumerate(bl.stmts)
                         if st.kind == 'assign' and st.rv.r == 'aggregate' and strip_generics(str(st.rv.j.get('adt', ''))).endswith('CallbackOutput')]
                if not haggs:
                    continue
                sites = [cb_ for cb_ in exi.calls() if any(c_.key == hb.key for c_ in resolve_call(prog, exi, cb_.term)[0])]
                if not sites:
                    continue
                nconv += len(haggs)
                is_fwp = lambda k, ob, bb, hb=hb: k == 'param' and 'FileWriter' in hb.lty(ob)
                for (bb, i, st) in haggs:
                    for fname, op in zip(st.rv.j.get('fields') or [], st.rv.ops):
                        why = []
                        okf = op.place is not None and (must_derive(hb, op.place[0], is_fwp, why=why) or _through_tuples(hb, op.place[0], is_fwp))
                        rep.ob('R20.9', okf, 'R20.9|%s|writer-field:%s|from-the-per-file-writer' % (hb.nkey, fname), '`%s` comes from the FileWriter handed to the conversion' % fname if okf else
                               '`%s` of the registered writer is not taken from the FileWriter handed to the conversion (%s)' % (fname, '; '.join(why[:2]) or 'constant'), hb.loc(bb, i))
                for cb_ in sites:
                    oka = any(a.place is not None and must_derive(exi, a.place[0], is_fw) for a in cb_.term.args)
                    rep.ob('R20.9', oka, 'R20.9|%s|conversion-receives-the-per-file-writer' % exi.nkey, 'the conversion is applied to the FileWriter the per-file callback filled' if oka else
                           'the writer conversion is not applied to the FileWriter the per-file callback filled', exi.loc(cb_.idx))
        rep.floor('R20.9', len(aggs) + nconv, 1, 'constructions of CallbackOutput for mla_roarchive_extract_internal')
        for (bb, i, st) in aggs:
            for fname, op in zip(st.rv.j.get('fields') or [], st.rv.ops):
                why = []
                okf = op.place is not None and (must_derive(exi, op.place[0], is_fw, why=why) or _through_tuples(exi, op.place[0], is_fw))
                rep.ob('R20.9', okf, 'R20.9|%s|writer-field:%s|from-the-per-file-writer' % (exi.nkey, fname), '`%s` comes from the FileWriter the per-file callback filled' % fname if okf else
                       '`%s` of the registered writer is not taken from the FileWriter the per-file callback filled (%s): the bytes of a file are handed to another '
                       'destination than the one the caller supplied for it' % (fname, '; '.join(why[:2]) or 'constant'), exi.loc(bb, i))


    # ---------------- R20.8 adapter bookkeeping follows what the callback reported, not what was asked for
    # ("write callbacks that accept any part of each buffer" / read callbacks that deliver part of it: a position or counter kept by the adapter and
    #  advanced by the requested length drifts as soon as a callback transfers less)
    for adt, name, tr in (('CallbackOutput', 'write', 'std::io::Write'), ('CallbackInputRead', 'read', 'std::io::Read')):
        ab = one_body(prog, rep, 'R20.8', 'mla-bindings-c', adt=adt, name=name, trait=tr)
        if ab is None:
            continue
        ind = [b for b in ab.blocks if b.term.kind == 'call' and 'indirect' in b.term.callee]
        outs = set()
        for cb in ind:
            for a_ in cb.term.args:
                if a_.place is not None:
                    e_ = expr_of(ab, a_)
                    if e_[0] in ('ref',) or ab.lty(a_.place[0]).startswith(('*mut', '&mut')):
                        outs |= {l for l in origins(ab, [a_.place[0]], through_calls=False).locals if ab.lty(l) in ('u32', 'u64', 'usize', 'i64')}
        bad = []
        nst = 0
        for bl in ab.blocks:
            if bl.cleanup:
                continue
            for i, st in enumerate(bl.stmts):
                if st.kind != 'assign' or not st.place[1] or st.place[1][0] != ('deref',) or st.place[0] != 1:
                    continue
                nst += 1
                vals = [op.place[0] for op in st.rv.ops if op.place is not None]
                if not vals:
                    continue
                o = origins(ab, vals)
                from_len = any(ab.blocks[c].term.cmethod == 'len' and ab.blocks[c].term.args and ab.blocks[c].term.args[0].place is not None and
                               2 in origins(ab, [ab.blocks[c].term.args[0].place[0]], through_calls=False).params for c in o.calls)
                from_count = bool(o.locals & outs)
                if from_len and not from_count:
                    bad.append('%s at %s' % (place_str(ab, st.place), ab.loc(bl.idx, i)))
        rep.ob('R20.8', not bad, 'R20.8|%s|bookkeeping-follows-reported-count' % ab.nkey,
               'no state of the adapter is advanced by the requested length (%d store(s) examined)' % nst if not bad else
               'the adapter updates %s from the length it asked the callback to transfer, not from the count the callback reported: after a partial transfer the state is wrong' % ', '.join(bad), ab.loc())

    # ---------------- R20.7 no adaptor throws away an error of the destination
    discarded_sink_errors(prog, rep, 'R20.7')

    # ---------------- R20.6 no write is parked in a buffer when the status is computed
    nbuf = 0
    for body in prog.crates['mla-bindings-c'].bodies:
        if body.kind == 'Closure':
            continue
        mk = [b for b in body.calls() if b.term.cmethod in ('new', 'with_capacity') and cnorm(b.term).rsplit('::', 1)[0].rsplit('::', 1)[-1] in ('BufWriter', 'LineWriter')]
        if not mk:
            continue
        succ = success_blocks(body)
        fl = [b.idx for b in body.calls() if b.term.cmethod in ('flush', 'into_inner', 'into_parts') and any(x in cnorm(b.term) + b.term.callee.get('self_ty', '') for x in ('BufWriter', 'LineWriter'))]
        # a flush inside a `for w in map.values_mut()` loop: reaching the loop's iterator step counts (an empty map holds no buffer either)
        loops = body.loop_blocks()
        for f in list(fl):
            if f in loops:
                for nb in body.calls():
                    if nb.term.cmethod == 'next' and nb.term.ctrait == 'std::iter::Iterator' and nb.idx in loops and body.dominates(nb.idx, f) and nb.idx in body.reachable(f):
                        fl.append(nb.idx)
        for c in mk:
            nbuf += 1
            rep.fn(body)
            r = body.reachable(c.term.target, removed_blocks=fl) if c.term.target is not None else set()
            bad = [bb for bb, _ in succ if bb in r]
            rep.ob('R20.6', not bad, 'R20.6|%s|%s|flushed-before-success' % (body.nkey, cnorm(c.term).rsplit('::', 1)[0].rsplit('::', 1)[-1]),
                   'the buffering writer is flushed (result examined by R20.3) on every path to Success' if not bad else
                   'a buffering writer is placed in front of a caller-supplied callback and Success can be returned without flushing it: the bytes still buffered are '
                   'written when the buffer is dropped, where a failure reported by the write callback is discarded', body.loc(c.idx))
    if nbuf == 0:
        rep.ob('R20.6', True, 'R20.6|mla-bindings-c|no-buffering-adapter', 'no BufWriter / LineWriter is constructed in the C interface: every write reaches the callback before the status is computed', '-')


def ptr_root(body, local):
    """parameter local a pointer local is a copy/cast of, else 9999"""
    seen = set()
    cur = [local]
    while cur:
        l = cur.pop()
        if l in seen:
            continue
        seen.add(l)
        if 1 <= l <= body.arg_count:
            return l
        for (bb, si, kind, obj) in body.defs.get(l, []):
            if kind == 'assign' and obj.kind == 'assign' and not obj.place[1] and obj.rv.r in ('use', 'cast') and obj.rv.ops[0].place is not None and not obj.rv.ops[0].place[1]:
                cur.append(obj.rv.ops[0].place[0])
            elif kind == 'call' and obj.cmethod in PTR_XFORM and obj.args and obj.args[0].place is not None:
                cur.append(obj.args[0].place[0])
    return 9999
