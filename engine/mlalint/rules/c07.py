"""C07 -- confidentiality: fresh secrets per archive, no plaintext, recipients only (clause level)."""
from ..core import *

EXPLANATION = ("Static MIR rules: (R07.1) every construction of EncryptionConfig takes key and nonce from Rng::random on a generator that "
               "must-derives from ChaCha20Rng::from_os_rng, and nothing else writes those fields; (R07.2) the csprng handed to "
               "store_key_for_multi_recipients must-derives from from_os_rng, and inside it the ephemeral secret comes from a buffer filled by "
               "fill_bytes on that parameter, the public key and every derive_key call use that same secret; (R07.3) no seeded / deterministic "
               "generator constructor (from_seed, seed_from_u64, from_rng, mock) in crates mla and mla-bindings-c, with the two mlar from_seed "
               "sites as positive control; (R07.4) every byte transfer of EncryptionLayerWriter to its inner writer carries either a buffer on "
               "which AesGcm256::encrypt was called after its last write, or a tag from renew_cipher/into_tag; the writer stack puts the "
               "encryption layer under the ENCRYPT test and only the header is written to the raw destination before; (R07.5) encrypt_parameters "
               "is set only from the Ok(Some(key)) payload of retrieve_key, load_persistent returns Ok only if it is set, and the key loop exits "
               "early only on success; (R07.6) the recipient list only grows; (R07.7) the library never rewrites the caller's layer set: the field is stored only by its setters and library code calls set_layers only with `layers_enabled | X`; (R07.9) the header (one wrapped key per recipient) is deserialised under BINCODE_MAX_DESERIALIZE, the limit of the rest of the format; (R07.10) store_key_for_multi_recipients iterates its whole `recipients` argument (no take / skip / filter / zip between the argument and the loop) and every visit pushes a wrapped key; (R07.8) the key retrieve_key returns is the plaintext of one entry, handed out on the edge where that entry's tag compared equal (decrypt-site rule of R03.1). Decides provenance/shape, not the runtime bytes.")
TRUSTED = ['rustc MIR', 'rand / rand_chacha / getrandom (from_os_rng is OS-seeded)', 'x25519-dalek']
ASSUMPTIONS = ['uniqueness of OS randomness across processes is a property of the OS generator', 'absence of plaintext in the output bytes is not decided (runtime)']

RNG_TRAITS = ('rand::Rng', 'rand::RngCore', 'rand_core::RngCore', 'rand::CryptoRng', 'rand_core::CryptoRng')
SEEDED = {'from_seed', 'seed_from_u64', 'from_rng', 'try_from_rng', 'from_entropy_with'}


def rng_src(seen):
    """is_src callback: accepts ChaCha20Rng::from_os_rng as the origin and RNG self-mutation as neutral"""
    def f(kind, obj, bb):
        if kind == 'call':
            if obj.cmethod == 'from_os_rng' and 'ChaCha20Rng' in obj.callee.get('self_ty', ''):
                seen.append(bb)
                return True
            return False
        if kind == 'mutarg':
            t, ai = obj
            if t.ctrait in RNG_TRAITS:
                return True
            if cnorm(t).endswith('store_key_for_multi_recipients'):
                return True
            return False
        return False
    return f


LOSSLESS_ADAPTERS = ('iter', 'into_iter', 'iter_mut', 'map', 'enumerate', 'copied', 'cloned', 'by_ref', 'deref', 'as_slice', 'as_ref', 'borrow', 'rev', 'peekable',
                     'inspect', 'map_while_ok', 'to_vec', 'clone', 'as_mut', 'deref_mut')


def r07_10(prog, rep):
    """"opened with the private key of any one recipient": store_key_for_multi_recipients wraps the key once for *every* element of its `recipients`
    argument. The sequence it iterates is that argument through adapters that neither drop nor stop early (no take / skip / filter / step_by / zip ..),
    and in the loop form no path from one element to the next misses the push (an error return aside)."""
    sk = one_body(prog, rep, 'R07.10', 'mla', exact='crypto::ecc::store_key_for_multi_recipients')
    if sk is None or sk.kind == 'Closure':
        return
    key = 'R07.10|%s|' % sk.nkey
    rp = [l for l in range(1, sk.arg_count + 1) if 'PublicKey' in sk.lty(l)]
    if len(rp) != 1:
        rep.ob('R07.10', False, key + 'anchor', 'expected one recipients parameter, found %d' % len(rp), sk.loc())
        return
    rp = rp[0]

    def chain_back(op):
        """adapters between `op` and the recipients parameter; (ok, list of adapter names, offending)"""
        names = []
        if op.place is None:
            return False, names, 'constant'
        l = op.place[0]
        for _ in range(64):
            if l == rp:
                return True, names, None
            ds = sk.defs.get(l, [])
            if len(ds) != 1:
                return False, names, 'reaches %s, which has %d definitions' % (sk.lname(l), len(ds))
            (dbb, dsi, dk, dobj) = ds[0]
            if dk == 'call':
                names.append(dobj.cmethod)
                if dobj.cmethod not in LOSSLESS_ADAPTERS:
                    return False, names, '`%s` may leave recipients out' % dobj.cmethod
                if not dobj.args or dobj.args[0].place is None:
                    return False, names, 'adapter without receiver'
                l = dobj.args[0].place[0]
                continue
            if dk == 'assign' and dobj.rv is not None and dobj.rv.r in ('use', 'ref', 'cast', 'rawptr', 'copy_for_deref'):
                pls = dobj.rv.src_places()
                if len(pls) == 1:
                    l = pls[0][0]
                    continue
            return False, names, 'reaches %s, which is not the recipients argument' % sk.lname(l)
        return False, names, 'adapter chain too long'

    nexts = [b for b in sk.calls() if b.term.cmethod == 'next' and b.term.ctrait == 'std::iter::Iterator' and not b.cleanup]
    consumers = [b for b in sk.calls() if b.term.ctrait == 'std::iter::Iterator' and b.term.cmethod in ('collect', 'try_collect', 'for_each', 'try_for_each', 'fold', 'try_fold') and not b.cleanup]
    pushes = [b for b in sk.calls() if b.term.cmethod in ('push', 'extend', 'extend_from_slice') and cnorm(b.term).startswith('std::vec::Vec') and not b.cleanup]
    checked = 0
    for nb in nexts:
        # the iterator of this loop: `next(&mut iter)` with iter = into_iter(..)
        ok, names, bad = chain_back(nb.term.args[0])
        # only loops over the recipients count (a loop over something unrelated is not this rule's business) -- unless there is no other loop
        if not ok and bad and bad.startswith('reaches') and len(nexts) > 1:
            continue
        checked += 1
        rep.ob('R07.10', ok, key + 'every-recipient-visited', 'the loop visits recipients through %s' % (names or ['the slice itself']) if ok else
               'the sequence of recipients that get a wrapped key is not the whole `recipients` argument (%s): an archive written for the recipients left out cannot be opened by them' % bad,
               sk.loc(nb.idx))
        si = switch_info(prog, sk, None) if False else None
        # from the Some arm, the next visit of the loop head passes a push
        loop = sk.loop_blocks()
        in_loop_pushes = [p.idx for p in pushes if p.idx in loop]
        succ = [x for x in sk.reachable(nb.idx, removed_blocks=in_loop_pushes) if x != nb.idx]
        # is the head reachable again without a push?  (walk from the successors of the head)
        again = False
        seen = set()
        todo = [x for x in sk.succs(nb.idx)]
        while todo:
            x = todo.pop()
            if x in seen or x in in_loop_pushes:
                continue
            seen.add(x)
            if x == nb.idx:
                again = True
                break
            todo += list(sk.succs(x))
        okp = bool(in_loop_pushes) and not again
        rep.ob('R07.10', okp, key + 'every-visit-pushes', 'no path from one recipient to the next misses the push of its wrapped key' if okp else
               'a path of the loop goes on to the next recipient without storing a wrapped key for the current one', sk.loc(nb.idx))
    for cb in consumers:
        ok, names, bad = chain_back(cb.term.args[0])
        checked += 1
        rep.ob('R07.10', ok, key + 'every-recipient-visited', '%s over recipients through %s' % (cb.term.cmethod, names) if ok else
               'the sequence of recipients that get a wrapped key is not the whole `recipients` argument (%s): an archive written for the recipients left out cannot be opened by them' % bad,
               sk.loc(cb.idx))
    rep.floor('R07.10', checked, 1, 'iterations over the recipients in store_key_for_multi_recipients')


def r07_7(prog, rep):
    """"no plaintext": the set of enabled layers is the caller's choice. Inside the library nothing rewrites it: the field is stored only by its three setters
    (and constructions), and library code calls `set_layers` only with a value that keeps what was enabled (`layers_enabled | X`), `disable_layer` never with
    ENCRYPT. (A convenience like "setting a compression level implies the compression layer" written with set_layers silently drops ENCRYPT.)"""
    mla = prog.crates['mla']
    OWN = 'config::ArchiveWriterConfig'
    setters = {'enable_layer', 'disable_layer', 'set_layers'}
    defs = [b for b in mla.bodies if b.impl_adt == OWN and b.name in setters and b.kind != 'Closure']
    rep.floor('R07.7', len(defs), 3, 'layer setters of ArchiveWriterConfig')
    n = 0
    for body in mla.bodies:
        # direct stores to the field outside the setters
        if not (body.impl_adt == OWN and body.name in setters):
            for bl in body.blocks:
                if bl.cleanup:
                    continue
                for i, st in enumerate(bl.stmts):
                    if st.kind == 'assign' and st.place[1]:
                        last = st.place[1][-1]
                        if last[0] == 'f' and last[2] == 'layers_enabled' and strip_generics(str(last[3])) == OWN:
                            n += 1
                            rep.ob('R07.7', False, 'R07.7|%s|store:layers_enabled|outside-setters' % body.nkey,
                                   'the enabled-layer set of the writer configuration is overwritten outside enable_layer / disable_layer / set_layers', body.loc(bl.idx, i))
        for b in body.calls():
            cn = cnorm(b.term)
            if cn == OWN + '::set_layers' and len(b.term.args) == 2:
                n += 1
                rep.fn(body)
                a = b.term.args[1]
                keeps = False
                if a.place is not None:
                    o = origins(body, [a.place[0]])
                    reads_old = any(f and f[-1] == 'layers_enabled' for f in o.fields)
                    ops_ = {body.blocks[c].term.cmethod for c in o.calls}
                    keeps = reads_old and ops_ <= {'bitor', 'union', 'clone', 'deref', 'from_bits_retain', 'bits', 'from_bits_truncate'} and bool(ops_ & {'bitor', 'union'})
                rep.ob('R07.7', keeps, 'R07.7|%s|set_layers|keeps-enabled-layers' % body.nkey, 'library call of set_layers keeps the layers already enabled' if keeps else
                       'library code replaces the caller\'s layer set through set_layers(%s): a configuration with ENCRYPT enabled silently loses it and the archive is written in clear'
                       % census_describe(body, a), body.loc(b.idx))
            elif cn == OWN + '::disable_layer' and len(b.term.args) == 2:
                n += 1
                rep.fn(body)
                a = b.term.args[1]
                ok = a.kind == 'const' and (a.k.get('def') or '').endswith('::COMPRESS')
                rep.ob('R07.7', ok, 'R07.7|%s|disable_layer|not-encrypt' % body.nkey, 'library call of disable_layer on the compression layer only' if ok else
                       'library code disables a layer that may be ENCRYPT', body.loc(b.idx))
    if n == 0:
        rep.ob('R07.7', True, 'R07.7|mla|layer-set-only-through-setters', 'no library function rewrites the enabled-layer set of a writer configuration', '-')
    # the setters do what their names say: enable_layer only adds (an `|` of the old set and the argument -- not `^`, which drops ENCRYPT when it is enabled
    # twice), disable_layer only removes (`& !`)
    ADD = {'bitor_assign', 'bitor', 'union', 'insert'}
    DEL = {'bitand_assign', 'bitand', 'remove', 'difference', 'not', 'complement'}
    XOR = {'bitxor', 'bitxor_assign', 'toggle', 'symmetric_difference'}
    for body in defs:
        if body.name not in ('enable_layer', 'disable_layer'):
            continue
        rep.fn(body)
        calls_ = {b.term.cmethod for b in body.calls() if not b.cleanup}
        bins_ = {st.rv.j.get('op') for bl in body.blocks if not bl.cleanup for st in bl.stmts if st.kind == 'assign' and st.rv.r in ('binop', 'unop')}
        adds = bool(calls_ & ADD) or 'BitOr' in bins_
        dels = bool(calls_ & DEL) or 'BitAnd' in bins_ or 'Not' in bins_
        xors = bool(calls_ & XOR) or 'BitXor' in bins_
        ok = (adds and not dels and not xors) if body.name == 'enable_layer' else (dels and not adds and not xors and ('BitAnd' in bins_ or bool(calls_ & {'bitand_assign', 'bitand', 'remove', 'difference'})))
        rep.ob('R07.7', ok, 'R07.7|%s|setter-semantics' % body.nkey, '%s only %s layers' % (body.name, 'adds' if body.name == 'enable_layer' else 'removes') if ok else
               '%s does not compute `old %s layer` (operations: %s): enabling a layer that is already enabled, or a second call, can switch ENCRYPT off and the archive is '
               'written in clear' % (body.name, '| ' if body.name == 'enable_layer' else '& !', ', '.join(sorted((calls_ & (ADD | DEL | XOR)) | {str(x) for x in bins_ if x in ('BitOr', 'BitAnd', 'BitXor', 'Not')})) or 'none'), body.loc())


def census_describe(body, op):
    from .. import census
    try:
        return census.describe(body, op, 1)
    except Exception:
        return '?'


def run(prog, rep, tier):
    mla = prog.crates['mla']
    # ---------------- R07.1 key / nonce provenance
    ECFG = 'layers::encrypt::EncryptionConfig'
    from .c03 import config_constructions
    ctors = [(body, b.idx, b.stmts.index(s), s) for (_b0, body, b, s) in config_constructions(prog)]     # (private helpers spliced in)
    rep.floor('R07.1', len(ctors), 1, 'constructions of EncryptionConfig')
    for body, bb, i, s in ctors:
        rep.fn(body)
        for fld in ('key', 'nonce'):
            key = 'R07.1|%s|EncryptionConfig.%s|provenance' % (body.nkey, fld)
            op = s.rv.ops[s.rv.j['fields'].index(fld)]
            why = []
            rnd = []

            def is_random(kind, obj, b2, rnd=rnd):
                if kind == 'call' and obj.cmethod == 'random' and obj.ctrait == 'rand::Rng':
                    rnd.append((b2, obj))
                    return True
                return False
            ok = op.place is not None and must_derive(body, op.place[0], is_random, why=why) and rnd
            if ok:
                for (b2, t) in rnd:
                    seen = []
                    recv = t.args[0]
                    if not (recv.place is not None and must_derive(body, recv.place[0], rng_src(seen), why=why) and seen):
                        ok = False
                    if 'ChaCha20Rng' not in t.callee.get('self_ty', ''):
                        ok = False
                        why.append('generator type is %s' % t.callee.get('self_ty'))
            rep.ob('R07.1', bool(ok), key, ('%s = Rng::random() on ChaCha20Rng::from_os_rng()' % fld) if ok else
                   '%s of EncryptionConfig does not (only) come from an OS-seeded ChaCha20Rng: %s' % (fld, '; '.join(why) or 'no Rng::random source'), body.loc(bb, i))
    # direct writers of the fields
    for body in mla.bodies:
        for b in body.blocks:
            for i, s in enumerate(b.stmts):
                if s.kind == 'assign' and s.place[1]:
                    last = [p for p in s.place[1] if p[0] == 'f'][-1:]
                    if last and last[0][2] in ('key', 'nonce') and strip_generics(last[0][3]) == ECFG:
                        rep.ob('R07.1', False, 'R07.1|%s|writes|EncryptionConfig.%s' % (body.nkey, last[0][2]),
                               'field %s of EncryptionConfig overwritten outside its constructor' % last[0][2], body.loc(b.idx, i))
    # type level: the fields are private
    adt = prog.adt(ECFG, 'mla')
    priv = adt is not None and all(not f['pub'] for f in adt['variants'][0]['fields'] if f['name'] in ('key', 'nonce'))
    rep.ob('R07.1', bool(priv), 'R07.1|EncryptionConfig|fields-private', 'key and nonce are private fields' if priv else 'key/nonce of EncryptionConfig are public: any caller can set them', '-')

    # ---------------- R07.2 ephemeral secret
    callers = []
    for pkg in prog.crates:
        for body in prog.crates[pkg].bodies:
            for b in body.calls():
                if cnorm(b.term).endswith('crypto::ecc::store_key_for_multi_recipients'):
                    callers.append((body, b))
    rep.floor('R07.2', len(callers), 1, 'callers of store_key_for_multi_recipients')
    for body, b in callers:
        rep.fn(body)
        seen = []
        why = []
        a = b.term.args[2]
        ok = a.place is not None and must_derive(body, a.place[0], rng_src(seen), why=why) and bool(seen)
        rep.ob('R07.2', ok, 'R07.2|%s|csprng-arg' % body.nkey, 'csprng = ChaCha20Rng::from_os_rng()' if ok else 'csprng handed to store_key_for_multi_recipients is not an OS-seeded generator: %s' % '; '.join(why), body.loc(b.idx))
    sk = one_body(prog, rep, 'R07.2', 'mla', exact='crypto::ecc::store_key_for_multi_recipients')
    if sk is not None and sk.kind != 'Closure':
        # ephemeral = StaticSecret::from(bytes) ; bytes filled by fill_bytes(csprng)
        froms = [b for b in sk.calls() if b.term.cmethod == 'from' and 'StaticSecret' in b.term.callee.get('self_ty', '')]
        ok = len(froms) == 1
        msg = ''
        eph = None
        if ok:
            fb = froms[0]
            eph = fb.term.dest[0]
            src = fb.term.args[0]
            base = src.place[0] if src.place else None
            # follow copies
            e = expr_of(sk, src)
            while e[0] == 'place' and not e[1][1] and unique_def(sk, e[1][0]) is None:
                break
            owner = None
            o = origins(sk, [base], through_calls=False)
            owners = [l for l in o.locals if sk.lty(l).startswith('[u8;')]
            fills = []
            for l in owners:
                for (bb2, t, ai) in mutarg_defs(sk).get(l, []):
                    fills.append((l, bb2, t, ai))
            good_fill = [f for f in fills if f[2].cmethod == 'fill_bytes' and f[2].ctrait in RNG_TRAITS and f[3] == 1 and
                         f[2].args[0].place is not None and must_derive(sk, f[2].args[0].place[0], lambda k, ob, b3: k == 'param' and ob == 3)]
            other_fill = [f for f in fills if f not in good_fill]
            ok = bool(good_fill) and not other_fill and all(sk.dominates(f[1], fb.idx) for f in good_fill)
            # other defs of the buffer must be constant initialisers that precede the fill
            for l in owners:
                for (bb2, si, kind, obj) in sk.defs.get(l, []):
                    if kind == 'assign' and obj.rv is not None and obj.rv.r in ('repeat', 'aggregate') and all(x.kind == 'const' for x in obj.rv.ops):
                        if not all(sk.dominates(bb2, f[1]) for f in good_fill):
                            ok = False
                            msg = 'buffer re-initialised after fill_bytes'
                    elif kind == 'assign' and obj.rv is not None and obj.rv.r == 'use' and obj.rv.ops[0].place is not None and obj.rv.ops[0].place[0] in owners:
                        pass
                    else:
                        ok = False
                        msg = 'buffer of the ephemeral secret has another definition at %s' % sk.loc(bb2, si)
            if not good_fill:
                msg = 'ephemeral secret bytes are not filled by fill_bytes on the csprng parameter'
        rep.ob('R07.2', ok, 'R07.2|%s|ephemeral-from-csprng' % sk.nkey, 'ephemeral = StaticSecret::from(bytes filled by csprng.fill_bytes)' if ok else
               'ephemeral secret provenance broken: %s' % (msg or 'StaticSecret::from site not unique'), sk.loc(froms[0].idx) if froms else sk.loc())
        if eph is not None:
            is_eph = lambda k, ob, b3: k == 'call' and b3 == froms[0].idx
            pubs = [b for b in sk.calls() if b.term.cmethod == 'from' and 'PublicKey' in b.term.callee.get('self_ty', '')]
            okp = len(pubs) == 1 and pubs[0].term.args[0].place is not None and must_derive(sk, pubs[0].term.args[0].place[0], is_eph)
            rep.ob('R07.2', okp, 'R07.2|%s|public-from-ephemeral' % sk.nkey, 'public = PublicKey::from(&ephemeral)' if okp else 'stored public key is not computed from the ephemeral secret', sk.loc(pubs[0].idx) if pubs else sk.loc())
            dks = [b for b in sk.calls() if cnorm(b.term).endswith('derive_key')]
            # per-recipient work may sit in a closure (`recipients.iter().map(|key| ..)`) that captures the ephemeral secret
            # (or in a private per-recipient helper called from that closure: spliced in)
            from ..inline import inlined_body as _inl
            cdks = [(c, b) for c in [_inl(prog, c_, depth=1, skip=('derive_key',)) for c_ in prog.closures_of(sk)] for b in c.calls() if cnorm(b.term).endswith('derive_key')]
            rep.floor('R07.2.dk', len(dks) + len(cdks), 1, 'derive_key calls in store_key_for_multi_recipients')
            for c, d in cdks:
                okd = d.term.args[0].place is not None and must_derive_captured(prog, sk, c, d.term.args[0].place[0], is_eph)
                rep.ob('R07.2', okd, 'R07.2|%s|derive_key-uses-ephemeral' % sk.nkey, 'derive_key(&ephemeral, recipient) in a closure capturing the ephemeral secret' if okd else 'derive_key not called with the ephemeral secret', c.loc(d.idx))
            for d in dks:
                okd = d.term.args[0].place is not None and must_derive(sk, d.term.args[0].place[0], is_eph)
                rep.ob('R07.2', okd, 'R07.2|%s|derive_key-uses-ephemeral' % sk.nkey, 'derive_key(&ephemeral, recipient)' if okd else 'derive_key not called with the ephemeral secret', sk.loc(d.idx))
            # the public stored in the result derives from `public`
            aggs = [(b.idx, i, s) for b in sk.blocks for i, s in enumerate(b.stmts) if s.kind == 'assign' and s.rv.r == 'aggregate' and s.rv.j.get('adt') == 'crypto::ecc::MultiRecipientPersistent']
            for (bb2, i, s) in aggs:
                op = s.rv.ops[s.rv.j['fields'].index('public')]
                okr = op.place is not None and pubs and must_derive(sk, op.place[0], lambda k, ob, b3: k == 'call' and b3 == pubs[0].idx, extra_transparent=('as_bytes',))
                rep.ob('R07.2', bool(okr), 'R07.2|%s|header-public' % sk.nkey, 'header public key = public.as_bytes()' if okr else 'header public key does not derive from the ephemeral public key', sk.loc(bb2, i))

    # ---------------- R07.3 no deterministic generator in the library
    lib_sites = []
    ctl_sites = []
    for pkg in prog.crates:
        for body in prog.crates[pkg].bodies:
            for b in body.calls():
                t = b.term
                if (t.ctrait.endswith('SeedableRng') and t.cmethod in SEEDED) or 'rngs::mock' in t.cdef or 'StepRng' in t.cdef:
                    (lib_sites if pkg in ('mla', 'mla-bindings-c') else ctl_sites).append((body, b))
    for body, b in lib_sites:
        rep.ob('R07.3', False, 'R07.3|%s|%s' % (body.nkey, b.term.cmethod), 'deterministic generator constructor %s in library code' % b.term.cargs, body.loc(b.idx))
    if not lib_sites:
        rep.ob('R07.3', True, 'R07.3|mla,mla-bindings-c|no-seeded-rng', 'no from_seed/seed_from_u64/from_rng/mock generator in the library crates', '-')
    ctl = [x for x in ctl_sites if x[0].pkg == 'mlar']
    rep.floor('R07.3.control', len(ctl), 2, 'positive control: from_seed sites in mlar (keygen, keyderive)')
    # every RNG construction in the library is from_os_rng
    rngs = []
    for pkg in ('mla', 'mla-bindings-c'):
        for body in prog.crates[pkg].bodies:
            for b in body.calls():
                if b.term.ctrait.endswith('SeedableRng'):
                    rngs.append((body, b))
    rep.floor('R07.3.os', len(rngs), 2, 'SeedableRng constructor calls in the library')
    for body, b in rngs:
        ok = b.term.cmethod == 'from_os_rng'
        rep.ob('R07.3', ok, 'R07.3|%s|rng-ctor|%s' % (body.nkey, b.term.cmethod), 'generator built with from_os_rng' if ok else 'generator built with %s' % b.term.cmethod, body.loc(b.idx))

    # ---------------- R07.4 every inner transfer is ciphertext or tag
    EW = 'layers::encrypt::EncryptionLayerWriter'
    transfers = []
    for body in mla.bodies:
        if body.impl_adt != EW:
            continue
        for b in body.calls():
            t = b.term
            if t.ctrait == 'std::io::Write' and t.cmethod in ('write', 'write_all', 'write_vectored', 'write_fmt', 'write_all_vectored') or (t.cmethod == 'copy' and cnorm(t) == 'std::io::copy'):
                recv = t.args[0] if t.cmethod != 'copy' else t.args[1]
                if recv.place is None:
                    continue
                o = origins(body, [recv.place[0]], through_calls=False)
                if any(f[-1] == 'inner' and f[0] == 'self' for f in o.fields):
                    transfers.append((body, b))
    rep.floor('R07.4', len(transfers), 1, 'byte transfers of EncryptionLayerWriter to its inner writer')
    for body, b in transfers:
        rep.fn(body)
        t = b.term
        key = 'R07.4|%s|%s-to-inner' % (body.nkey, t.cmethod)
        if t.cmethod not in ('write_all', 'write'):
            rep.ob('R07.4', False, key, 'unrecognised transfer %s to the inner writer' % t.cargs, body.loc(b.idx))
            continue
        data = t.args[1]
        # (b) tag
        is_tag = lambda k, ob, b3: k == 'call' and ob.cmethod in ('renew_cipher', 'into_tag') and cnorm(ob).startswith(('layers::encrypt::EncryptionLayerWriter', 'crypto::aesgcm::AesGcm256'))
        if data.place is not None and must_derive(body, data.place[0], is_tag):
            rep.ob('R07.4', True, key + '|tag', 'transfers the tag returned by renew_cipher/into_tag', body.loc(b.idx))
            continue
        # (a) encrypted buffer
        o = origins(body, [data.place[0]], through_calls=True, stop_calls=lambda tt: tt.cmethod not in ('deref', 'as_slice', 'as_ref', 'deref_mut', 'as_mut_slice', 'index'))
        owners = [l for l in o.locals if body.lty(l).startswith(('std::vec::Vec<u8', '[u8;'))]
        why = ''
        ok = False
        if len(owners) == 1 and 1 not in o.params and not any(2 <= p for p in o.params):
            B = owners[0]
            encs = [(bb2, tt, ai) for (bb2, tt, ai) in mutarg_defs(body).get(B, []) if cnorm(tt) == 'crypto::aesgcm::AesGcm256::encrypt' and ai == 1]
            others = [(bb2, tt, ai) for (bb2, tt, ai) in mutarg_defs(body).get(B, []) if not (cnorm(tt) == 'crypto::aesgcm::AesGcm256::encrypt')]
            assigns = [(bb2, si) for (bb2, si, kind, obj) in body.defs.get(B, [])]
            dom_enc = [e for e in encs if body.dominates(e[0], b.idx)]
            if not dom_enc:
                why = 'no AesGcm256::encrypt call on the buffer dominates the transfer'
            else:
                e = dom_enc[-1]
                # the cipher is the layer's cipher field
                co = origins(body, [e[1].args[0].place[0]], through_calls=False)
                if not any(f[-1] == 'cipher' and f[0] == 'self' for f in co.fields):
                    why = 'encrypt is not called on self.cipher'
                else:
                    between = body.reachable(e[1].target if e[1].target is not None else e[0]) if True else set()
                    bad = []
                    for (bb2, tt, ai) in others:
                        if bb2 in between and b.idx in body.reachable(bb2) and bb2 != b.idx:
                            bad.append('%s at %s' % (tt.cmethod, body.loc(bb2)))
                    for (bb2, si) in assigns:
                        if bb2 in between and b.idx in body.reachable(bb2) and bb2 != e[0]:
                            bad.append('assignment at %s' % body.loc(bb2, si))
                    if bad:
                        why = 'buffer written after encrypt and before the transfer: ' + ', '.join(bad)
                    else:
                        ok = True
        else:
            why = 'transferred bytes do not come from a single local buffer (owners=%s, params=%s)' % ([body.lname(x) for x in owners], sorted(o.params))
        rep.ob('R07.4', ok, key + '|payload', 'payload buffer encrypted by self.cipher before the transfer' if ok else 'bytes reach the inner writer without passing through the cipher: ' + why, body.loc(b.idx))
    # the struct buffers nothing (only the cipher state): no Vec/array-of-u8 container other than key/nonce
    adt = prog.adt(EW, 'mla')
    if adt:
        bufs = [f['name'] for f in adt['variants'][0]['fields'] if ('Vec<' in f['ty'] or 'Cursor<' in f['ty'] or 'BufWriter' in f['ty'])]
        rep.ob('R07.4', not bufs, 'R07.4|EncryptionLayerWriter|no-plaintext-buffer-field', 'no byte-container field in EncryptionLayerWriter' if not bufs else 'EncryptionLayerWriter holds byte containers %s' % bufs, '-')
    # writer stack
    fc = one_body(prog, rep, 'R07.4', 'mla', adt='ArchiveWriter', name='from_config')
    if fc is not None:
        enc = [b for b in fc.calls() if cnorm(b.term) == 'layers::encrypt::EncryptionLayerWriter::new']
        guard = None
        for bl in fc.blocks:
            r = branch_on_call(prog, fc, bl.idx)
            if r and r[1].cmethod == 'is_layers_enabled' and any((a.const_def() or '').endswith('ENCRYPT') or (const_of(fc, a) or {}).get('def', '').endswith('ENCRYPT') for a in r[1].args):
                guard = (bl.idx, r[2], r[3])
        ok = len(enc) == 1 and guard is not None and fc.edge_dominates((guard[0], guard[1]), enc[0].idx)
        # on the ENCRYPT edge the position layer cannot be built without the encryption layer
        pos = [b for b in fc.calls() if cnorm(b.term) == 'layers::position::PositionLayerWriter::new']
        ok2 = ok and len(pos) == 1 and pos[0].idx not in fc.reachable(guard[1], removed_blocks=[enc[0].idx])
        ok3 = ok2 and enc[0].idx in origins(fc, [pos[0].term.args[0].place[0]]).calls
        rep.ob('R07.4', bool(ok3), 'R07.4|%s|encryption-layer-under-ENCRYPT' % fc.nkey,
               'EncryptionLayerWriter::new under is_layers_enabled(ENCRYPT); the position layer wraps it; no bypass on that edge' if ok3 else
               'writer stack does not (always) insert the encryption layer when ENCRYPT is enabled', fc.loc(enc[0].idx) if enc else fc.loc())
        # before the layers only the header dump writes to the raw destination
        if guard is not None:
            pre = [b for b in fc.calls() if fc.dominates(b.idx, guard[0]) and b.idx != guard[0] and
                   (b.term.ctrait == 'std::io::Write' or b.term.cmethod in ('dump', 'write_all', 'serialize_into'))]
            okh = len(pre) == 1 and cnorm(pre[0].term) == 'ArchiveHeader::dump'
            rep.ob('R07.4', okh, 'R07.4|%s|only-header-before-layers' % fc.nkey, 'only ArchiveHeader::dump writes to the raw destination before the layers are stacked' if okh else
                   'writes to the raw destination before the encryption layer: %s' % [cnorm(p.term) for p in pre], fc.loc())

    # ---------------- R07.6 every registered recipient gets a wrapped key: the recipient list only ever grows
    GROW = {'push', 'extend_from_slice', 'extend', 'append', 'insert', 'reserve', 'reserve_exact'}
    READ = {'len', 'is_empty', 'iter', 'as_slice', 'deref', 'as_ref', 'contains', 'clone', 'get', 'first', 'last', 'index', 'to_vec', 'into_iter', 'borrow', 'eq', 'ne', 'fmt'}
    nrec = 0
    for body in mla.bodies:
        cnt = collections.Counter()
        for b in body.calls():
            t = b.term
            if not t.args or t.args[0].place is None:
                continue
            o = origins(body, [t.args[0].place[0]], through_calls=False)
            if not any(f[-1] == 'ecc_keys' for f in o.fields):
                continue
            if not (t.arg_tys and t.arg_tys[0].startswith('&mut')):
                continue     # shared access
            nrec += 1
            rep.fn(body)
            m = t.cmethod
            key = 'R07.6|%s|ecc_keys.%s#%d|recipients-only-added' % (body.nkey, m, cnt[m])
            cnt[m] += 1
            ok = m in GROW or m in READ or m in ('deref_mut', 'as_mut', 'borrow_mut', 'iter_mut')
            rep.ob('R07.6', ok, key, 'recipient list extended (%s)' % m if ok else
                   'the recipient list is modified by %s: a recipient registered earlier can be removed or replaced without any error, and cannot open the archive' % m, body.loc(b.idx))
        for bl in body.blocks:
            if bl.cleanup:
                continue
            for i, st in enumerate(bl.stmts):
                if st.kind == 'assign' and place_fields(st.place)[-1:] == ['ecc_keys']:
                    e = expr_of(body, st.rv.ops[0]) if st.rv.ops else ('unknown',)
                    okc = e[0] == 'call' and e[2].cmethod in ('new', 'default', 'with_capacity')
                    rep.ob('R07.6', okc, 'R07.6|%s|ecc_keys-assigned|recipients-only-added' % body.nkey, 'recipient list initialised empty' if okc else
                           'the recipient list is overwritten: recipients registered earlier are dropped', body.loc(bl.idx, i))
    rep.floor('R07.6', nrec, 1, 'mutations of the recipient list')

    # ---------------- R07.8 "opened with the private key of any one recipient ... and with no other key": the key retrieve_key hands out is the plaintext of
    # one wrapped entry, returned on the edge where that entry's tag compared equal (same rule as R03.1 on this decrypt site: a key selected or combined
    # without branching on the comparison -- e.g. accumulated over all entries -- is wrong as soon as two entries verify)
    from .c03 import check_decrypt_site
    nrk = 0
    for body in mla.bodies:
        if norm(body.defpath) != 'crypto::ecc::retrieve_key':
            continue
        for b in body.calls():
            if b.term.cdef == 'crypto::aesgcm::AesGcm256::decrypt':
                nrk += 1
                rep.fn(body)
                check_decrypt_site(prog, body, b, rep, RULE='R07.8')
    rep.floor('R07.8', nrk, 1, 'decrypt site of retrieve_key')

    # ---------------- R07.9 "opened with the private key of any one recipient": the header holding one wrapped key per recipient is read back with the limit
    # the writer side lives under (BINCODE_MAX_DESERIALIZE), not with a smaller one that a long recipient list exceeds
    hf = one_body(prog, rep, 'R07.9', 'mla', exact='ArchiveHeader::from')
    if hf is not None:
        from ..inline import inlined_body
        hf = inlined_body(prog, hf)      # the options may be built by a private helper
        des = [b for b in hf.calls() if b.term.cmethod in ('deserialize_from', 'deserialize') and 'bincode' in (b.term.ctrait + cnorm(b.term))]
        okl = False
        for b in des:
            if b.term.args and b.term.args[0].place is not None:
                o = origins(hf, [b.term.args[0].place[0]])
                if any((c.get('def') or '').endswith('BINCODE_MAX_DESERIALIZE') for c in o.consts) and not [c for c in o.consts if (c.get('def') or '').endswith(('_MAX_SIZE', '_LIMIT')) and not (c.get('def') or '').endswith('BINCODE_MAX_DESERIALIZE')]:
                    okl = True
        rep.ob('R07.9', bool(des) and okl, 'R07.9|%s|header-limit-is-the-format-limit' % hf.nkey, 'the header configuration is deserialised under BINCODE_MAX_DESERIALIZE' if (des and okl) else
               'the header configuration (one wrapped key per recipient) is deserialised under another limit than BINCODE_MAX_DESERIALIZE: an archive written for many recipients cannot be opened by any of them', hf.loc(des[0].idx) if des else hf.loc())

    # ---------------- R07.7 the library never rewrites the caller's layer set
    r07_7(prog, rep)

    # ---------------- R07.10 one wrapped key for every recipient
    r07_10(prog, rep)

    # ---------------- R07.5 only a recipient key opens it
    lp = one_body(prog, rep, 'R07.5', 'mla', adt='layers::encrypt::EncryptionReaderConfig', name='load_persistent')
    stores = []
    for body in mla.bodies:
        for b in body.blocks:
            if b.cleanup:
                continue
            for i, s in enumerate(b.stmts):
                if s.kind == 'assign' and place_fields(s.place)[-1:] == ['encrypt_parameters']:
                    stores.append((body, b.idx, i, s, s.rv.ops[0] if s.rv.ops else None))
                if s.kind == 'assign' and s.rv.r == 'aggregate' and s.rv.j.get('adt') == 'layers::encrypt::EncryptionReaderConfig':
                    stores.append((body, b.idx, i, s, s.rv.ops[s.rv.j['fields'].index('encrypt_parameters')]))
    rep.floor('R07.5', len(stores), 2, 'writers of encrypt_parameters')
    store_bb = None
    find_map_form = False
    for body, bb, i, s, op in stores:
        key = 'R07.5|%s|sets-encrypt_parameters' % body.nkey
        e = expr_of(body, op) if op is not None else ('unknown',)
        if e[0] == 'call' and e[2].cmethod == 'default':
            rep.ob('R07.5', True, key + '|default', 'initialised by Default (None)', body.loc(bb, i))
            continue
        if e[0] == 'agg' and e[3].j.get('variant') == 'None':
            rep.ob('R07.5', True, key + '|none', 'set to None', body.loc(bb, i))
            continue
        ok = False
        why = 'value is not Some((key, nonce)) built from retrieve_key'
        if e[0] == 'agg' and e[3].j.get('variant') == 'Some':
            tup = expr_of(body, e[3].ops[0])
            if tup[0] == 'agg' and tup[3].j.get('agg') == 'tuple':
                kop = tup[3].ops[0]
                rk = []

                def is_rk(kind, obj, b3, rk=rk):
                    if kind == 'call' and cnorm(obj).endswith('crypto::ecc::retrieve_key'):
                        rk.append(b3)
                        return True
                    return False
                w = []
                if kop.place is not None and must_derive(body, kop.place[0], is_rk, why=w) and rk:
                    # the payload is taken under Ok / Some downcasts
                    projs_ok = False
                    for (b3, si, kind, obj) in body.defs.get(kop.place[0], []) + sum([body.defs.get(l, []) for l in origins(body, [kop.place[0]], through_calls=False).locals], []):
                        if kind == 'assign' and obj.rv.ops and obj.rv.ops[0].place is not None:
                            names = [p[2] for p in obj.rv.ops[0].place[1] if p[0] == 'down']
                            if names == ['Ok', 'Some']:
                                projs_ok = True
                    ok = projs_ok
                    if not projs_ok:
                        why = 'key not taken from the Ok(Some(_)) payload'
                    store_bb = bb
                else:
                    why = '; '.join(w)
                    # combinator form: `self.private_keys.iter().find_map(|k| retrieve_key(.., k).ok().flatten())`
                    fmc = []

                    def is_fm(kind, obj, b3, fmc=fmc):
                        if kind == 'call' and obj.cmethod == 'find_map' and obj.ctrait == 'std::iter::Iterator':
                            fmc.append((b3, obj))
                            return True
                        return False
                    if kop.place is not None and must_derive(body, kop.place[0], is_fm) and len(fmc) == 1:
                        ft = fmc[0][1]
                        clo = None
                        if ft.args[1].place is not None:
                            for d in body.defs.get(ft.args[1].place[0], []):
                                if d[2] == 'assign' and d[3].rv.r == 'aggregate' and d[3].rv.j.get('closure'):
                                    cc = [x for x in prog.closures_of(body) if x.defpath == d[3].rv.j.get('closure')]
                                    clo = cc[0] if cc else None
                        ro = origins(body, [ft.args[0].place[0]]) if ft.args[0].place is not None else None
                        over_keys = ro is not None and any(f[-1] == 'private_keys' for f in ro.fields) and \
                            not [body.blocks[c].term.cmethod for c in ro.calls if body.blocks[c].term.cmethod in ('skip', 'take', 'rev', 'step_by', 'filter', 'skip_while', 'take_while')]
                        if clo is not None and over_keys:
                            rep.fn(clo)
                            rkc = [b for b in clo.calls() if cnorm(b.term).endswith('crypto::ecc::retrieve_key')]
                            # the closure yields Some(key) exactly for Ok(Some(key)) of retrieve_key: its result type is Option<key> (a nested
                            # Option would make `Ok(None)` -- "not a recipient" -- stop the search) and its value is ok().flatten() of that call
                            flat = clo.lty(0).startswith('std::option::Option<[u8; 32]>')
                            der = len(rkc) == 1 and must_derive(clo, 0, lambda k, ob, b3: k == 'call' and b3 == rkc[0].idx, extra_transparent=('ok', 'flatten'))
                            meths = sorted({b.term.cmethod for b in clo.calls()} - {'retrieve_key', 'ok', 'flatten', 'deref', 'as_ref', 'borrow'})
                            ok = flat and der and not meths
                            store_bb = bb
                            find_map_form = ok
                            why = 'find_map closure: result type Option<key>=%s, value = retrieve_key(..).ok().flatten()=%s, other calls %s' % (flat, der, meths)
                        else:
                            why = 'find_map not over self.private_keys or closure not found'
        rep.ob('R07.5', ok, key, 'encrypt_parameters = Some((key from Ok(Some) of retrieve_key, nonce))' if ok else 'encrypt_parameters set from something else than a verified key unwrap: ' + why, body.loc(bb, i))
    if lp is not None:
        # Ok return requires the parameters to be present
        okret = []
        for b in lp.blocks:
            for i, s in enumerate(b.stmts):
                if s.kind == 'assign' and s.place == (0, ()) and s.rv.r == 'aggregate' and s.rv.j.get('variant') == 'Ok':
                    okret.append((b.idx, i))
        guard = None
        for bl in lp.blocks:
            r = branch_on_call(prog, lp, bl.idx)
            if r and r[1].cmethod in ('is_none', 'is_some'):
                o = origins(lp, [r[1].args[0].place[0]], through_calls=False)
                if any(f[-1] == 'encrypt_parameters' for f in o.fields):
                    some_edge = r[3] if r[1].cmethod == 'is_none' else r[2]
                    guard = (bl.idx, some_edge)
        # `match self.encrypt_parameters { Some(_) => Ok(()), None => Err(..) }`
        for sbb, si in arm_of_enum_switch(prog, lp):
            if (si['adt'] or '').endswith('Option') and si['arms'].get('Some') is not None:
                pl = si['place']
                fl = place_fields(pl)[-1:] == ['encrypt_parameters'] or any(f[-1] == 'encrypt_parameters' for f in origins(lp, [pl[0]], through_calls=False).fields)
                if fl and enum_arm_target(si, 'None') != si['arms']['Some']:
                    guard = guard or (sbb, si['arms']['Some'])
        ok = bool(okret) and guard is not None and all(lp.edge_dominates(guard, bb) for bb, _ in okret)
        rep.ob('R07.5', ok, 'R07.5|%s|ok-requires-key' % lp.nkey, 'Ok(()) only on the edge where encrypt_parameters is Some' if ok else 'load_persistent can return Ok without a recovered key', lp.loc())
        # loop over all private keys; early exit only after success
        loop = lp.loop_blocks()
        nxt = [b for b in lp.calls() if b.term.cmethod == 'next' and b.idx in loop]
        okl = bool(nxt) and store_bb is not None
        if not nxt and find_map_form:
            # no explicit loop: find_map tries the keys in order until the closure yields Some (validated above)
            rep.ob('R07.5', True, 'R07.5|%s|all-keys-tried' % lp.nkey, 'find_map over self.private_keys stops only at a successful unwrap', lp.loc())
            return
        bad = []
        if okl:
            for u in loop:
                if lp.blocks[u].cleanup:
                    continue
                for v in lp.succs(u):
                    if v in loop or lp.blocks[v].cleanup:
                        continue
                    si = switch_info(prog, lp, u)
                    if si and si['kind'] == 'enum' and enum_arm_target(si, 'None') == v and si['adt'] == 'std::option::Option':
                        continue
                    if lp.blocks[v].term.kind == 'unreachable':
                        continue
                    if lp.dominates(store_bb, v) or lp.dominates(store_bb, u):
                        continue
                    bad.append(lp.loc(u))
        rep.ob('R07.5', okl and not bad, 'R07.5|%s|all-keys-tried' % lp.nkey, 'key loop exits only on exhaustion or after a successful unwrap' if okl and not bad else 'key loop can exit early without success at %s' % bad, lp.loc())
        # keys iterated: the iterator comes from self.private_keys
        if nxt:
            o = origins(lp, [nxt[0].term.args[0].place[0]])
            oki = any(f[-1] == 'private_keys' for f in o.fields)
            rep.ob('R07.5', oki, 'R07.5|%s|iterates-private_keys' % lp.nkey, 'loop iterates self.private_keys' if oki else 'loop does not iterate self.private_keys', lp.loc(nxt[0].idx))


def thorough_extra(rep, verif, repo):
    """type-level witnesses: key/nonce not settable from outside, EncryptionConfig not constructible, into_tag consumes the cipher"""
    from .. import witness
    return witness.run_witnesses(rep, verif, repo, 'R07.1w', ('R07_1', 'R06'))
