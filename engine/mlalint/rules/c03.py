"""C03 -- any alteration of an encrypted archive is detected on read (clause level).
R03.1 verify-before-expose at every AesGcm256::decrypt site
R03.2 the normal reader has no unauthenticated path (direct-caller allowlists)
R03.3 chunk binding: every cipher of the layer is built from build_nonce(prefix, counter field)
R03.4 footer / listing come through the authenticated stack"""
from ..core import *

EXPLANATION = ("Static MIR rules over crate mla: (R03.1) for every call site of AesGcm256::decrypt the returned tag must be "
               "compared (ct_eq / slice ==) with bytes that do not derive from it, and every store of the decrypted buffer into "
               "self / the return value is edge-dominated by the 'equal' outcome; (R03.2) direct-caller allowlists keep "
               "decrypt_unauthenticated / load_in_cache_unauthenticated / read_internal_unauthenticated out of the normal reader; "
               "(R03.3) every AesGcm256::new in layers::encrypt takes its nonce from build_nonce(prefix field, counter field|0) and "
               "every chunk load is dominated by a store to the counter field; (R03.4) the footer is deserialised from the layered "
               "source built under the ENCRYPT test and list/get read names and offsets from self.metadata only; build_nonce puts the 8-byte archive prefix and the 4 "
               "low-order bytes of the chunk counter in disjoint ranges of the nonce (injective in the chunk number); (R03.5) error discipline: for every call site "
               "(exactly resolved, or through a fn pointer of the type a member was reified to) of a function that may return AuthenticatedDecryptionWrongTag, no "
               "Ok(..) result is reachable on the wrong-tag-consistent paths from its Err edge, so an altered chunk is never skipped; references to the "
               "unauthenticated functions through fn pointers count as calls for the allowlist of R03.2. "
               "(R03.6) both chunk loaders empty the plaintext cache (clear / take / replace / assignment) before the single read of the chunk, so a failed or short load never leaves the previous chunk's plaintext to be served. "
               "(R03.7) the buffer handed to decrypt is filled by read_to_end(take(inner, constant)), never by one raw read (an intact chunk delivered in pieces must not fail its tag); (R03.8) the End arm of the reader's seek removes TAG_LENGTH from the in-chunk remainder only where that remainder is not 0 (a stream whose last chunk is full ends on a chunk boundary), so the footer of every unaltered archive is found. "
               "Decides the structural clause, not the runtime behaviour.")
TRUSTED = ['rustc MIR construction and callee resolution', 'subtle::ConstantTimeEq', 'RustCrypto aes/ctr/ghash', 'std::io']
ASSUMPTIONS = ['GHASH/CTR compute the standard tag (numeric; not decided)', 'dependencies are not analysed']

DECRYPT = 'crypto::aesgcm::AesGcm256::decrypt'
DECRYPT_UNAUTH = 'crypto::aesgcm::AesGcm256::decrypt_unauthenticated'
COMPARE_METHODS = {'ct_eq', 'eq', 'ne'}


def buf_types(ty):
    return ty.startswith('std::vec::Vec<u8') or ty.startswith('[u8;') or ty.startswith('std::boxed::Box<[u8')


class _ArgView:
    """a comparison performed inside a helper, seen from the call site: same interface as a Term for the two compared operands"""
    def __init__(self, method, args):
        self.cmethod = method
        self.args = args


def helper_comparison(prog, body, ct):
    """If `ct` calls a workspace function returning bool whose result is (a polarity of) one comparison of two of its parameters,
    return (_ArgView(method, [caller operands]), polarity)."""
    cands, exact = resolve_call(prog, body, ct)
    if not exact or len(cands) != 1:
        return None
    h = cands[0]
    if h.lty(0) != 'bool':
        return None
    e = expr_of(h, _RetOp())
    r = comparison_polarity(h, e)
    if r is None:
        return None
    cb, cterm, pol = r
    if cterm.cmethod not in COMPARE_METHODS or len(cterm.args) < 2:
        return None
    mapped = []
    for a in cterm.args[:2]:
        if a.place is None:
            return None
        roots = [p for p in range(1, h.arg_count + 1) if must_derive(h, a.place[0], lambda k, ob, bb, p=p: k == 'param' and ob == p)]
        if len(roots) != 1 or roots[0] - 1 >= len(ct.args):
            return None
        mapped.append(ct.args[roots[0] - 1])
    # every return of the helper goes through that comparison (single expression body)
    return _ArgView(cterm.cmethod, mapped), pol


class _RetOp:
    kind = 'copy'
    place = (0, ())
    k = None

    def const_int(self):
        return None


def accumulated_xor_comparison(prog, body, tagl, dbb, after):
    """hand-written constant-time comparison: `acc |= a ^ b` over the bytes of the computed and the stored tag, then a test of acc against 0. Accepted only
    when EVERY update of the accumulator ORs its previous value in (a plain `acc = a ^ b` keeps the last byte only). Returns the same tuple as the
    ct_eq form: (switch block, compare block, term, equal target, unequal target) or None."""
    for b in body.blocks:
        if b.idx not in after or b.cleanup:
            continue
        acc = None
        eq_t = ne_t = None
        r = branch_on_call(prog, body, b.idx)
        ct = None
        if r is not None and r[1].cmethod in ('ct_eq', 'eq', 'ne') and len(r[1].args) >= 2:
            ct = r[1]
            ops = [expr_of(body, a) for a in ct.args[:2]]
            zero = [o for o in ops if (o[0] == 'const' and o[1] == 0) or (o[0] == 'ref' and False)]
            cand = [a for a in ct.args[:2] if a.place is not None]
            for a in cand:
                o = origins(body, [a.place[0]], through_calls=False)
                accs = [l for l in o.locals if body.lty(l) == 'u8' and len(body.defs.get(l, [])) >= 2]
                if accs:
                    acc = accs[0]
            eq_t, ne_t = (r[2], r[3])
        else:
            si = switch_info(prog, body, b.idx)
            if si and si['kind'] == 'bool':
                e = expr_of(body, si['cond'])
                if e[0] == 'binop' and e[1] in ('Eq', 'Ne') and e[3][0] == 'const' and e[3][1] == 0 and e[2][0] == 'place' and body.lty(e[2][1][0]) == 'u8':
                    acc = e[2][1][0]
                    eq_t, ne_t = (si['true'], si['false']) if e[1] == 'Eq' else (si['false'], si['true'])
        if acc is None or eq_t is None:
            continue
        ok = True
        n_or = 0
        for (bb, si_, kind, obj) in body.defs.get(acc, []):
            if kind != 'assign' or obj.kind != 'assign' or obj.place[1]:
                ok = False
                break
            rv = obj.rv
            if rv.r == 'use' and rv.ops[0].kind == 'const' and rv.ops[0].const_int() == 0:
                continue
            if rv.r == 'binop' and rv.j['op'] == 'BitOr':
                sides = [o2 for o2 in rv.ops if o2.place is not None]
                prev = [o2 for o2 in sides if acc in ({o2.place[0]} | origins(body, [o2.place[0]], through_calls=False).locals)]
                other = [o2 for o2 in sides if o2 not in prev]
                if prev and other:
                    xo = origins(body, [other[0].place[0]])
                    if (any(x[2].j.get('op') == 'BitXor' for x in xo.binops) or any(body.blocks[c].term.cmethod == 'bitxor' for c in xo.calls)) and tagl in xo.locals and (xo.params or (xo.calls - {dbb})):
                        n_or += 1
                        continue
            ok = False
            break
        if ok and n_or >= 1:
            return (b.idx, b.idx, ct or body.blocks[b.idx].term, eq_t, ne_t)
    return None


def check_decrypt_site(prog, body, blk, rep, RULE='R03.1'):
    t = blk.term
    fn = body.nkey
    key = RULE + '|%s|decrypt' % fn
    loc = body.loc(blk.idx)
    if t.dest is None or t.dest[1]:
        rep.ob(RULE, False, key, 'decrypt result is not bound to a local', loc)
        return
    tagl = t.dest[0]
    dbb = blk.idx
    # buffer owners
    if len(t.args) < 2 or t.args[1].place is None:
        rep.ob(RULE, False, key, 'cannot identify the decrypted buffer', loc)
        return
    bo = origins(body, [t.args[1].place[0]])
    owners = {l for l in bo.locals if buf_types(body.lty(l))}
    if not owners:
        rep.ob(RULE, False, key, 'cannot identify the owner of the decrypted buffer', loc)
        return
    after = body.reachable(t.target) if t.target is not None else set()
    # find the comparison
    cmp_found = None
    why = []
    for b in body.blocks:
        if b.idx not in after or b.cleanup:
            continue
        r = branch_on_call(prog, body, b.idx)
        if r is None:
            continue
        cb, ct, tgt_true, tgt_false = r
        if ct.cmethod not in COMPARE_METHODS or len(ct.args) < 2:
            # one level of workspace helper: `fn tags_match(a, b) -> bool { a.ct_eq(b).. }`
            h = helper_comparison(prog, body, ct)
            if h is None:
                continue
            ct, pol = h
            if not pol:
                tgt_true, tgt_false = tgt_false, tgt_true
        if ct.cmethod == 'ne':
            pass  # polarity handled by comparison_polarity
        # one operand must-derives from the tag, the other must not derive from it
        is_src = lambda kind, obj, bb: kind == 'call' and bb == dbb
        sides = []
        for a in ct.args[:2]:
            if a.place is None:
                sides.append('const')
                continue
            w = []
            if must_derive(body, a.place[0], is_src, why=w):
                sides.append('tag')
            else:
                o = origins(body, [a.place[0]])
                if tagl in o.locals:
                    sides.append('tainted-by-tag')
                elif o.params or (o.calls - {dbb}):
                    sides.append('stored')
                else:
                    sides.append('const')
        if sorted(sides) == ['stored', 'tag']:
            cmp_found = (b.idx, cb, ct, tgt_true, tgt_false)
            break
        else:
            why.append('comparison %s at %s has operands %s' % (ct.cmethod, body.loc(cb), sides))
    if cmp_found is None:
        cmp_found = accumulated_xor_comparison(prog, body, tagl, dbb, after)
    if cmp_found is None:
        rep.ob(RULE, False, key,
               'no comparison of the computed tag with stored tag bytes found after decrypt (%s)' % ('; '.join(why) or 'no ct_eq/== branch'), loc)
        return
    sbb, cb, ct, eq_tgt, ne_tgt = cmp_found
    eq_edge = (sbb, eq_tgt)
    if eq_tgt == ne_tgt:
        rep.ob(RULE, False, key, 'tag comparison does not branch', loc)
        return
    if body.defpath.startswith('layers::encrypt::'):
        # a chunk whose tag differs is an *error* of the loader (AuthenticatedDecryptionWrongTag): every result written on a path that leaves by the
        # unequal outcome is an Err. An Ok there -- "no more data" -- is what the end of the stream looks like: the normal reader would report a
        # short file as complete, and the repair reader, whose latch is armed by that error only, would go on with the chunks after the bad one
        rne = body.reachable(ne_tgt)
        soft = []
        for b in body.blocks:
            if b.idx not in rne or b.cleanup or body.edge_dominates(eq_edge, b.idx):
                continue
            for i, st in enumerate(b.stmts):
                if st.kind != 'assign' or st.place != (0, ()):
                    continue
                cands = [(b.idx, i, st)]
                if st.rv.r == 'use' and st.rv.ops[0].place is not None and not st.rv.ops[0].place[1]:
                    cands = [(d[0], d[1], d[3]) for d in body.defs.get(st.rv.ops[0].place[0], []) if d[2] == 'assign' and d[0] in rne and not body.edge_dominates(eq_edge, d[0])]
                for (cbb, ci, cst) in cands:
                    if cst.rv.r == 'aggregate' and cst.rv.j.get('variant') == 'Err':
                        continue
                    if cst.rv.r == 'aggregate' and cst.rv.j.get('variant') == 'Ok':
                        soft.append(body.loc(cbb, ci))
        rep.ob(RULE, not soft, RULE + '|%s|tag-mismatch-is-an-error' % fn, 'every result written after the unequal outcome of the tag comparison is an Err' if not soft else
               'after the tag comparison failed the loader returns Ok (%s): a chunk that does not authenticate is reported like the end of the data, not as '
               'AuthenticatedDecryptionWrongTag -- the reader delivers a short file as complete and repair (whose stop latch is armed by that error) resumes with the '
               'chunks after the failing one' % ', '.join(soft), body.loc(sbb))
    # exposures: stores through a deref / into _0 / passing to calls, of values flowing from the owners, after decrypt
    flow = forward_locals(body, owners)
    exposures = []
    for b in body.blocks:
        if b.idx not in after or b.cleanup:
            continue
        for i, s in enumerate(b.stmts):
            if s.kind != 'assign':
                continue
            srcs = [pl[0] for pl in s.rv.src_places()]
            if not any(x in flow for x in srcs):
                continue
            base, projs = s.place
            through_deref = any(p[0] == 'deref' for p in projs)
            if through_deref and base not in owners:
                exposures.append((b.idx, i, 'store to %s' % place_str(body, s.place)))
            elif base == 0:
                # Err(..) aggregates carry no data
                if s.rv.r == 'aggregate' and s.rv.j.get('variant') == 'Err':
                    continue
                exposures.append((b.idx, i, 'return value'))
        tt = b.term
        if tt.kind == 'call' and b.idx != dbb:
            if any(a.place is not None and a.place[0] in flow for a in tt.args):
                # a call that receives the data together with a &mut derived from a parameter (self) or a Write sink
                if tt.ctrait in ('std::io::Write', 'std::iter::Extend') or tt.cmethod in ('write_all', 'write', 'extend_from_slice', 'push'):
                    recv = tt.args[0]
                    if recv.place is not None and recv.place[0] not in flow:
                        exposures.append((b.idx, 'term', 'passed to %s' % tt.cargs))
    bad = []
    for (ebb, si, what) in exposures:
        if not body.edge_dominates(eq_edge, ebb):
            bad.append('%s at %s' % (what, body.loc(ebb, si)))
    if not exposures:
        rep.ob(RULE, False, key, 'decrypted buffer is never exposed -- rule lost its anchor', loc)
        return
    rep.ob(RULE, not bad, key,
           ('decrypted data exposed without passing the tag-equal edge: ' + '; '.join(bad)) if bad else
           'tag from decrypt compared by %s at %s; %d exposure(s) all edge-dominated by the equal outcome' % (ct.cmethod, body.loc(cb), len(exposures)),
           loc)


def end_of_data_rule(prog, rep, RULE='R03.8'):
    """"Unaltered archives always open": the footer is found by seek(End(-4)) through the encryption reader, whose End arm converts the tag-aware length of
    the inner stream into the plaintext length. The writer closes *every* chunk, the last one included, with a tag; a stream whose last chunk is full
    therefore ends on a multiple of CHUNK_SIZE + TAG_LENGTH and its remainder `len % CHUNK_TAG_SIZE` is 0. Removing "the tag of the last chunk" is
    right only when that remainder is not 0: the subtraction of TAG_LENGTH from a value computed from the remainder must sit behind a test that
    excludes 0 (or be `remainder.saturating_sub(TAG_LENGTH)` on the remainder alone)."""
    from ..inline import inlined_body
    bs = [b for b in prog.crates['mla'].bodies if b.impl_trait == 'std::io::Seek' and b.name == 'seek' and b.kind != 'Closure' and
          (b.impl_adt or '').endswith('layers::encrypt::EncryptionLayerInternal')]
    key0 = RULE + '|mla::<layers::encrypt::EncryptionLayerInternal as std::io::Seek>::seek|'
    if len(bs) != 1:
        rep.ob(RULE, False, key0 + 'anchor', 'expected one Seek impl of EncryptionLayerInternal, found %d' % len(bs))
        return
    body = inlined_body(prog, bs[0])
    rep.fn(bs[0])
    mla = prog.crates['mla']
    TAG = mla.const_int('crypto::aesgcm::TAG_LENGTH') or 16
    rems = {}
    for bl in body.blocks:
        for st in bl.stmts:
            if st.kind == 'assign' and st.rv.r == 'binop' and st.rv.j['op'] == 'Rem' and not st.place[1]:
                k = st.rv.ops[1]
                if k.kind == 'const' and ((k.const_def() or '').endswith('CHUNK_TAG_SIZE')):
                    rems[st.place[0]] = bl.idx
    subs = []
    for bl in body.blocks:
        if bl.cleanup:
            continue
        for i, st in enumerate(bl.stmts):
            if st.kind == 'assign' and st.rv.r == 'binop' and st.rv.j['op'].startswith('Sub') and const_eval(body, st.rv.ops[1]) == TAG and st.rv.ops[0].place is not None:
                subs.append((bl.idx, 'Sub', st.rv.ops[0]))
        t = bl.term
        if t.kind == 'call' and t.cmethod in ('checked_sub', 'saturating_sub', 'wrapping_sub', 'overflowing_sub') and len(t.args) == 2 and const_eval(body, t.args[1]) == TAG and t.args[0].place is not None:
            subs.append((bl.idx, t.cmethod, t.args[0]))
    rel = []
    for (bb, how, minuend) in subs:
        # arithmetic on the remainder only (sums, casts, copies), and min / max, whose result is one of their operands
        locs = set()
        todo = [minuend.place[0]]
        while todo:
            o = origins(body, todo, through_calls=False)
            todo = []
            for l in o.locals:
                if l in locs:
                    continue
                locs.add(l)
                for (dbb, dsi, dk, dobj) in body.defs.get(l, []):
                    if dk == 'call' and dobj.cmethod in ('min', 'max') and (cnorm(dobj).startswith('std::cmp::') or dobj.ctrait == 'std::cmp::Ord'):
                        todo += [a.place[0] for a in dobj.args if a.place is not None]
        rs = [r for r in rems if r in locs]
        if rs:
            rel.append((bb, how, minuend, rs))
    if not rems or not rel:
        rep.ob(RULE, False, key0 + 'anchor', 'End arm anchors not found (remainders by CHUNK_TAG_SIZE: %d, subtractions of TAG_LENGTH from them: %d)' % (len(rems), len(rel)), bs[0].loc())
        return
    bad = []
    for (bb, how, minuend, rs) in rel:
        e = expr_of(body, minuend)
        alone = e[0] == 'place' and not e[1][1] and e[1][0] in rs
        if how == 'saturating_sub' and alone:
            continue
        guarded = False
        for g in body.blocks:
            si = switch_info(prog, body, g.idx)
            if not si or si['kind'] != 'bool':
                continue
            ce = expr_of(body, si['cond'])
            if ce[0] != 'binop' or ce[1] not in ('Eq', 'Ne', 'Gt', 'Ge', 'Lt', 'Le'):
                continue
            sides = [ce[2], ce[3]]
            ri = [i for i, x in enumerate(sides) if x[0] == 'binop' and x[1] == 'Rem' or (x[0] == 'place' and not x[1][1] and x[1][0] in rs)]
            ci = [i for i, x in enumerate(sides) if x[0] == 'const' and x[1] is not None]
            if len(ri) != 1 or len(ci) != 1:
                continue
            if sides[ri[0]][0] == 'binop':
                k_ = sides[ri[0]][3]
                if not (k_[0] == 'const' and ((k_[2] or {}).get('def') or '').endswith('CHUNK_TAG_SIZE')):
                    continue
            K = sides[ci[0]][1]
            op = ce[1]
            if ri[0] == 1:      # const op r  ->  r op' const
                op = {'Gt': 'Lt', 'Ge': 'Le', 'Lt': 'Gt', 'Le': 'Ge'}.get(op, op)
            # edge on which r != 0 is known
            nz = None
            if op == 'Eq' and K == 0:
                nz = si['false']
            elif op == 'Ne' and K == 0:
                nz = si['true']
            elif op == 'Gt' and K >= 0:
                nz = si['true']
            elif op == 'Ge' and K >= 1:
                nz = si['true']
            elif op == 'Lt' and K >= 1:
                nz = si['false']
            elif op == 'Le' and K >= 0:
                nz = si['false']
            if nz is not None and body.edge_dominates((g.idx, nz), bb):
                guarded = True
        if not guarded:
            bad.append(body.loc(bb))
    rep.ob(RULE, not bad, key0 + 'last-full-chunk-length', 'TAG_LENGTH is removed from the in-chunk remainder only where that remainder is not 0' if not bad else
           'seek(End): TAG_LENGTH is subtracted from a length computed from `inner_len %% CHUNK_TAG_SIZE` without excluding a remainder of 0 (%s): for a stream whose last '
           'chunk is full the computed end is 16 bytes short, the footer length is read at the wrong place and an unaltered archive fails to open' % ', '.join(bad), bs[0].loc())


FRESH_GENERATORS = ('from_os_rng', 'from_entropy', 'try_from_os_rng', 'thread_rng', 'rng', 'os_rng')
DRAWS = ('random', 'fill_bytes', 'fill', 'try_fill_bytes', 'r#gen', 'gen')


def config_constructions(prog):
    """(function, its body with private helpers spliced in, block, statement) for every construction of EncryptionConfig in mla. The generator, or the
    construction itself, may sit in a private helper: a private constructor helper that *receives* its generator is judged where it is called (it is
    spliced into its callers), not on its own."""
    from ..inline import inlined_body
    for body0 in prog.crates['mla'].bodies:
        if body0.kind == 'Closure':
            continue
        body = inlined_body(prog, body0)
        for b in body.blocks:
            if b.cleanup:
                continue
            for s in b.stmts:
                if s.kind != 'assign' or s.rv.r != 'aggregate' or s.rv.j.get('agg') != 'adt' or strip_generics(str(s.rv.j.get('adt', ''))) != 'layers::encrypt::EncryptionConfig':
                    continue
                if body0.vis != 'pub' and body0.impl_trait is None:
                    gens = [t_ for t_ in (bl_.term for bl_ in body.calls()) if t_.cmethod in DRAWS and t_.args and t_.args[0].place is not None]
                    if gens and all(must_derive(body, t_.args[0].place[0], lambda k, ob, bb: k == 'param' or (k == 'mutarg' and ob[0].cmethod in DRAWS)) for t_ in gens):
                        # ... provided it really is spliced wherever it is called (no call to it survives in any caller, closures included)
                        hp = norm(body0.defpath)
                        left = [c_ for c_ in prog.crates['mla'].bodies if c_.key != body0.key and
                                any(cnorm(x.term) == hp for x in (c_ if c_.kind == 'Closure' else inlined_body(prog, c_)).calls())]
                        if not left:
                            continue
                yield body0, body, b, s


def fresh_key_material(prog, rep, RULE='R03.9'):
    """A chunk of another archive is refused only because the (key, nonce prefix) pair of every archive is its own: wherever mla builds an
    EncryptionConfig, `key` and `nonce` are drawn from a generator which that very call seeded from the operating system -- never from a seed
    that is kept, derived or shared (from_seed / seed_from_u64 / a static), which would give two archives of one process the same pair."""
    n = 0
    for body0, body, b, s in config_constructions(prog):
        if True:
            if True:
                n += 1
                rep.fn(body0)
                fl = s.rv.j.get('fields') or []
                for fname in ('key', 'nonce'):
                    key = '%s|%s|%s-drawn-from-os-seeded-generator' % (RULE, body.nkey, fname)
                    if fname not in fl or fl.index(fname) >= len(s.rv.ops):
                        rep.ob(RULE, False, key, 'construction of EncryptionConfig whose `%s` cannot be read' % fname, body.loc(b.idx))
                        continue
                    op = s.rv.ops[fl.index(fname)]
                    draws = []

                    def is_draw(k, ob, bb, draws=draws):
                        t = ob if k == 'call' else (ob[0] if k == 'mutarg' else None)
                        if t is not None and t.cmethod in DRAWS and (t.ctrait.startswith('rand') or 'Rng' in t.ctrait):
                            draws.append(t)
                            return True
                        # `let mut x = [0; N]; generator.fill_bytes(&mut x)`: the initial value is overwritten before the construction
                        if k == 'assign' and ob.kind == 'assign' and ob.rv is not None and ob.rv.r == 'repeat' and not ob.place[1]:
                            fills = [m for m in mutarg_defs(body).get(ob.place[0], []) if m[1].cmethod in ('fill_bytes', 'fill', 'try_fill_bytes')]
                            return any(body.dominates(m[0], b.idx) and body.dominates(bb, m[0]) for m in fills)
                        return False
                    why = []
                    ok = op.place is not None and must_derive(body, op.place[0], is_draw, why=why) and bool(draws)
                    msg = ''
                    if not ok:
                        msg = '`%s` of a new EncryptionConfig is not (only) the output of a random generator (%s)' % (fname, '; '.join(why[:2]) or 'constant')
                    for t in draws if ok else []:
                        g = t.args[0] if t.args else None

                        def is_fresh(k, ob, bb):
                            if k == 'call':
                                return ob.cmethod in FRESH_GENERATORS and ('Rng' in ob.ctrait or 'rand' in cnorm(ob))
                            if k == 'mutarg':      # drawing from the generator advances it: still the same generator
                                return ob[0].cmethod in DRAWS
                            if k == 'assign' and ob.rv is not None and ob.rv.r == 'aggregate':
                                return str(ob.rv.j.get('adt', '')).endswith('OsRng')
                            return False
                        why2 = []
                        if g is None or g.place is None or not must_derive(body, g.place[0], is_fresh, why=why2):
                            ok = False
                            msg = ('the generator `%s` is drawn from is not seeded from the operating system in this call (%s): a seed that is kept or shared gives '
                                   'several archives the same key and nonce prefix, and a chunk of one then authenticates in the other' % (fname, '; '.join(why2[:2]) or 'not a local'))
                    rep.ob(RULE, ok, key, '`%s` = draw from a generator seeded by the OS in this call' % fname if ok else msg, body.loc(b.idx))
    rep.floor(RULE, n, 1, 'constructions of EncryptionConfig in mla')


def run(prog, rep, tier):
    mla = prog.crates['mla']
    # ---------------- R03.1
    sites = []
    for body in mla.bodies:
        for b in body.calls():
            if b.term.cdef == DECRYPT:
                sites.append((body, b))
    rep.floor('R03.1', len(sites), 2, 'call sites of AesGcm256::decrypt')
    for body, b in sites:
        rep.fn(body)
        check_decrypt_site(prog, body, b, rep)

    # ---------------- R03.2 allowlists
    INTERNAL = 'layers::encrypt::EncryptionLayerInternal::<T>::'
    unauth_fns = {DECRYPT_UNAUTH, INTERNAL + 'load_in_cache_unauthenticated', INTERNAL + 'read_internal_unauthenticated'}
    for f in list(unauth_fns):
        if f != DECRYPT_UNAUTH and prog.body('mla', f) is None:
            rep.ob('R03.2', False, 'R03.2|anchor|%s' % f, 'anchor function %s not found (renamed?) -- fail closed' % f)
    allowed_callers = {
        DECRYPT_UNAUTH: lambda b: b.defpath == INTERNAL + 'load_in_cache_unauthenticated',
        INTERNAL + 'load_in_cache_unauthenticated': lambda b: b.defpath == INTERNAL + 'read_internal_unauthenticated' or
            (b.impl_adt == 'layers::encrypt::EncryptionLayerFailSafeReader'),
        INTERNAL + 'read_internal_unauthenticated': lambda b: b.defpath == INTERNAL + 'read_internal_unauthenticated' or
            (b.impl_adt == 'layers::encrypt::EncryptionLayerFailSafeReader'),
    }
    ncallers = 0
    for pkg in prog.crates:
        for body in prog.crates[pkg].bodies:
            for b in body.calls():
                d = b.term.cdef
                if pkg != 'mla':
                    # other crates see the functions under the crate-qualified path
                    if d.startswith('mla::'):
                        d = d[5:]
                if d in unauth_fns:
                    ncallers += 1
                    rep.fn(body)
                    ok = pkg == 'mla' and allowed_callers[d](body)
                    rep.ob('R03.2', ok, 'R03.2|%s|calls|%s' % (body.nkey, d),
                           ('%s calls %s' % (body.nkey, d)) + ('' if ok else ' -- not in the allowlist: the unauthenticated decrypt path must stay inside the fail-safe reader'),
                           body.loc(b.idx))
    # a function reified as a pointer (`Self::load_in_cache_unauthenticated as fn(..)`) is a reference just like a call
    for pkg in prog.crates:
        for body in prog.crates[pkg].bodies:
            for bl in body.blocks:
                for i, st in enumerate(bl.stmts):
                    if st.kind == 'assign' and st.rv.r == 'cast' and 'ReifyFnPointer' in st.rv.j.get('kind', ''):
                        d = ((st.rv.j.get('op') or {}).get('k') or {}).get('fn', '')
                        if pkg != 'mla' and d.startswith('mla::'):
                            d = d[5:]
                        if d in unauth_fns:
                            ncallers += 1
                            rep.fn(body)
                            ok = pkg == 'mla' and allowed_callers[d](body)
                            rep.ob('R03.2', ok, 'R03.2|%s|takes-pointer-to|%s' % (body.nkey, d),
                                   ('%s takes a pointer to %s' % (body.nkey, d)) + ('' if ok else ' -- not in the allowlist: the unauthenticated decrypt path must stay inside the fail-safe reader'),
                                   body.loc(bl.idx, i))
    rep.floor('R03.2', ncallers, 3, 'call sites of / pointers to the unauthenticated functions')
    # the fail-safe encryption reader is constructed only by ArchiveFailSafeReader::from_config
    nctor = 0
    for pkg in prog.crates:
        for body in prog.crates[pkg].bodies:
            for b in body.calls():
                d = b.term.cdef
                if d.endswith('layers::encrypt::EncryptionLayerFailSafeReader::<\'a, R>::new'):
                    nctor += 1
                    ok = pkg == 'mla' and body.defpath.startswith('ArchiveFailSafeReader::<') and body.name == 'from_config'
                    rep.ob('R03.2', ok, 'R03.2|%s|constructs|EncryptionLayerFailSafeReader' % body.nkey,
                           '%s constructs EncryptionLayerFailSafeReader%s' % (body.nkey, '' if ok else ' -- only ArchiveFailSafeReader::from_config may'),
                           body.loc(b.idx))
    rep.floor('R03.2.ctor', nctor, 1, 'constructions of EncryptionLayerFailSafeReader')
    # Read/Seek of the internal layer (the normal reader's paths) only call the authenticated functions: implied by the
    # allowlist above; positive control that they call them at all
    for tr, m, want in (('std::io::Read', 'read', 'read_internal'), ('std::io::Seek', 'seek', 'load_in_cache')):
        bs = [b for b in mla.bodies if b.impl_adt == 'layers::encrypt::EncryptionLayerInternal' and b.impl_trait == tr and b.name == m]
        # (directly, or through private helpers of the layer: exactly resolved same-crate calls)
        ok = bool(bs) and any(c.term.cdef == INTERNAL + want for b2 in reachable_bodies(prog, [bs[0]]) if b2.pkg == 'mla' and b2.impl_adt == 'layers::encrypt::EncryptionLayerInternal' for c in b2.calls())
        rep.ob('R03.2', ok, 'R03.2|EncryptionLayerInternal|%s::%s|uses|%s' % (tr, m, want),
               'normal reader %s::%s goes through authenticated %s' % (tr, m, want) if ok else
               '<EncryptionLayerInternal as %s>::%s does not call %s (anchor lost)' % (tr, m, want),
               bs[0].loc() if bs else '?')

    # ---------------- R03.6 a chunk load that fails leaves no stale plaintext behind: the cache is emptied before the chunk is read
    # (the chunk counter is advanced by the caller before the load; a fast path that trusts "counter == target and cache not empty" would otherwise
    #  serve the previous chunk's bytes at the new chunk's positions after a failed load)
    for fn in ('load_in_cache', 'load_in_cache_unauthenticated'):
        lb = one_body(prog, rep, 'R03.6', 'mla', exact='layers::encrypt::EncryptionLayerInternal::' + fn)
        if lb is None:
            continue
        rep.fn(lb)
        from ..inline import inlined_body
        lb = inlined_body(prog, lb)      # the "new cipher + drop the cached data" prologue may be a helper shared by both loaders
        rte = [b for b in lb.calls() if b.term.cmethod in ('read_to_end', 'read', 'read_exact', 'read_buf') and b.term.ctrait == 'std::io::Read']
        inval = []
        for b in lb.calls():
            t = b.term
            if t.cmethod in ('clear', 'take', 'replace', 'truncate', 'set_position', 'get_mut') and t.args and t.args[0].place is not None:
                o = origins(lb, [t.args[0].place[0]], through_calls=True)
                if any(f[-1] == 'chunk_cache' for f in o.fields) and t.cmethod in ('clear', 'take', 'replace'):
                    if t.cmethod != 'take' or cnorm(t).startswith('std::mem::take'):
                        inval.append(b.idx)
        for bl in lb.blocks:
            for i, st in enumerate(bl.stmts):
                if st.kind == 'assign' and place_fields(st.place)[-1:] == ['chunk_cache'] and not bl.cleanup:
                    inval.append(bl.idx)
        # every path (variant-tracked: an Err of the prologue leaves through `?`) to the chunk read passes one of the emptying sites
        rs_ = reachable_vs(lb, 0, removed_blocks=inval)
        ok = bool(rte) and bool(inval) and not any(r_.idx in rs_ for r_ in rte)
        rep.ob('R03.6', ok, 'R03.6|%s|cache-emptied-before-chunk-read' % lb.nkey, 'chunk_cache is emptied (clear / mem::take / reassignment) before the next chunk is read' if ok else
               'the previous chunk stays in chunk_cache while the next one is read: if that load fails, the cache and the chunk counter disagree and a later seek within '
               '"the current chunk" serves stale plaintext', lb.loc(rte[0].idx) if rte else lb.loc())

    # ---------------- R03.8 the end of the plaintext stream is computed right for a stream whose last chunk is full
    end_of_data_rule(prog, rep, 'R03.8')

    # ---------------- R03.9 every archive has its own key and nonce prefix (what makes a chunk of another archive fail authentication)
    fresh_key_material(prog, rep, 'R03.9')

    # ---------------- R03.7 "unaltered archives always open": an intact chunk is read completely before its tag is checked
    from .c13 import chunk_loads_complete
    chunk_loads_complete(prog, rep, 'R03.7')

    # ---------------- R03.5 a failed tag comparison is an error for the caller of the normal reader (never skipped)
    from .c04 import wrong_tag_swallows
    fs_read = find_bodies(prog, 'mla', adt='layers::encrypt::EncryptionLayerFailSafeReader', name='read', trait='std::io::Read')
    n_s, sites, bad = wrong_tag_swallows(prog, skip_keys=tuple(b.key for b in fs_read))
    rep.floor('R03.5', n_s, 5, 'call sites of functions that may return AuthenticatedDecryptionWrongTag')
    badk = {(b.key, blk.idx): okb for b, blk, okb in bad}
    cnt = collections.Counter()
    for (bk, bi), (b, blk) in sorted(sites.items()):
        if any(bk == f.key for f in fs_read):
            continue   # the repair reader stops there on purpose (C04)
        rep.fn(b)
        base = '%s|%s' % (b.nkey, blk.term.cmethod or 'fn-pointer-call')
        key = 'R03.5|%s#%d|wrong-tag-propagated' % (base, cnt[base])
        cnt[base] += 1
        okb = badk.get((bk, bi))
        rep.ob('R03.5', okb is None, key, 'a wrong-tag error of %s is handed to the caller' % blk.term.cmethod if okb is None else
               'a wrong-tag error returned by %s can reach an Ok(..) result of %s (at %s): the altered chunk is skipped and later bytes are returned at the wrong positions'
               % (blk.term.cmethod, b.nkey, b.loc(okb)), b.loc(blk.idx))

    # ---------------- R03.3 chunk binding
    # build_nonce itself: the nonce contains the archive prefix and the 4 low-order bytes of the chunk counter (whatever the endianness --
    # that is C06's concern): two chunk numbers below 2^32 never give the same nonce
    bn = one_body(prog, rep, 'R03.3', 'mla', exact='layers::encrypt::build_nonce')
    if bn is not None:
        from .c06 import nonce_layout
        layout = nonce_layout(prog, bn)
        ctr = [(rng, w) for rng, w in layout if w in ('ctr:be', 'ctr:le') and rng is not None and None not in rng and rng[1] - rng[0] == 4]
        pre = [(rng, w) for rng, w in layout if w == 'prefix' and rng is not None and None not in rng and rng[1] - rng[0] == 8]
        disjoint = bool(ctr) and bool(pre) and (ctr[0][0][1] <= pre[0][0][0] or pre[0][0][1] <= ctr[0][0][0])
        ok = len(ctr) == 1 and len(pre) == 1 and disjoint and len(layout) == 2
        rep.ob('R03.3', ok, 'R03.3|%s|nonce-binds-chunk-number' % bn.nkey, 'nonce = 8-byte archive prefix + the 4 low-order bytes of the chunk counter (injective in the chunk number)' if ok else
               'the nonce does not contain the 4 low-order bytes of the chunk counter next to the 8-byte prefix (layout %s): different chunks can be sealed under the same nonce, '
               'so swapped / duplicated / dropped chunks still authenticate' % (layout,), bn.loc())
    news = []
    for body in mla.bodies:
        if not body.defpath.startswith('layers::encrypt::'):
            continue
        for b in body.calls():
            if b.term.cdef == 'crypto::aesgcm::AesGcm256::new':
                news.append((body, b))
    rep.floor('R03.3', len(news), 2, 'AesGcm256::new call sites in layers::encrypt')
    COUNTER_FIELDS = {'current_chunk_number', 'current_ctr'}
    for body, b in news:
        rep.fn(body)
        t = b.term
        key = 'R03.3|%s|AesGcm256::new|nonce' % body.nkey
        # nonce argument must-derive from a build_nonce call
        bn = []

        def is_bn(kind, obj, bb, bn=bn):
            if kind == 'call' and obj.cdef == 'layers::encrypt::build_nonce':
                bn.append((bb, obj))
                return True
            return False
        w = []
        a1 = t.args[1]
        ok = a1.place is not None and must_derive(body, a1.place[0], is_bn, why=w) and len(bn) >= 1
        if not ok:
            rep.ob('R03.3', False, key, 'nonce of AesGcm256::new does not come from build_nonce: %s' % '; '.join(w), body.loc(b.idx))
            continue
        allok = True
        msgs = []
        for (bb, bt) in bn:
            ctr = bt.args[1]
            if ctr.kind == 'const':
                good = ctr.const_int() == 0 and body.name == 'new'
                msgs.append('counter literal %s in %s' % (ctr.txt(), body.name))
            else:
                e = expr_of(body, ctr)
                good = e[0] == 'place' and place_fields(e[1])[-1:] and place_fields(e[1])[-1] in COUNTER_FIELDS and e[1][0] == 1
                msgs.append('counter = %s' % (place_str(body, e[1]) if e[0] == 'place' else e[0]))
            if not good:
                allok = False
        rep.ob('R03.3', allok, key, 'nonce = build_nonce(prefix, %s)%s' % (', '.join(msgs), '' if allok else ' -- counter is not the layer chunk-counter field (or literal 0 in a constructor)'), body.loc(b.idx))
    # every chunk load outside constructors is dominated by a store to the counter field
    loads = []
    for body in mla.bodies:
        for b in body.calls():
            if b.term.cdef in (INTERNAL + 'load_in_cache', INTERNAL + 'load_in_cache_unauthenticated'):
                loads.append((body, b))
    rep.floor('R03.3.load', len(loads), 2, 'chunk load call sites')
    for body, b in loads:
        key = 'R03.3|%s|%s|counter-set-before-load' % (body.nkey, b.term.cmethod)
        if body.name == 'new':
            # constructor: receiver freshly built by EncryptionLayerInternal::new (counter literal 0 checked above)
            ok = any(c.term.cdef == 'layers::encrypt::EncryptionLayerInternal::<T>::new' and body.dominates(c.idx, b.idx) for c in body.calls())
            rep.ob('R03.3', ok, key, 'constructor loads chunk 0 of a freshly built layer' if ok else 'chunk load in a constructor not preceded by EncryptionLayerInternal::new', body.loc(b.idx))
            continue
        stores = []
        for bl in body.blocks:
            for i, s in enumerate(bl.stmts):
                if s.kind == 'assign' and place_fields(s.place)[-1:] == ['current_chunk_number']:
                    stores.append(bl.idx)
        ok = any(body.dominates(sb, b.idx) for sb in stores)
        rep.ob('R03.3', ok, key, 'store to current_chunk_number dominates the chunk load' if ok else
               'chunk load not dominated by an assignment of current_chunk_number', body.loc(b.idx))

    # ---------------- R03.4 footer through the authenticated stack
    fc = [b for b in mla.bodies if b.defpath.startswith('ArchiveReader::<') and b.name == 'from_config']
    if not fc:
        rep.ob('R03.4', False, 'R03.4|anchor|ArchiveReader::from_config', 'ArchiveReader::from_config not found')
    else:
        body = fc[0]
        rep.fn(body)
        des = [b for b in body.calls() if b.term.cdef == 'ArchiveFooter::deserialize_from']
        enc = [b for b in body.calls() if b.term.cdef.startswith('layers::encrypt::EncryptionLayerReader::') and b.term.cmethod == 'new']
        ok = len(des) == 1 and len(enc) == 1
        if not ok:
            rep.ob('R03.4', False, 'R03.4|ArchiveReader::from_config|anchors', 'expected one footer deserialisation and one EncryptionLayerReader::new (found %d / %d)' % (len(des), len(enc)), body.loc())
        else:
            d, e = des[0], enc[0]
            # the source of the footer derives from the local that receives the encryption layer
            o = origins(body, [d.term.args[0].place[0]])
            src_ok = e.idx in o.calls
            # the encryption layer constructor is edge-dominated by the true outcome of contains(ENCRYPT)
            guard = None
            for bl in body.blocks:
                r = branch_on_call(prog, body, bl.idx)
                if r and r[1].cmethod == 'contains' and any(a.const_def() and a.const_def().endswith('ENCRYPT') for a in r[1].args):
                    guard = (bl.idx, r[2], r[3])
            g_ok = guard is not None and body.edge_dominates((guard[0], guard[1]), e.idx)
            # on the ENCRYPT edge, deserialisation cannot be reached without passing the constructor
            mp = guard is not None and not [x for x in [d.idx] if x in body.reachable(guard[1], removed_blocks=[e.idx])]
            rep.ob('R03.4', src_ok and g_ok and mp, 'R03.4|ArchiveReader::from_config|footer-source',
                   'footer deserialised from the layered source; EncryptionLayerReader::new under contains(ENCRYPT); no bypass' if (src_ok and g_ok and mp) else
                   'footer source does not (only) come through the encryption layer under the ENCRYPT test (src=%s guard=%s nobypass=%s)' % (src_ok, g_ok, mp),
                   body.loc(d.idx))
    # list_files / get_file / get_hash read from self.metadata
    for name in ('list_files', 'get_file', 'get_hash'):
        bs = [b for b in mla.bodies if b.defpath.startswith('ArchiveReader::<') and b.name == name]
        if not bs:
            rep.ob('R03.4', False, 'R03.4|anchor|ArchiveReader::%s' % name, 'ArchiveReader::%s not found' % name)
            continue
        body = bs[0]
        rep.fn(body)
        from ..inline import inlined_body
        body = inlined_body(prog, body, depth=1)      # the "metadata present?" test may be a shared private accessor
        gets = [b for b in body.calls() if b.term.cmethod in ('get', 'keys') and 'HashMap' in b.term.cdef]
        ok = bool(gets)
        for g in gets:
            o = origins(body, [g.term.args[0].place[0]], through_calls=False)
            if not any(f[-1] in ('metadata', 'files_info') and 'metadata' in f for f in o.fields):
                # `self.metadata.as_ref().ok_or(..)?` and similar: the receiver must-derives, through value-preserving wrappers, from self.metadata
                def from_meta(k, ob, bb):
                    return k == 'assign' and ob.kind == 'assign' and ob.rv is not None and any(pl[0] == 1 and 'metadata' in place_fields(pl) for pl in ob.rv.src_places())
                if not must_derive(body, g.term.args[0].place[0], from_meta, extra_transparent=('ok_or', 'ok_or_else', 'as_ref', 'branch', 'unwrap', 'expect')):
                    # through an accessor written with combinators (`metadata.map(|f| &f.files_info).ok_or(..)`): everything the receiver is computed from
                    # is self.metadata -- no other field of self, no other parameter
                    o2 = origins(body, [g.term.args[0].place[0]])
                    selff = {f[1] for f in o2.fields if f and f[0] == 'self' and len(f) > 1}
                    if not (selff and selff <= {'metadata'} and o2.params <= {1}):
                        ok = False
        rep.ob('R03.4', ok, 'R03.4|ArchiveReader::%s|metadata' % name,
               'names/offsets looked up in self.metadata.files_info' if ok else 'lookup does not come from self.metadata', body.loc())
