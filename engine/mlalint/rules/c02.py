"""C02 -- repair of any truncated archive is sound (clause level)."""
from ..core import *
from .. import census
from . import c08

EXPLANATION = ("(R02.1) panic-site census (same engine and table as C08) over everything reachable from ArchiveFailSafeReader::{from_config,new,"
               "convert_to_archive} and the fail-safe layer readers; and MIR path rules on convert_to_archive: (R02.2) a file id is marked done only on "
               "the equal edge of the comparison between Sha256::finalize of the per-id running hash and the hash carried by the EndOfFile block, and "
               "every slice fed to the running hash is the slice handed to output.append_file_content just before; (R02.3) every Ok result passes "
               "through output.finalize(), and the clean-up loop ends every id that is not in the done list; (R02.4) EndOfOriginalArchiveData is built "
               "only under the EndOfArchiveData arm, a non-empty unfinished list overwrites the status with UnfinishedFiles before the Ok return, and "
               "every status store in the block loop is followed by leaving the loop; (R02.5) the block / header / footer parsers obtain every field with an exact read "
               "(read_exact, byteorder read_uN, bincode) or compare the count of a lenient one (read, read_to_end, io::copy) before use, so a field cut by truncation is an "
               "error and never a shorter value; (R02.6) the vector the encryption reader stores in chunk_cache is at most CHUNK_SIZE long on every path (length upper-bound "
               "analysis over with_capacity / read_to_end(take(K)) / resize / truncate), so tag bytes of a cut chunk are never handed out as data; (R02.7) every error convert_to_archive returns is produced by the output writer: source-side failures "
               "become a status and reach the clean-up and finalize; (R02.8) = R13.4; (R02.9) the buffer the block copy loop reads into is allocated with a size of at least 1 (an empty buffer makes every read return 0 and the loop never ends). Content being a prefix "
               "of the original is runtime and not decided.")
TRUSTED = ['rustc MIR', 'sha2 Digest', 'std collections']
ASSUMPTIONS = ['termination of the block loop is not decided (each iteration consumes at least the block tag)']


def run(prog, rep, tier):
    # ---------------- R02.1
    scope, taint, seen, table = c08.run_census(prog, rep, 'c02', 'R02.1')
    # "repair terminates": the buffer of the block copy loop is never empty (shared with C08)
    c08.read_buffers_never_empty(prog, rep, scope, 'R02.9')
    rep.floor('R02.1', len(seen), 40, 'panic sites in the fail-safe scope')
    body = one_body(prog, rep, 'R02', 'mla', adt='ArchiveFailSafeReader', name='convert_to_archive')
    if body is None:
        return
    froms = [b for b in body.calls() if cnorm(b.term) == 'ArchiveFileBlock::from']
    if len(froms) != 1:
        rep.ob('R02', False, 'R02|%s|anchor|ArchiveFileBlock::from' % body.nkey, 'expected one block parse site, found %d' % len(froms), body.loc())
        return
    fb = froms[0]
    loop = body.loop_blocks()
    block_sw = [x for x in arm_of_enum_switch(prog, body, adt='ArchiveFileBlock') if len(x[1]['arms']) >= 3 and body.dominates(fb.idx, x[0])]
    if len(block_sw) != 1:
        rep.ob('R02', False, 'R02|%s|anchor|block-switch' % body.nkey, 'expected one switch on the parsed block kind, found %d' % len(block_sw), body.loc())
        return
    sbb, si = block_sw[0]
    arm = {v: enum_arm_target(si, v) for v in ('FileStart', 'FileContent', 'EndOfFile', 'EndOfArchiveData')}

    # ---------------- R02.2 done only after the hash matched
    # the done list: a Vec<u64> that is pushed to, or a HashSet / BTreeSet<u64> that is inserted into
    pushes = [b for b in body.calls() if (b.term.cmethod == 'push' and 'Vec::<u64>' in b.term.cargs) or
              (b.term.cmethod == 'insert' and ('HashSet::<u64' in b.term.cargs or 'BTreeSet::<u64' in b.term.cargs))]
    contains = [b for b in body.calls() if b.term.cmethod == 'contains' and 'u64' in b.term.cargs]
    # ... among the u64 collections of the function, the done list is the one the clean-up asks whether to leave a file alone: a `contains` after the block
    # loop with one outcome that reaches the clean-up's end_file and one that does not (other id collections -- statistics, ordering -- are not it)
    U64SETS = ('std::vec::Vec<u64', 'std::collections::HashSet<u64', 'std::collections::BTreeSet<u64')
    ends_ = [b for b in body.calls() if cnorm(b.term) == 'ArchiveWriter::end_file' and b.idx in loop and fb.idx not in body.reachable(b.idx)]
    done_vecs = set()
    for cb_ in contains:
        if fb.idx in body.reachable(cb_.idx) or not ends_:
            continue
        r_ = next((x for x in (branch_on_call(prog, body, bl.idx) for bl in body.blocks) if x and x[0] == cb_.idx), None)
        if r_ is None:
            continue
        heads_ = [b.idx for b in body.calls() if b.term.cmethod == 'next' and b.idx in loop and fb.idx not in body.reachable(b.idx)]
        reach_t = body.reachable(r_[2], removed_blocks=heads_)
        reach_f = body.reachable(r_[3], removed_blocks=heads_)
        if any(e.idx in reach_f for e in ends_) and not any(e.idx in reach_t for e in ends_):
            o = origins(body, [cb_.term.args[0].place[0]], through_calls=True)
            done_vecs |= {l for l in o.locals if body.lty(l).startswith(U64SETS)}
    if done_vecs:
        pushes = [pb for pb in pushes if origins(body, [pb.term.args[0].place[0]], through_calls=False).locals & done_vecs]
    else:
        # (no such test in the clean-up: every u64 collection that is filled is taken for a done list, as R02.3 will report the missing guard)
        for pb in pushes:
            o = origins(body, [pb.term.args[0].place[0]], through_calls=False)
            done_vecs |= {l for l in o.locals if body.lty(l).startswith(U64SETS)}
    rep.floor('R02.2', len(pushes), 1, 'done-marking pushes')
    fin = [b for b in body.calls() if b.term.cmethod == 'finalize' and 'sha2' in b.term.cargs]
    cmp_ok = None
    for bl in body.blocks:
        r = branch_on_call(prog, body, bl.idx)
        if r is None or r[1].cmethod not in ('eq', 'ne', 'ct_eq') or bl.idx not in body.reachable(arm['EndOfFile'] if arm['EndOfFile'] is not None else 0):
            continue
        sides = []
        for a in r[1].args[:2]:
            o = origins(body, [a.place[0]]) if a.place is not None else None
            if o is None:
                sides.append('?')
            elif any(f.idx in o.calls for f in fin):
                sides.append('computed')
            elif any([p for p in f if p == 'hash'] for f in o.fields) or any(body.lname(l) == 'hash' for l in o.locals):
                sides.append('stored')
            else:
                sides.append('?')
        if sorted(sides) == ['computed', 'stored']:
            cmp_ok = (bl.idx, r[2], r[3])   # (switch bb, equal-target, unequal-target)
    if cmp_ok is None:
        rep.ob('R02.2', False, 'R02.2|%s|hash-comparison' % body.nkey, 'no comparison between the computed SHA-256 and the hash of the EndOfFile block found in the EndOfFile arm', body.loc())
    else:
        # the computed hash is the finalize of the running hash removed from the per-id map for this block's id
        okf = False
        for f in fin:
            o = origins(body, [f.term.args[0].place[0]])
            if any(body.blocks[c].term.cmethod == 'remove' and 'HashMap' in body.blocks[c].term.cdef for c in o.calls):
                okf = True
        rep.ob('R02.2', okf, 'R02.2|%s|computed-hash-is-running-hash' % body.nkey, 'computed hash = finalize(running hash taken from the per-id map)' if okf else 'the compared hash is not the running hash of the file', body.loc(cmp_ok[0]))
        for pb in pushes:
            ok = body.edge_dominates((cmp_ok[0], cmp_ok[1]), pb.idx) and cmp_ok[1] != cmp_ok[2]
            okid = False
            a = pb.term.args[1]
            if a.place is not None:
                okid = must_derive(body, a.place[0], lambda k, ob, bb: k == 'assign' and ob.rv.r == 'use' and ob.rv.ops[0].place is not None and
                                   [p[2] for p in ob.rv.ops[0].place[1] if p[0] == 'down'] == ['EndOfFile'] and [p[2] for p in ob.rv.ops[0].place[1] if p[0] == 'f'] == ['id'])
            rep.ob('R02.2', ok and okid, 'R02.2|%s|done-only-after-hash-match' % body.nkey, 'id pushed to the done list only on the hash-equal edge, with the id of the EndOfFile block' if (ok and okid) else
                   'a file can be marked complete without its recomputed hash matching the stored one (edge=%s id=%s)' % (ok, okid), body.loc(pb.idx))
    # hashed slice == appended slice
    updates = [b for b in body.calls() if b.term.cmethod == 'update' and (b.term.ctrait.endswith('Digest') or 'Digest' in b.term.cdef)]
    appends = [b for b in body.calls() if cnorm(b.term) == 'ArchiveWriter::append_file_content']
    rep.floor('R02.2.update', len(updates), 1, 'running-hash updates')
    rep.floor('R02.2.append', len(appends), 1, 'append_file_content calls in the content loop')

    def slice_id(op):
        """(buffer local, range-end canonical) of a slice operand built by index(buf, ..end)"""
        o = origins(body, [op.place[0]]) if op.place is not None else None
        if o is None:
            return None
        for c in o.calls:
            t = body.blocks[c].term
            if t.cmethod == 'index' and len(t.args) >= 2:
                e = expr_of(body, t.args[1])
                if e[0] == 'agg' and e[3].j.get('adt', '').endswith('RangeTo'):
                    base = deref_expr(body, expr_of(body, t.args[0]))
                    bl = census.norm_place_c(body, base[1])[0] if base[0] in ('ref', 'place') else None
                    return (bl, census.canon(body, e[3].ops[0]))
        return None
    for u in updates:
        su = slice_id(u.term.args[1])
        doms = [a for a in appends if body.dominates(a.idx, u.idx)]
        ok = False
        for a in doms:
            sa = slice_id(a.term.args[3])
            size_c = census.canon(body, a.term.args[2])
            if su is not None and sa == su and size_c == su[1]:
                # no write to the range bound between the append and the update
                if not census.written_between(body, a.idx, u.idx, su[1]):
                    ok = True
        rep.ob('R02.2', ok, 'R02.2|%s|hash-covers-appended-slice' % body.nkey, 'the running hash is updated with exactly the slice appended to the output' if ok else
               'the slice fed to the running hash is not the slice (and length) handed to append_file_content', body.loc(u.idx))

    # ---------------- R02.3 always a valid archive
    fins = [b for b in body.calls() if cnorm(b.term) == 'ArchiveWriter::finalize']
    oks = [(b.idx, i) for b in body.blocks if not b.cleanup for i, s in enumerate(b.stmts) if s.kind == 'assign' and s.place == (0, ()) and s.rv.r == 'aggregate' and s.rv.j.get('variant') == 'Ok']
    rep.floor('R02.3', len(oks), 1, 'Ok results of convert_to_archive')
    avoid = body.reachable(0, removed_blocks=[f.idx for f in fins])
    bad = [bb for bb, _ in oks if bb in avoid]
    okfin = bool(fins) and not bad
    # and finalize must have succeeded: its Break arm does not reach Ok
    for f in fins:
        br = [b for b in body.calls() if b.term.cmethod == 'branch' and b.term.args[0].place and b.term.args[0].place[0] == f.term.dest[0]]
        if len(br) != 1:
            okfin = False
            continue
        bsi = switch_info(prog, body, br[0].term.target)
        brk = enum_arm_target(bsi, 'Break') if bsi and bsi['kind'] == 'enum' else None
        if brk is None or any(bb in body.reachable(brk) for bb, _ in oks):
            okfin = False
    rep.ob('R02.3', okfin, 'R02.3|%s|ok-only-after-finalize' % body.nkey, 'every Ok result follows a successful output.finalize()' if okfin else 'convert_to_archive can return Ok without finalizing the output archive', body.loc())
    # clean-up loop
    ends = [b for b in body.calls() if cnorm(b.term) == 'ArchiveWriter::end_file']
    rep.floor('R02.3.end', len(ends), 2, 'end_file calls')
    cleanup = [e for e in ends if e.idx in loop and fb.idx not in body.reachable(e.idx)]
    okc = len(cleanup) == 1
    msg = 'expected one end_file in the clean-up loop, found %d' % len(cleanup)
    if okc:
        e2 = cleanup[0]
        nxts = [b for b in body.calls() if b.term.cmethod == 'next' and b.idx in loop and fb.idx not in body.reachable(b.idx) and e2.idx in body.reachable(b.idx)]
        okc = len(nxts) == 1
        msg = 'clean-up iterator not found'
        if okc:
            n = nxts[0]
            # iterates the failsafe-id -> output-id map
            no = origins(body, [n.term.args[0].place[0]])
            # ... i.e. a map keyed by the failsafe id whose values come from the result of output.start_file (the output id, alone or in a record)
            open_maps = set()
            for ib in body.calls():
                it = ib.term
                if it.cmethod == 'insert' and len(it.args) == 3 and it.args[0].place is not None and it.args[2].place is not None:
                    vo = origins(body, [it.args[2].place[0]])
                    if any(cnorm(body.blocks[c].term) == 'ArchiveWriter::start_file' for c in vo.calls):
                        open_maps |= {l for l in origins(body, [it.args[0].place[0]], through_calls=False).locals
                                      if body.lty(l).startswith(('std::collections::HashMap<u64', 'std::collections::BTreeMap<u64'))}
            okmap = bool(no.locals & open_maps)
            guard = None
            for bl in body.blocks:
                if bl.idx not in body.reachable(n.idx):
                    continue
                r = branch_on_call(prog, body, bl.idx)
                if r and r[1].cmethod == 'contains':
                    o = origins(body, [r[1].args[0].place[0]], through_calls=True)
                    if o.locals & done_vecs:
                        guard = (bl.idx, r[2], r[3])
            nsi = switch_info(prog, body, n.term.target)
            some = enum_arm_target(nsi, 'Some') if nsi and nsi['kind'] == 'enum' else None
            okg = guard is not None and some is not None and body.edge_dominates((guard[0], guard[2]), e2.idx)
            skip = False
            if okg:
                r = body.reachable(some, removed_blocks=[e2.idx], removed_edges=[(guard[0], guard[1])])
                skip = n.idx in r
            elif guard is None and some is not None:
                # `map.into_iter().filter(|(id, _)| !done.contains(id))`: the test sits in the filter closure -- it keeps exactly the ids that are not
                # in the done list -- and every element that comes out of the iterator is ended
                from ..core import _FakeOp
                for fc_ in [body.blocks[c_] for c_ in no.calls if body.blocks[c_].term.cmethod == 'filter' and body.blocks[c_].term.ctrait == 'std::iter::Iterator']:
                    ce_ = expr_of(body, fc_.term.args[1]) if len(fc_.term.args) == 2 else ('unknown',)
                    if ce_[0] != 'agg' or ce_[3].j.get('agg') != 'closure':
                        continue
                    C_ = prog.body('mla', ce_[3].j['closure'])
                    caps_ = closure_captures(prog, body, C_) if C_ is not None else None
                    if not caps_:
                        continue
                    cts_ = [b_ for b_ in C_.calls() if b_.term.cmethod == 'contains']
                    cap_done = any(op_.place is not None and origins(body, [op_.place[0]], through_calls=False).locals & done_vecs for op_ in caps_)
                    pol_ = comparison_polarity(C_, expr_of(C_, _FakeOp((0, ()))))
                    if len(cts_) == 1 and cap_done and pol_ is not None and pol_[0] == cts_[0].idx and pol_[2] is False:
                        okg = True
                        skip = n.idx in body.reachable(some, removed_blocks=[e2.idx])
            okc = okmap and okg and not skip
            msg = 'every id of the open-file map that is not in the done list is ended' if okc else \
                'the clean-up loop can skip end_file for a file that was not completed (map=%s guard=%s skip=%s)' % (okmap, okg, skip)
    rep.ob('R02.3', okc, 'R02.3|%s|cleanup-ends-open-files' % body.nkey, msg, body.loc())

    # ---------------- R02.4 status discipline
    errl = body.local_by_name('error')
    stores = []
    for b in body.blocks:
        if b.cleanup:
            continue
        for i, s in enumerate(b.stmts):
            if s.kind == 'assign' and s.rv.r == 'aggregate' and s.rv.j.get('adt') == 'errors::FailSafeReadError':
                stores.append((b.idx, i, s.rv.j.get('variant')))
    rep.floor('R02.4', len(stores), 14, 'status constructions')
    for bb, i, v in stores:
        if v == 'EndOfOriginalArchiveData':
            ok = arm['EndOfArchiveData'] is not None and len({arm[x] for x in arm}) == 4 and body.edge_dominates((sbb, arm['EndOfArchiveData']), bb)
            rep.ob('R02.4', ok, 'R02.4|%s|EndOfOriginalArchiveData-only-on-end-marker' % body.nkey, 'EndOfOriginalArchiveData built only under the EndOfArchiveData arm' if ok else
                   'repair can report EndOfOriginalArchiveData without having read the end-of-data marker', body.loc(bb, i))
        if v in ('NoError', 'UnfinishedFiles'):
            continue
        # leaves the block loop
        ok = fb.idx not in body.reachable(bb) or bb not in loop
        rep.ob('R02.4', ok, 'R02.4|%s|status:%s|leaves-loop' % (body.nkey, v), '%s is followed by leaving the block loop' % v if ok else 'after recording %s the block loop continues: data after an inconsistency is still used' % v, body.loc(bb, i))
    # unfinished files overwrite the status
    guard = None
    for bl in body.blocks:
        r = branch_on_call(prog, body, bl.idx)
        if r and r[1].cmethod == 'is_empty' and 'Vec::<std::string::String>' in r[1].cargs:
            guard = (bl.idx, r[2], r[3])
    unf = [(bb, i) for bb, i, v in stores if v == 'UnfinishedFiles']
    ok = guard is not None and len(unf) == 1 and body.edge_dominates((guard[0], guard[2]), unf[0][0]) and all(body.dominates(guard[0], bb) for bb, _ in oks)
    if ok:
        # the aggregate is stored into the status variable that is returned
        s = body.blocks[unf[0][0]].stmts[unf[0][1]]
        tgt = s.place[0]
        ro = set()
        for bb, i in oks:
            ro |= origins(body, [body.blocks[bb].stmts[i].rv.ops[0].place[0]], through_calls=False).locals
        flow = forward_locals(body, [tgt], through_calls=False)
        ok = bool(flow & ro) and unf[0][0] not in body.reachable(guard[1], removed_blocks=[guard[0]]) if True else ok
        # on the non-empty edge every path to the Ok return passes the overwrite
        r = body.reachable(guard[2], removed_blocks=[unf[0][0]])
        ok = ok and not any(bb in r for bb, _ in oks)
    rep.ob('R02.4', bool(ok), 'R02.4|%s|unfinished-files-reported' % body.nkey, 'a non-empty unfinished list always replaces the status by UnfinishedFiles before Ok is returned' if ok else
           'repair can return a status other than UnfinishedFiles although some files were closed incomplete', body.loc())
    # ... and the list names *every* file the clean-up closed: on each path from the clean-up's end_file back to the next element, the name is pushed onto the
    # vector that the UnfinishedFiles status carries (no further condition -- "known to be damaged" -- decides whether a file closed incomplete is reported)
    if len(unf) == 1 and len(cleanup) == 1:
        s_ = body.blocks[unf[0][0]].stmts[unf[0][1]]
        vlocals = set()
        for op in s_.rv.ops:
            if op.place is not None:
                vlocals |= {l for l in origins(body, [op.place[0]], through_calls=False).locals if body.lty(l).startswith('std::vec::Vec<')}
        pushes = [b.idx for b in body.calls() if b.term.cmethod in ('push', 'insert', 'extend', 'push_back') and b.term.args and b.term.args[0].place is not None and
                  origins(body, [b.term.args[0].place[0]], through_calls=False).locals & vlocals]
        e2_ = cleanup[0]
        heads = [b for b in body.calls() if b.term.cmethod == 'next' and b.idx in loop and fb.idx not in body.reachable(b.idx) and e2_.idx in body.reachable(b.idx)]
        okn = bool(vlocals) and bool(pushes) and len(heads) == 1
        if okn:
            # leaving through the error of end_file (`?`) is not "going on": only the way back to the loop head counts
            r_ = reachable_vs(body, e2_.idx, removed_blocks=pushes) if False else body.reachable(e2_.term.target, removed_blocks=pushes)
            okn = heads[0].idx not in r_
        # ... and nothing takes names out of that list again (a cap on the report hides files that were closed incomplete)
        shrink = [b.idx for b in body.calls() if b.term.cmethod in ('truncate', 'pop', 'clear', 'remove', 'swap_remove', 'drain', 'retain', 'retain_mut', 'dedup', 'dedup_by', 'dedup_by_key',
                                                                    'split_off', 'resize', 'resize_with', 'take', 'replace', 'set_len')
                  and b.term.args and b.term.args[0].place is not None and origins(body, [b.term.args[0].place[0]], through_calls=False).locals & vlocals]
        rep.ob('R02.4', not shrink, 'R02.4|%s|unfinished-list-never-shortened' % body.nkey, 'no name is removed from the list UnfinishedFiles carries' if not shrink else
               'names are removed from the list of unfinished files before it is reported (%s): a file closed incomplete is presented as recovered in full'
               % ', '.join(body.loc(x) for x in shrink), body.loc(shrink[0]) if shrink else body.loc())
        rep.ob('R02.4', okn, 'R02.4|%s|every-closed-file-is-named' % body.nkey, 'every file ended by the clean-up is pushed onto the list UnfinishedFiles carries' if okn else
               'the clean-up can end a file that was not completed without naming it in UnfinishedFiles: a file missing its end is then presented as recovered in full', body.loc(e2_.idx))

    r02_5(prog, rep)
    r02_6(prog, rep)
    r02_7(prog, rep, body)
    # R02.8: the repair loop reads Ok(0) as the end of a block -- the fail-safe decompressor never reports 0 mid-stream (same rule as R13.4)
    from .c13 import decoder_zero_count_rule
    decoder_zero_count_rule(prog, rep, 'R02.8')


EXACT_READS = {'read_exact', 'read_u8', 'read_u16', 'read_u32', 'read_u64', 'read_u128', 'read_i8', 'read_i16', 'read_i32', 'read_i64',
               'read_u16_into', 'read_u32_into', 'read_u64_into'}
LENIENT_READS = {'read', 'read_to_end', 'read_to_string', 'read_vectored', 'read_buf', 'bytes'}
PARSERS = [('ArchiveFileBlock', 'from'), ('ArchiveHeader', 'from'), ('ArchiveFooter', 'deserialize_from')]


def r02_5(prog, rep):
    """the structure parsers are all-or-error: a block / header / footer field is obtained with an exact read (read_exact, byteorder read_uN,
    bincode deserialize: all fail with UnexpectedEof on a short source) or, for a lenient read (read, read_to_end, io::copy: return what
    arrived), the count obtained is compared before the value is used. Otherwise a truncated field is accepted as a shorter, fabricated one."""
    from .c13 import ok_payload_locals
    roots = []
    for adt, name in PARSERS:
        bs = find_bodies(prog, 'mla', adt=adt, name=name)
        if not bs:
            rep.ob('R02.5', False, 'R02.5|anchor|%s::%s' % (adt, name), 'structure parser %s::%s not found' % (adt, name), '')
        roots += bs
    # parser level: the parsers and what they call by exact workspace calls; the Read implementations of the layer stack the source is made of
    # are the byte transport (their own short-read discipline is C13's), not parsers
    seen = {}
    st = list(roots)
    while st:
        b0 = st.pop()
        if b0.key in seen:
            continue
        seen[b0.key] = b0
        for blk in b0.calls():
            cands, exact = resolve_call(prog, b0, blk.term)
            if exact and len(cands) == 1 and cands[0].pkg == 'mla' and cands[0].impl_trait not in ('std::io::Read', 'std::io::Seek', 'std::io::Write'):
                st.append(cands[0])
        st.extend(prog.closures_of(b0))
    scope = list(seen.values())
    n = 0
    for body in sorted(scope, key=lambda b: b.nkey):
        cnt = collections.Counter()
        for b in body.calls():
            t = b.term
            cn = cnorm(t)
            fam = None
            if t.ctrait in ('std::io::Read', 'byteorder::ReadBytesExt') and t.cmethod in EXACT_READS:
                fam = 'exact'
            elif t.ctrait == 'std::io::Read' and t.cmethod in LENIENT_READS:
                fam = 'lenient'
            elif cn == 'std::io::copy':
                fam = 'lenient'
            elif 'deserialize_from' in cn or (t.cmethod in ('deserialize_from', 'deserialize') and 'bincode' in (t.cdef or '')):
                fam = 'exact'
            if fam is None:
                continue
            rep.fn(body)
            n += 1
            base = '%s|%s' % (body.nkey, t.cmethod or cn)
            key = 'R02.5|%s#%d|exact-or-count-checked' % (base, cnt[base])
            cnt[base] += 1
            if fam == 'exact':
                rep.ob('R02.5', True, key, '%s fails on a short source' % (t.cmethod or cn), body.loc(b.idx), sample='exact read' if n < 6 else None)
                continue
            pay = ok_payload_locals(body, b)
            checked = False
            for bl in body.blocks:
                si = switch_info(prog, body, bl.idx)
                if si and si['kind'] == 'bool':
                    e = expr_of(body, si['cond'])
                    if e[0] == 'binop' and e[1] in ('Eq', 'Ne', 'Lt', 'Le', 'Gt', 'Ge'):
                        ls = set()
                        for side in (e[2], e[3]):
                            if side[0] == 'place':
                                ls |= origins(body, [side[1][0]], through_calls=False).locals | {side[1][0]}
                        if ls & pay:
                            checked = True
            rep.ob('R02.5', checked, key, 'lenient read whose count is compared before use' if checked else
                   'a structure parser obtains a field with %s and never tests how many bytes arrived: a field cut by truncation is accepted as a shorter one '
                   '(repair would output a name / value that the original archive does not contain)' % (t.cmethod or cn), body.loc(b.idx))
    rep.floor('R02.5', n, 12, 'source reads in the block / header / footer parsers')


def r02_7(prog, rep, body):
    """repair always ends by finalizing its output: the only errors convert_to_archive returns (leaving the output unfinished) are errors of the output
    writer itself; whatever goes wrong on the source side becomes a status and the loop is left towards the clean-up and finalize"""
    n = 0
    cnt = collections.Counter()
    for b in body.blocks:
        if b.cleanup:
            continue
        origin_calls = None
        where = None
        t = b.term
        def producers(local):
            got = []

            def src(k, ob, bb):
                if k == 'call' and ob.cmethod not in ('branch', 'from_residual', 'into', 'from', 'map_err'):
                    got.append(ob)
                    return True
                return False
            return got if must_derive(body, local, src) else []
        if t.kind == 'call' and t.cmethod == 'from_residual' and t.dest == (0, ()):
            origin_calls = producers(t.args[0].place[0]) if t.args and t.args[0].place is not None else []
            where = body.loc(b.idx)
        for i, st in enumerate(b.stmts):
            if st.kind == 'assign' and st.place == (0, ()) and st.rv.r == 'aggregate' and st.rv.j.get('variant') == 'Err':
                origin_calls = producers(st.rv.ops[0].place[0]) if st.rv.ops and st.rv.ops[0].place is not None else []
                where = body.loc(b.idx, i)
        if origin_calls is None:
            continue
        n += 1
        names = sorted({cnorm(ct).rsplit('::', 2)[-2] + '::' + (ct.cmethod or '?') if '::' in cnorm(ct) else (ct.cmethod or '?') for ct in origin_calls})
        from_output = bool(origin_calls) and all(cnorm(ct).startswith('ArchiveWriter::') for ct in origin_calls)
        base = 'R02.7|%s|error-return|%s' % (body.nkey, '+'.join(names) or 'literal')
        key = '%s#%d' % (base, cnt[base])
        cnt[base] += 1
        rep.ob('R02.7', from_output, key, 'error of the output writer (%s) is returned' % ', '.join(names) if from_output else
               'convert_to_archive returns an error that does not come from the output writer (%s) without finalizing the output: the repaired archive is left '
               'unfinished and does not open' % (', '.join(names) or 'a literal error'), where)
    rep.floor('R02.7', n, 3, 'error returns of convert_to_archive')


def r02_6(prog, rep):
    """what the encryption reader exposes as the plaintext of a chunk is at most CHUNK_SIZE bytes long: the vector stored in chunk_cache (and handed
    to the cipher) never includes bytes of the 16-byte tag that follows the chunk, whatever the number of bytes the truncated source delivered"""
    mla = prog.crates['mla']
    cap = mla.const_int('layers::encrypt::CHUNK_SIZE') or mla.const_int('CHUNK_SIZE')
    n = 0
    for body in mla.bodies:
        if not norm(body.defpath).startswith('layers::encrypt::EncryptionLayerInternal::') or body.kind == 'Closure':
            continue
        for bl in body.blocks:
            if bl.cleanup:
                continue
            for i, st in enumerate(bl.stmts):
                if st.kind == 'assign' and place_fields(st.place)[-1:] == ['chunk_cache'] and st.rv.r == 'use' and st.rv.ops[0].place is not None:
                    # self.chunk_cache = Cursor::new(data)
                    d = unique_def(body, st.rv.ops[0].place[0])
                    if d is None or d[2] != 'call' or d[3].cmethod != 'new' or 'Cursor' not in cnorm(d[3]):
                        continue
                    a0 = d[3].args[0]
                    if a0.place is None:
                        continue   # Cursor::new(Vec::new()) in constructors
                    sds = [x for x in body.defs.get(a0.place[0], []) if not (x[2] == 'assign' and x[3].place[1])]
                    src = sds[0] if len(sds) == 1 else None
                    if src is not None and src[2] == 'call' and src[3].cmethod in ('new', 'with_capacity') and not [e for e in mutarg_defs(body).get(a0.place[0], []) if e[0] != src[0]]:
                        continue   # an empty vector
                    n += 1
                    rep.fn(body)
                    ub, why = census.vec_len_ub(prog, body, a0.place[0], d[0])
                    ok = ub is not None and cap is not None and ub <= cap
                    rep.ob('R02.6', ok, 'R02.6|%s|chunk_cache|plaintext-at-most-chunk-size' % body.nkey,
                           'the vector stored in chunk_cache is at most %s bytes long (%s)' % (ub, why) if ok else
                           'the vector stored in chunk_cache can be longer than CHUNK_SIZE=%s (bound: %s; %s): when the source is cut inside a tag, tag bytes are decrypted '
                           'and handed out as file data' % (cap, ub, why), body.loc(bl.idx, i))
    rep.floor('R02.6', n, 2, 'stores of a loaded chunk into chunk_cache')


def thorough_extra(rep, verif, repo):
    return c08.clippy_superset(rep, verif, repo, 'R02.1x', ['mla'])
