"""C15 -- streaming keeps memory bounded independently of the amount of data (growth-site census)."""
import json, os
from ..core import *
from .. import census

EXPLANATION = ("Census of every container growth / sized allocation on the streaming paths (bodies of crate mla reachable from ArchiveWriter's data methods, "
               "the Write/Read impls of the layers, convert_to_archive and linear_extract): Vec/String/map push, extend, insert, append, resize, reserve, "
               "with_capacity, vec![x; n], to_vec of byte slices, read_to_end, collect, io::copy into a Vec. A site is accepted when (a) its size is "
               "bounded by a named constant (interval analysis: constants, min(), take() limits), or (b) it is listed in tables/growth.json with its class "
               "-- per file, per non-contiguous run, per 4 MiB block (4 bytes), bounded buffer with the invariant that bounds it. Any other site "
               "(e.g. buffering a whole file, keeping a list of blocks) is a violation. The number of bytes actually in use, and the allocator behaviour of "
               "brotli, are runtime facts and not decided. (R15.2) in append_file_content a run is recorded (mark_continuous_block) only on paths that also write a content block; (R15.3) = R09.5: current_id names the file of the block written last, so a run is opened only for a non-contiguous block.")
TRUSTED = ['rustc MIR', 'brotli / sha2 / RustCrypto internal buffers are of constant size']
ASSUMPTIONS = ['memory proportional to the number of files and of non-contiguous runs is allowed by the property statement']

TBL = os.path.join(os.path.dirname(os.path.dirname(os.path.dirname(os.path.abspath(__file__)))), 'tables', 'growth.json')
GROW_METHODS = {'push', 'extend', 'extend_from_slice', 'insert', 'append', 'push_str', 'push_back', 'push_front', 'extend_from_within'}
ALLOC_METHODS = {'with_capacity', 'resize', 'reserve', 'reserve_exact', 'resize_with'}
CONTAINERS = ('Vec', 'String', 'HashMap', 'HashSet', 'VecDeque', 'BTreeMap', 'BTreeSet', 'BinaryHeap')
BOUND_CAP = 2 ** 24   # 16 MiB: the largest constant-size buffer of the library is the 8 MiB repair cache


def scope_of(prog):
    roots = []
    for n in ('start_file', 'append_file_content', 'end_file', 'add_file', 'finalize', 'flush'):
        roots += find_bodies(prog, 'mla', adt='ArchiveWriter', name=n)
    roots += find_bodies(prog, 'mla', adt='ArchiveFailSafeReader', name='convert_to_archive')
    roots += find_bodies(prog, 'mla', exact='helpers::linear_extract')
    for b in prog.crates['mla'].bodies:
        if b.impl_trait in ('std::io::Write', 'std::io::Read') and b.name in ('write', 'read', 'flush') and b.kind != 'Closure':
            roots.append(b)
    return roots, [b for b in reachable_bodies(prog, roots) if b.pkg == 'mla']


def growth_sites(body):
    """(block, kind, size operand, container description, callee, key) of every growth / allocation site of the body"""
    cnt = collections.Counter()
    for b in body.calls():
        t = b.term
        cn = cnorm(t)
        m = t.cmethod
        kind = None
        size_op = None
        if m in GROW_METHODS and any(c in cn for c in CONTAINERS):
            kind = 'grow'
        elif m in ALLOC_METHODS and any(c in cn for c in CONTAINERS + ('BufReader', 'BufWriter')):
            kind = 'alloc'
            size_op = t.args[1] if m in ('resize', 'reserve', 'reserve_exact', 'resize_with') else t.args[0]
        elif 'vec::from_elem' in cn:
            kind = 'alloc'
            size_op = t.args[1]
        elif m == 'new' and ('brotli::Decompressor' in t.cdef or 'brotli::CompressorWriter' in t.cdef or 'brotli::DecompressorWriter' in t.cdef) and len(t.args) >= 2:
            # the brotli adaptors allocate their transfer buffer eagerly, with the size they are given
            kind = 'alloc'
            size_op = t.args[1]
        elif m in ('read_to_end', 'read_to_string') and t.ctrait == 'std::io::Read':
            kind = 'read_all'
        elif m == 'collect' and t.ctrait == 'std::iter::Iterator':
            kind = 'collect'
        elif cn == 'std::io::copy' and 'Vec<' in (t.callee.get('targs') or ['', ''])[-1]:
            kind = 'copy_into_vec'
        elif m in ('to_vec', 'to_owned', 'into_vec') and t.arg_tys and '[u8]' in t.arg_tys[0]:
            kind = 'dup_bytes'
        if kind is None:
            continue
        tgt = census.describe(body, t.args[0], 1) if t.args else ''
        base = '%s|%s|%s' % (body.nkey, (cn.split('::')[-2] + '::' + m) if '::' in cn else m, tgt)
        key = 'R15|%s#%d' % (base, cnt[base])
        cnt[base] += 1
        yield (b, kind, size_op, tgt, cn, key)


def run(prog, rep, tier):
    from .. import fieldinv
    census.PROG = prog
    fieldinv.compute(prog)
    roots, scope = scope_of(prog)
    rep.floor('R15.roots', len(roots), 25, 'streaming entry points')
    table = {e['key']: e for e in json.load(open(TBL))['sites']}
    seen = set()
    n = 0
    # containers of the reviewed sites: fields by name, named locals by (function, name)
    field_class, local_class, field_fns = {}, {}, {}
    for k, e in table.items():
        parts = k.split('|')
        if len(parts) >= 4:
            tg = parts[3].rsplit('#', 1)[0]
            if '.' in tg:
                field_class.setdefault(tg.rsplit('.', 1)[-1], e)
                field_fns.setdefault(tg.rsplit('.', 1)[-1], set()).add(parts[1])
            elif tg and tg != 'tmp':
                local_class.setdefault((parts[1], tg), e)
    for body in sorted(scope, key=lambda b: b.nkey):
        sites = list(growth_sites(body))
        # reviewed per-file sites on function-scoped containers, with the `match` arm of the block kind they sit in
        arm_edges = [(sbb, tg_) for sbb, si_ in arm_of_enum_switch(prog, body) if (si_['adt'] or '').endswith('ArchiveFileBlock') for tg_ in set(si_['arms'].values()) if tg_ is not None] \
            if any(k_ in table and '.' not in tgt_ for (_, _, _, tgt_, _, k_) in sites) else []
        reviewed_arm = {}
        for (b_, kind_, _, tgt_, _, k_) in sites:
            if k_ in table and kind_ == 'grow' and '.' not in tgt_ and table[k_]['class'] == 'per-file':
                for ed in arm_edges:
                    if body.edge_dominates(ed, b_.idx):
                        reviewed_arm.setdefault(ed, table[k_])
        for (b, kind, size_op, tgt, cn, key) in sites:
            t = b.term
            m = t.cmethod
            rep.fn(body)
            n += 1
            seen.add(key)
            # (a) automatically bounded
            auto = None
            if kind == 'alloc' and size_op is not None:
                iv = census.refined_interval(prog, body, b.idx, size_op)
                if iv is not None and iv[1] <= BOUND_CAP:
                    auto = 'allocation size within %s' % (iv,)
            elif kind == 'read_all':
                iv = census.interval(body, census._mk_copy((t.dest[0], ()))) if t.dest is not None else None
                if 'std::io::Take<' in t.callee.get('self_ty', '') and iv is not None and iv[1] <= BOUND_CAP:
                    auto = 'read_to_end through take() limited to %d bytes' % iv[1]
            elif kind == 'dup_bytes' and t.args and t.args[0].place is not None:
                # copy of `slice[..n]` / `slice[a..b]` with a bounded end
                so = origins(body, [t.args[0].place[0]])
                ix = [body.blocks[c] for c in so.calls if body.blocks[c].term.cmethod in ('index', 'index_mut') and len(body.blocks[c].term.args) >= 2]
                if len(ix) == 1 and b.idx not in body.loop_blocks():
                    e = expr_of(body, ix[0].term.args[1])
                    if e[0] == 'agg' and e[3].j.get('adt', '').rsplit('::', 1)[-1] in ('RangeTo', 'Range') and e[3].ops:
                        iv = census.refined_interval(prog, body, ix[0].idx, e[3].ops[-1])
                        if iv is not None and iv[1] <= BOUND_CAP:
                            auto = 'copy of a sub-slice of at most %d bytes' % iv[1]
            elif kind == 'copy_into_vec':
                ro = origins(body, [t.args[0].place[0]])
                tk = [body.blocks[c].term for c in ro.calls if body.blocks[c].term.cmethod == 'take' and body.blocks[c].term.ctrait == 'std::io::Read']
                if len(tk) == 1:
                    iv = census.refined_interval(prog, body, b.idx, tk[0].args[1])
                    # the destination must be a buffer created in this call (not an accumulator)
                    do = origins(body, [t.args[1].place[0]], through_calls=False)
                    fresh = not do.params and not do.fields
                    if iv is not None and iv[1] <= BOUND_CAP and fresh and b.idx not in body.loop_blocks():
                        auto = 'io::copy of at most %d bytes into a buffer local to the call' % iv[1]
            if auto:
                rep.ob('R15', True, key, 'bounded: ' + auto, body.loc(b.idx), sample='bounded: ' + auto if n < 8 else None)
                continue
            if key in table:
                e = table[key]
                rep.ob('R15', True, key, '%s: %s' % (e['class'], e['reason']), body.loc(b.idx), sample='%s: %s' % (e['class'], e['reason']))
                continue
            # the same container reached through another expression / method / function (refactoring): classified by the container, not by the site
            e = None
            if kind in ('grow', 'alloc') and tgt:
                if '.' in tgt:
                    fname = tgt.rsplit('.', 1)[-1].split('#')[0]
                    # same function as a reviewed site of that field (the expression changed), or a private helper whose only callers are
                    # functions with a reviewed site of that field (the push was moved into the helper): how often it runs is unchanged
                    fns = field_fns.get(fname, set())
                    if body.nkey in fns:
                        e = field_class.get(fname)
                    elif fns and not body.impl_trait and body.vis != 'pub':
                        callers = set()
                        for b2 in prog.crates[body.pkg].bodies:
                            for blk2 in b2.calls():
                                cands, exact = resolve_call(prog, b2, blk2.term)
                                if exact and len(cands) == 1 and cands[0].key == body.key:
                                    callers.add(b2.nkey)
                        if callers and callers <= fns:
                            e = field_class.get(fname)
                else:
                    e = local_class.get((body.nkey, tgt))
                    if e is None and kind == 'grow':
                        # another function-scoped container filled in the same `match` arm (one block kind) as a reviewed per-file container:
                        # it grows as often as that one does
                        lo = origins(body, [t.args[0].place[0]], through_calls=False) if t.args and t.args[0].place is not None else None
                        if lo is not None and not lo.params and not lo.fields:
                            for ed, e_ in reviewed_arm.items():
                                if body.edge_dominates(ed, b.idx):
                                    e = e_
            elif kind == 'collect' and t.args and t.args[0].place is not None:
                fo = origins(body, [t.args[0].place[0]])
                names = {f[-1] for f in fo.fields if f}
                for c2 in prog.closures_of(body):
                    pass
                hit = [field_class[n_] for n_ in names if n_ in field_class]
                if hit and b.idx not in body.loop_blocks():
                    e = hit[0]
                # collect() of an adapter chain over a collection that already is in memory: as many elements as that collection, at most
                chain = [body.blocks[c].term for c in fo.calls]
                ITER_OK = {'iter', 'into_iter', 'iter_mut', 'keys', 'values', 'values_mut', 'map', 'filter', 'filter_map', 'cloned', 'copied', 'enumerate', 'rev', 'take',
                           'skip', 'zip', 'by_ref', 'deref', 'as_slice', 'as_ref', 'branch', 'from_residual', 'map_while', 'take_while', 'skip_while', 'peekable', 'inspect'}
                roots = [body.lty(l) for l in fo.params] + [body.lty(l) for l in fo.locals if not body.defs.get(l)]
                inmem = [r for r in roots if any(x in r for x in ('HashMap<', 'Vec<', 'BTreeMap<', 'HashSet<', 'VecDeque<', '&[', '[u8;'))]
                if e is None and chain and all(ct.cmethod in ITER_OK for ct in chain) and inmem and b.idx not in body.loop_blocks():
                    e = {'class': 'derived', 'reason': 'collect() over a collection already held in memory (%s): bounded by its size' % inmem[0][:60]}
            if e is not None:
                rep.ob('R15', True, key, '%s (same container as a reviewed site): %s' % (e['class'], e['reason']), body.loc(b.idx))
                continue
            rep.ob('R15', False, key, 'unclassified growth site on a streaming path (%s %s on %s): memory may grow with the number of bytes streamed' % (kind, cn, tgt or '?'), body.loc(b.idx))
    rep.floor('R15', n, 12, 'growth / allocation sites on the streaming paths')
    for k in table:
        if k not in seen:
            rep.note('stale growth table entry: %s' % k)
    # "memory proportional to the number of non-contiguous runs": a run is recorded only together with a block actually written -- in
    # append_file_content, once mark_continuous_block has been called, every successful return passes the write of the content block
    af = [b for b in find_bodies(prog, 'mla', adt='ArchiveWriter', name='append_file_content') if b.kind != 'Closure']
    if len(af) != 1:
        rep.ob('R15.2', False, 'R15.2|anchor|ArchiveWriter::append_file_content', 'append_file_content not found')
    else:
        ab = af[0]
        rep.fn(ab)
        marks = [b for b in ab.calls() if cnorm(b.term).endswith('ArchiveWriter::mark_continuous_block')]
        dumps = [b for b in ab.calls() if cnorm(b.term).endswith('ArchiveFileBlock::dump')]
        okm = len(marks) == 1 and bool(dumps)
        msg = 'expected one mark_continuous_block and a block write (found %d / %d)' % (len(marks), len(dumps))
        if okm:
            mk = marks[0]
            env = {mk.term.dest[0]: 'Ok'} if mk.term.dest is not None and not mk.term.dest[1] else {}
            r = reachable_vs(ab, mk.term.target, removed_blocks=[d.idx for d in dumps], env0=env) if mk.term.target is not None else set()
            oks = [bb.idx for bb in ab.blocks if bb.idx in r and not bb.cleanup and any(
                st.kind == 'assign' and st.place == (0, ()) and st.rv.r == 'aggregate' and st.rv.j.get('variant') == 'Ok' for st in bb.stmts)]
            okm = not oks
            msg = 'after a run is recorded, success implies that a content block was written' if okm else \
                'append_file_content can record a run (mark_continuous_block) and return Ok without writing a block (%s): polling a file with empty appends grows the per-file ' \
                'offset list without bound' % ab.loc(oks[0])
        rep.ob('R15.2', okm, 'R15.2|%s|run-recorded-only-with-a-block' % (ab.nkey if len(af) == 1 else '?'), msg, ab.loc())
    # "proportional to the number of non-contiguous runs": a run is opened only when the block does not follow a block of the same file, which needs
    # current_id to name the file of the block written last (same rule as R09.5)
    from .c09 import r09_5
    r09_5(prog, rep, 'R15.3')
    # content is copied through io::copy on a bounded take, never materialised: ArchiveFileBlock::dump
    dump = prog.body('mla', 'ArchiveFileBlock::<T>::dump')
    if dump is not None:
        from ..inline import inlined_body
        dump = inlined_body(prog, dump)   # the bounded copy may be a private helper
        bad = [b for b in dump.calls() if b.term.cmethod in ('read_to_end', 'to_vec', 'collect', 'with_capacity') or 'vec::from_elem' in cnorm(b.term)]
        cps = [b for b in dump.calls() if cnorm(b.term) == 'std::io::copy']
        ok = not bad and len(cps) == 1 and 'Vec<' not in cps[0].term.cargs
        rep.ob('R15', ok, 'R15|mla::ArchiveFileBlock::dump|content-streamed', 'file content goes source -> io::copy(take(length)) -> destination, never into a Vec' if ok else
               'ArchiveFileBlock::dump materialises file content in memory', dump.loc())
