"""C06 -- archives conform to format v1 as documented, in both directions (shape level)."""
import json, os, re
import re
from ..core import *
from ..inline import inlined_body

EXPLANATION = ("Shape/constant conformance of the type-checked program against tables/format_v1.json (transcribed from FORMAT.md): (R06.1) evaluated "
               "format constants, block tags and Layers bits; (R06.2) field types in declaration order of every serialised struct (normalised by rustc) "
               "and their derived serde impls; (R06.3) per-arm ordered I/O operation sequences of ArchiveFileBlock::dump / ::from with the payload field "
               "each operation carries, tag byte mapping, header and footer codec sequences on both the writing and the reading side; (R06.4) every "
               "byteorder call is LittleEndian, every bincode (de)serialisation goes through Options with Bounded limit + FixintEncoding; (R06.5) nonce "
               "= prefix[..8] || u32::to_be_bytes(counter), counters start at 0 and are incremented by exactly 1 before each renewed cipher; (R06.6) "
               "layer order (encryption below compression) and gating in the four from_config stacks; (R06.7) HKDF-SHA256(None, dh).expand(\"KEY "
               "DERIVATION\") and AES-GCM(dh_key, \"ECIES NONCE0\", \"\") key wrap; (R06.8) cipher core types Ctr128BE<Aes256> + GHash, counter block "
               "nonce||0001, keystream offset 16; (R06.9) every entry pushed to compressed_sizes is the pos counter of the writer returned by CompressorWriter::into_inner() "
               "(stream closed, terminator counted) and every close records a size; (R06.10) chunk / block geometry of writer and readers; (R06.11) every brotli encoder is built to emit a plain RFC 7932 stream (CompressorWriter::new with a constant window of 10..=24 bits, or with_params without large_window / catable / appendable / magic_number / dictionary); (R06.12) = R10.2 on the compression reader: seek(Start) rebuilds the state and repositions the inner reader, so an archive is read from positions alone; (R06.13) = R03.8: seek(End) of the encryption reader lands on the end of the data whatever the length of the last chunk (the trailers are located from it); R06.3 also requires the u64 written before a byte string of a field to be len() of those bytes (not a character count). Interoperability with an independent decoder and GCM numerics are runtime facts and not decided.")
TRUSTED = ['rustc const evaluation and type normalisation', 'bincode 1.3 fixint/limit option semantics', 'byteorder', 'serde derive (fields serialised in declaration order)', 'hkdf, aes, ctr, ghash crates']
ASSUMPTIONS = ['FORMAT.md at the pinned commit is the published format (tables/format_v1.json transcribes it)']

TBL = os.path.join(os.path.dirname(os.path.dirname(os.path.dirname(os.path.abspath(__file__)))), 'tables', 'format_v1.json')

IO_KINDS = {
    'write_u8': 'u8', 'read_u8': 'u8',
    'write_all': 'bytes', 'read_exact': 'read_exact',
}


def classify_io(t):
    """map a call terminator to an abstract codec operation or None"""
    m = t.cmethod
    cn = cnorm(t)
    targs = t.callee.get('targs', [])
    tr = t.ctrait
    if tr in ('byteorder::WriteBytesExt', 'byteorder::ReadBytesExt'):
        base = m.split('_', 1)[1] if '_' in m else m
        if base in ('u8', 'i8'):
            return base
        endian = [a for a in targs if 'Endian' in a or a.startswith('byteorder::')]
        e = 'le' if any(a == 'byteorder::LittleEndian' for a in endian) else ('be' if any('BigEndian' in a or 'NetworkEndian' in a for a in endian) else '??')
        return base + e
    if tr == 'std::io::Write' and m == 'write_all':
        return 'bytes'
    if tr == 'std::io::Write' and m == 'write':
        return 'raw_write'
    if tr == 'std::io::Read' and m == 'read_exact':
        return 'read_exact'
    if tr == 'std::io::Read' and m in ('read', 'read_to_end'):
        return 'raw_' + m
    if cn == 'std::io::copy':
        return 'copy'
    if tr == 'bincode::Options' and m in ('serialize_into', 'serialize'):
        return 'bincode_serialize'
    if tr == 'bincode::Options' and m in ('deserialize_from', 'deserialize'):
        return 'bincode_deserialize'
    if cn.startswith('bincode::') and not tr and m in ('serialize', 'serialize_into'):
        return 'bincode_serialize'      # bincode 1.x free functions: fixint, little-endian (same wire format as the configured options)
    if cn.startswith('bincode::') and not tr and m in ('deserialize', 'deserialize_from'):
        return 'bincode_deserialize'
    if cn == 'bincode::serialized_size' or (tr == 'bincode::Options' and m == 'serialized_size'):
        return 'serialized_size'
    if tr == 'std::io::Seek' and m == 'seek':
        return 'seek'
    if tr == 'std::io::Read' and m == 'take':
        return 'take'
    return None


def ordered_ops(body, blocks):
    """I/O operation blocks among `blocks`, ordered by dominator depth"""
    ops = []
    for b in body.calls():
        if b.idx in blocks and not b.cleanup:
            k = classify_io(b.term)
            if k is not None:
                ops.append((len(body.doms.get(b.idx, ())), b.idx, k))
    ops.sort()
    return [(bb, k) for _, bb, k in ops]


def seek_kind(body, t):
    e = expr_of(body, t.args[1])
    if e[0] == 'agg':
        return 'seek_' + e[3].j.get('variant', '?').lower()
    return 'seek_?'


def nonce_layout(prog, bn):
    """[((lo, hi) of the 12-byte nonce, what is copied there)] for build_nonce; shared with C03"""
    # destination ranges of the nonce that are written, with what is written into them (several equivalent idioms)
    def dest_range(op):
        """(lo, hi) of the sub-slice of the 12-byte nonce an operand designates"""
        e = expr_of(bn, op)
        for _ in range(6):
            if e[0] == 'cast':
                e = e[1]
                continue
            if e[0] == 'ref':
                pl = e[1]
                nd = [p for p in pl[1] if p[0] != 'deref']
                if nd and nd[-1][0] == 'f' and bn.lty(pl[0]).startswith('(&mut [u8], &mut [u8])'):
                    d = unique_def(bn, pl[0])
                    if d is not None and d[2] == 'call' and d[3].cmethod == 'split_at_mut':
                        k = const_eval(bn, d[3].args[1])
                        return (0, k) if nd[-1][1] == 0 else (k, 12)
                if not nd:
                    e = expr_of(bn, _mk_local_op(pl[0]))
                    continue
                return None
            if e[0] == 'place' and e[1][1] and e[1][1][-1][0] == 'f' and bn.lty(e[1][0]).startswith('(&mut [u8], &mut [u8])'):
                d = unique_def(bn, e[1][0])
                if d is not None and d[2] == 'call' and d[3].cmethod == 'split_at_mut':
                    k = const_eval(bn, d[3].args[1])
                    return (0, k) if e[1][1][-1][1] == 0 else (k, 12)
                return None
            if e[0] == 'call' and e[2].cmethod == 'index_mut' and len(e[2].args) >= 2:
                r = expr_of(bn, e[2].args[1])
                if r[0] == 'agg':
                    nm = r[3].j.get('adt', '').rsplit('::', 1)[-1]
                    vals = [const_eval(bn, o) for o in r[3].ops]
                    if nm == 'RangeTo':
                        return (0, vals[0])
                    if nm == 'RangeFrom':
                        return (vals[0], 12)
                    if nm == 'Range':
                        return (vals[0], vals[1])
                return None
            break
        return None
    layout = []
    for c in bn.calls():
        t = c.term
        if t.cmethod == 'copy_from_slice' and len(t.args) == 2:
            rng = dest_range(t.args[0])
            src = origins(bn, [t.args[1].place[0]])
            if 2 in src.params:
                conv = sorted(bn.blocks[cb].term.cmethod for cb in src.calls if bn.blocks[cb].term.cmethod.startswith('to_'))
                what = 'ctr:' + ('be' if conv == ['to_be_bytes'] else 'le' if conv == ['to_le_bytes'] else '?')
                # which bytes of the rendering are copied: the 4 low-order ones (for big-endian: the last 4 of the array)
                width = None
                sub = None
                other = []
                for cb in src.calls:
                    ct = bn.blocks[cb].term
                    if ct.cmethod.startswith('to_'):
                        m = re.search(r'impl (u|i)(\d+|size)', ct.cdef or ct.cargs or '')
                        if m:
                            width = 8 if m.group(2) == 'size' else int(m.group(2)) // 8
                    elif ct.cmethod in ('index', 'index_mut') and len(ct.args) >= 2:
                        r = expr_of(bn, ct.args[1])
                        if r[0] == 'agg':
                            nm = r[3].j.get('adt', '').rsplit('::', 1)[-1]
                            vals = [const_eval(bn, o_) for o_ in r[3].ops]
                            sub = (nm, vals)
                        else:
                            other.append(ct.cmethod)
                    elif ct.cmethod in ('deref', 'as_ref', 'borrow', 'as_slice'):
                        pass
                    else:
                        other.append(ct.cmethod or cnorm(ct))
                if width is None or other:
                    what += ':bytes?'
                else:
                    lo, hi = 0, width
                    if sub is not None:
                        nm, vals = sub
                        if nm == 'RangeTo':
                            lo, hi = 0, vals[0]
                        elif nm == 'RangeFrom':
                            lo, hi = vals[0], width
                        elif nm == 'Range':
                            lo, hi = vals[0], vals[1]
                        elif nm == 'RangeFull':
                            pass
                        else:
                            lo = hi = None
                    low4 = (width - 4, width) if what == 'ctr:be' else (0, 4)
                    if (lo, hi) != low4:
                        what += ':bytes[%s..%s]of%s' % (lo, hi, width)
            elif 1 in src.params:
                what = 'prefix'
            else:
                what = '?'
            layout.append((rng, what))
        elif t.ctrait == 'byteorder::ByteOrder' and t.cmethod == 'write_u32' and len(t.args) == 2:
            rng = dest_range(t.args[0])
            st = t.callee.get('self_ty', '')
            so = origins(bn, [t.args[1].place[0]]) if t.args[1].place is not None else None
            e_ = 'be' if ('BigEndian' in st or 'NetworkEndian' in st) else 'le' if 'LittleEndian' in st else '?'
            layout.append((rng, 'ctr:' + e_ if so and 2 in so.params else '?'))
    return layout


def run(prog, rep, tier):
    T = json.load(open(TBL))
    mla = prog.crates['mla']
    # ---------------- R06.1 constants
    for path, (want, why) in T['constants_int'].items():
        got = mla.const_int(path)
        rep.ob('R06.1', got == want, 'R06.1|const|%s' % path, '%s = %s (%s)' % (path, got, why) if got == want else
               'format constant %s evaluates to %s, the published format says %s (%s)' % (path, got, want, why), fmt_span(mla.consts[path]['span']) if path in mla.consts else '?')
    for path, (want, why) in T['constants_bytes'].items():
        got = mla.const_bytes(path)
        ok = got == want.encode()
        rep.ob('R06.1', ok, 'R06.1|const|%s' % path, '%s = %r' % (path, want) if ok else 'format constant %s is %r, the published format says %r (%s)' % (path, got, want, why),
               fmt_span(mla.consts[path]['span']) if path in mla.consts else '?')
    bt = mla.adts.get('ArchiveFileBlockType')
    got = {v['name']: v['discr'] for v in bt['variants']} if bt else {}
    rep.ob('R06.1', got == T['block_tags'], 'R06.1|ArchiveFileBlockType|tags', 'block tags %s' % got if got == T['block_tags'] else 'block type tags are %s, the published format says %s' % (got, T['block_tags']), '-')

    # ---------------- R06.2 struct shapes
    for path, want in T['structs'].items():
        a = mla.adts.get(path)
        gotf = [f['nty'] for f in a['variants'][0]['fields']] if a and a['kind'] == 'struct' else None
        rep.ob('R06.2', gotf == want, 'R06.2|struct|%s' % path, '%s fields %s' % (path, gotf) if gotf == want else
               'serialised struct %s has field types %s, the published layout is %s' % (path, gotf, want), '-')
    for path, names in T.get('struct_field_names', {}).items():
        a = mla.adts.get(path)
        if not a:
            continue
        gotn = [f['name'] for f in a['variants'][0]['fields']]
        # names are not encoded by bincode: only a *permutation* of the documented fields is a format change; a rename is not
        if set(gotn) == set(names):
            rep.ob('R06.2', gotn == names, 'R06.2|struct-order|%s' % path, '%s declaration order %s' % (path, gotn) if gotn == names else
                   'fields of %s are declared in the order %s, the published layout is %s' % (path, gotn, names), '-')
        else:
            rep.note('field names of %s changed (%s): order checked by type only' % (path, gotn))
    derived_ser = {i['self_adt'] for i in mla.impls if i['trait'].endswith('_serde::Serialize') and i['derived']}
    derived_de = {i['self_adt'] for i in mla.impls if i['trait'].endswith('_serde::Deserialize') and i['derived']}
    for path in T['serde_derived']:
        ok = path in derived_ser and path in derived_de
        rep.ob('R06.2', ok, 'R06.2|serde-derive|%s' % path, 'Serialize/Deserialize derived (declaration-order encoding)' if ok else
               '%s does not use the derived serde implementations: its byte layout is no longer the declaration order' % path, '-')

    # ---------------- R06.3 codec sequences
    dump = one_body(prog, rep, 'R06.3', 'mla', exact='ArchiveFileBlock::dump')
    if dump is not None:
        dump = inlined_body(prog, dump)   # shared prefixes of the arms may be written by a private helper
        sws = [x for x in arm_of_enum_switch(prog, dump, adt='ArchiveFileBlock') if x[0] == 0 or dump.dominates(x[0], x[0])]
        sws = [x for x in sws if len(x[1]['arms']) >= 3]
        all_sws = [x for x in arm_of_enum_switch(prog, dump, adt='ArchiveFileBlock')]
        if not sws:
            rep.ob('R06.3', False, 'R06.3|%s|variant-switch' % dump.nkey, 'no switch on the block variant found', dump.loc())
        else:
            multi = len(all_sws) != 1
            sbb, si = sws[0]
            targets = {v: enum_arm_target(si, v) for v in T['block_dump']}
            for v, want in T['block_dump'].items():
                tgt = targets[v]
                if not multi:
                    others = [t for vv, t in targets.items() if vv != v]
                    blocks = dump.reachable(tgt, removed_blocks=[o for o in others if o != tgt])
                    # restrict to blocks edge-dominated by the arm
                    blocks = {b for b in blocks if dump.edge_dominates((sbb, tgt), b)}
                else:
                    # the variant is examined more than once (`if let FileStart ..`, a `block_type()` accessor, the main `match`): follow the paths of
                    # this variant through all of them, constant flags included; what is written before the main `match` belongs to every variant
                    cut_v = []
                    for sb2, si2 in all_sws:
                        keep = enum_arm_target(si2, v)
                        cut_v += [(sb2, t2) for t2 in dump.succs(sb2) if t2 != keep]
                    blocks = reachable_ps(dump, 0, removed_edges=cut_v)
                seq = []
                for bb, k in ordered_ops(dump, blocks):
                    t = dump.blocks[bb].term
                    if k == 'take':
                        continue
                    if k == 'u8':
                        val = const_eval(dump, t.args[1])
                        if val is None and t.args[1].place is not None:
                            # `self.block_type() as u8`: the one ArchiveFileBlockType value built on this variant's paths
                            ags = [a_ for a_ in origins(dump, [t.args[1].place[0]], through_calls=False).aggs
                                   if a_[0] in blocks and (a_[2].j.get('adt') or '').endswith('ArchiveFileBlockType')]
                            if len(ags) == 1:
                                val = T['block_tags'].get(ags[0][2].j.get('variant'))
                        seq.append([k, 'tag' if val == T['block_tags'][v] else 'const%s' % val])
                    elif k == 'copy':
                        o = origins(dump, [t.args[0].place[0]])
                        fl = sorted({f[-1] for f in o.fields if f[0] == 'self'})
                        has_take = any(dump.blocks[c].term.cmethod == 'take' for c in o.calls)
                        seq.append(['copy_take' if has_take else 'copy', '+'.join(fl)])
                    else:
                        a = t.args[1] if len(t.args) > 1 else None
                        fl = []
                        if a is not None and a.place is not None:
                            o = origins(dump, [a.place[0]])
                            fl = sorted({f[-1] for f in o.fields if f[0] == 'self'})
                        seq.append([k, '+'.join(fl)])
                rep.ob('R06.3', seq == want, 'R06.3|%s|arm|%s' % (dump.nkey, v), '%s written as %s' % (v, seq) if seq == want else
                       'writer emits %s as %s, the published layout is %s' % (v, seq, want), dump.loc(tgt))
                # a length prefix is the byte length of what follows it: the u64 written right before a byte string of field F is `len()` of (the bytes of) F
                oo = ordered_ops(dump, blocks)
                for (bb1, k1), (bb2, k2) in zip(oo, oo[1:]):
                    if k1 != 'u64le' or k2 != 'bytes':
                        continue
                    t1, t2 = dump.blocks[bb1].term, dump.blocks[bb2].term
                    if len(t1.args) < 2 or t1.args[1].place is None or len(t2.args) < 2 or t2.args[1].place is None:
                        continue
                    bo = origins(dump, [t2.args[1].place[0]])
                    bfields = {f[-1] for f in bo.fields if f[0] == 'self'}
                    uo = origins(dump, [t1.args[1].place[0]])
                    if not ({f[-1] for f in uo.fields if f[0] == 'self'} & bfields):
                        continue      # a u64 of another field (an id before a hash), not a length prefix

                    def is_len(kk, ob, b3, bfields=bfields):
                        if kk != 'call' or ob.cmethod != 'len' or not ob.args or ob.args[0].place is None:
                            return False
                        lo_ = origins(dump, [ob.args[0].place[0]])
                        return bool({f[-1] for f in lo_.fields if f[0] == 'self'} & bfields) and not any(dump.blocks[c].term.cmethod in ('chars', 'char_indices', 'encode_utf16', 'graphemes', 'split', 'trim') for c in lo_.calls)
                    okl = must_derive(dump, t1.args[1].place[0], is_len)
                    rep.ob('R06.3', okl, 'R06.3|%s|arm|%s|length-prefix-is-byte-length' % (dump.nkey, v), 'the length written before the bytes of %s is their len()' % '+'.join(sorted(bfields)) if okl else
                           'the u64 written before the bytes of %s is not the byte length of what follows (e.g. a character count): the next block no longer starts where the '
                           'length says' % '+'.join(sorted(bfields)), dump.loc(bb1))
    frm = one_body(prog, rep, 'R06.3', 'mla', exact='ArchiveFileBlock::from')
    if frm is not None:
        frm = inlined_body(prog, frm)
        sws = [x for x in arm_of_enum_switch(prog, frm, adt='ArchiveFileBlockType')]
        if len(sws) != 1:
            rep.ob('R06.3', False, 'R06.3|%s|type-switch' % frm.nkey, 'expected one switch on ArchiveFileBlockType, found %d' % len(sws), frm.loc())
        else:
            sbb, si = sws[0]
            # the switched value comes from try_from(read_u8())
            o = origins(frm, [si['place'][0]])
            pre = [frm.blocks[c].term for c in o.calls]
            okh = any(classify_io(t) == 'u8' for t in pre) and any(t.cmethod == 'try_from' and 'ArchiveFileBlockType' in t.cargs for t in pre)
            rep.ob('R06.3', okh, 'R06.3|%s|tag-byte-first' % frm.nkey, 'block type = ArchiveFileBlockType::try_from(read_u8())' if okh else 'block type is not decoded from a leading tag byte', frm.loc(sbb))
            targets = {v: enum_arm_target(si, v) for v in T['block_from']}
            for v, want in T['block_from'].items():
                tgt = targets[v]
                blocks = {b for b in frm.reachable(tgt) if frm.edge_dominates((sbb, tgt), b)}
                ops = ordered_ops(frm, blocks)
                aggs = [(b.idx, s) for b in frm.blocks if b.idx in blocks for s in b.stmts if s.kind == 'assign' and s.rv.r == 'aggregate' and s.rv.j.get('adt') == 'ArchiveFileBlock']
                okv = len(aggs) == 1 and aggs[0][1].rv.j.get('variant') == v
                seq = []
                if okv:
                    s = aggs[0][1]
                    feeds = {}
                    for fname, op in zip(s.rv.j['fields'], s.rv.ops):
                        if op.place is not None:
                            oo = origins(frm, [op.place[0]])
                            for c in oo.calls:
                                feeds.setdefault(c, set()).add(fname)
                    for bb, k in ops:
                        if k == 'take':
                            continue
                        seq.append([k, '+'.join(sorted(feeds.get(bb, [])))])
                rep.ob('R06.3', okv and seq == want, 'R06.3|%s|arm|%s' % (frm.nkey, v), '%s parsed as %s' % (v, seq) if (okv and seq == want) else
                       'reader parses %s as %s (builds %s), the published layout is %s' % (v, seq, [a[1].rv.j.get('variant') for a in aggs], want), frm.loc(tgt))
    tf = one_body(prog, rep, 'R06.3', 'mla', adt='ArchiveFileBlockType', name='try_from', trait='std::convert::TryFrom')
    if tf is not None:
        mapped = {}
        for b in tf.blocks:
            si = switch_info(prog, tf, b.idx)
            if si and si['kind'] == 'bool':
                e = expr_of(tf, si['cond'])
                if e[0] == 'binop' and e[1] == 'Eq':
                    val = const_eval(tf, e[3])
                    if val is None:
                        val = const_eval(tf, e[2])
                    # variant built on the true edge
                    for bb in tf.reachable(si['true'], removed_blocks=[si['false']]):
                        for s in tf.blocks[bb].stmts:
                            if s.kind == 'assign' and s.rv.r == 'aggregate' and s.rv.j.get('adt') == 'ArchiveFileBlockType' and tf.edge_dominates((b.idx, si['true']), bb):
                                mapped[s.rv.j['variant']] = val
        # `match value { 0 => .., 1 => .., 254 => .., 255 => .., _ => Err }`: an integer switch on the parameter
        for b in tf.blocks:
            t = b.term
            if t.kind == 'switch' and not b.cleanup and t.discr.place is not None and t.dty in ('u8', 'u32', 'u64', 'usize') and \
                    (t.discr.place[0] == 1 or 1 in origins(tf, [t.discr.place[0]], through_calls=False).params):
                for val, tgt in t.targets:
                    for bb in tf.reachable(tgt, removed_blocks=[x for _, x in t.targets if x != tgt] + [t.otherwise]):
                        for s in tf.blocks[bb].stmts:
                            if s.kind == 'assign' and s.rv.r == 'aggregate' and s.rv.j.get('adt') == 'ArchiveFileBlockType' and tf.edge_dominates((b.idx, tgt), bb):
                                mapped[s.rv.j['variant']] = val
        ok = mapped == T['block_tags']
        rep.ob('R06.3', ok, 'R06.3|%s|tag-mapping' % tf.nkey, 'tag byte mapping %s' % mapped if ok else 'tag byte -> block type mapping is %s, published %s' % (mapped, T['block_tags']), tf.loc())
    # header / footer sequences
    for fname, want in T['sequences'].items():
        if fname.startswith('<'):
            adt = fname[1:].split(' as ')[0]
            trait = fname.split(' as ')[1].split('>')[0]
            name = fname.rsplit('::', 1)[1]
            body = one_body(prog, rep, 'R06.3', 'mla', adt=adt, name=name, trait=trait)
        else:
            body = one_body(prog, rep, 'R06.3', 'mla', exact=fname)
        if body is None:
            continue
        body = inlined_body(prog, body)      # shared codec helpers (length-suffixed record reader, options builder)
        seq = []
        for bb, k in ordered_ops(body, set(range(len(body.blocks)))):
            t = body.blocks[bb].term
            if k == 'seek':
                k = seek_kind(body, t)
            if k.startswith(('u32', 'u64', 'u16')):
                k = ('write_' if t.ctrait.endswith('WriteBytesExt') else 'read_') + k
            if k == 'bytes':
                k = 'write_all'
            seq.append(k)
        rep.ob('R06.3', seq == want, 'R06.3|%s|sequence' % body.nkey, '%s' % seq if seq == want else 'codec sequence of %s is %s, published layout needs %s' % (body.nkey, seq, want), body.loc())
    # header field checks: magic compared with MLA_MAGIC, version compared with MLA_FORMAT_VERSION, written value = format_version field
    hf = prog.body('mla', 'ArchiveHeader::from')
    if hf is not None:
        consts = set()
        for b in hf.blocks:
            for s in b.stmts:
                if s.kind == 'assign':
                    for op in s.rv.ops:
                        if op.kind == 'const' and op.const_def():
                            consts.add(op.const_def())
                        if op.kind == 'const' and (op.k or {}).get('promoted_def'):
                            consts.add(op.k['promoted_def'])       # `&MLA_MAGIC` in a comparison of references
            if b.term.kind == 'call':
                for a in b.term.args:
                    if a.kind == 'const' and a.const_def():
                        consts.add(a.const_def())
                    if a.kind == 'const' and (a.k or {}).get('promoted_def'):
                        consts.add(a.k['promoted_def'])
        consts = {c.rsplit('::', 1)[-1] for c in consts}
        ok = 'MLA_MAGIC' in consts and 'MLA_FORMAT_VERSION' in consts
        rep.ob('R06.3', ok, 'R06.3|mla::ArchiveHeader::from|checks-magic-and-version', 'header reader compares magic and version with the constants' if ok else 'header reader no longer checks MLA_MAGIC / MLA_FORMAT_VERSION (uses %s)' % sorted(consts), hf.loc())
    hd = prog.body('mla', 'ArchiveHeader::dump')
    if hd is not None:
        wa = [b for b in hd.calls() if classify_io(b.term) == 'bytes']
        ok = len(wa) == 1 and (const_of(hd, wa[0].term.args[1]) or {}).get('def') == 'MLA_MAGIC'
        rep.ob('R06.3', ok, 'R06.3|mla::ArchiveHeader::dump|writes-magic', 'header writer emits MLA_MAGIC first' if ok else 'header writer does not emit MLA_MAGIC', hd.loc())
    fc = None
    for b in mla.bodies:
        if b.impl_adt == 'ArchiveWriter' and b.name == 'from_config':
            fc = b
    if fc is not None:
        aggs = [(b.idx, i, s) for b in fc.blocks for i, s in enumerate(b.stmts) if s.kind == 'assign' and s.rv.r == 'aggregate' and s.rv.j.get('adt') == 'ArchiveHeader']
        ok = len(aggs) == 1 and (aggs[0][2].rv.ops[0].const_def() == 'MLA_FORMAT_VERSION')
        rep.ob('R06.3', ok, 'R06.3|%s|header-version' % fc.nkey, 'writer stores MLA_FORMAT_VERSION in the header' if ok else 'writer does not store MLA_FORMAT_VERSION in the header', fc.loc())

    # ---------------- R06.4 endianness / integer encoding everywhere
    n_le = n_u8 = n_ser = n_de = n_sz = 0
    for body in mla.bodies:
        for b in body.calls():
            t = b.term
            k = classify_io(t)
            if k is None:
                continue
            if t.ctrait in ('byteorder::WriteBytesExt', 'byteorder::ReadBytesExt'):
                if k in ('u8', 'i8'):
                    n_u8 += 1
                else:
                    ok = k.endswith('le')
                    n_le += 1 if ok else 0
                    if not ok:
                        rep.ob('R06.4', False, 'R06.4|%s|%s|endianness' % (body.nkey, t.cmethod), 'byteorder call %s is not LittleEndian' % t.cargs, body.loc(b.idx))
            elif k in ('bincode_serialize', 'bincode_deserialize') and not t.ctrait:
                # free function of bincode 1.x = DefaultOptions + fixint + little endian: format-equivalent (the missing size limit is C08's concern)
                if k == 'bincode_serialize':
                    n_ser += 1
                else:
                    n_de += 1
                rep.note('bincode free function %s in %s: wire format identical to the configured options' % (t.cmethod, body.nkey))
            elif k in ('bincode_serialize', 'bincode_deserialize'):
                opts = t.callee.get('self_ty', '')
                ok = 'bincode::config::FixintEncoding' in opts and 'bincode::config::Bounded' in opts and 'BigEndian' not in opts and 'NativeEndian' not in opts and 'AllowTrailing' not in opts
                if k == 'bincode_serialize':
                    n_ser += 1 if ok else 0
                else:
                    n_de += 1 if ok else 0
                if not ok:
                    rep.ob('R06.4', False, 'R06.4|%s|%s|bincode-options' % (body.nkey, t.cmethod), 'bincode options %s are not limit+fixint little-endian' % opts, body.loc(b.idx))
                else:
                    # the limit is the named constant
                    o = origins(body, [t.args[0].place[0]])
                    okl = any((c.get('def') or '').endswith('BINCODE_MAX_DESERIALIZE') for c in o.consts)
                    if not okl:
                        # the options may be built by a private helper (`bincode_options()`): look at the call with that helper spliced in
                        inl_ = inlined_body(prog, body)
                        if getattr(inl_, 'inlined', 0) and b.idx < len(inl_.blocks) and inl_.blocks[b.idx].term.kind == 'call' and inl_.blocks[b.idx].term.args and inl_.blocks[b.idx].term.args[0].place is not None:
                            o2 = origins(inl_, [inl_.blocks[b.idx].term.args[0].place[0]])
                            okl = any((c.get('def') or '').endswith('BINCODE_MAX_DESERIALIZE') for c in o2.consts)
                    if not okl:
                        rep.ob('R06.4', False, 'R06.4|%s|%s|bincode-limit' % (body.nkey, t.cmethod), 'bincode limit is not BINCODE_MAX_DESERIALIZE', body.loc(b.idx))
            elif k == 'serialized_size':
                n_sz += 1
    fl = T['floors']
    rep.ob('R06.4', True, 'R06.4|mla|all-endian-typed-calls-little-endian', '%d LittleEndian byteorder calls, %d single-byte calls, %d+%d bincode (de)serialisations through limit+fixint options' % (n_le, n_u8, n_ser, n_de), '-')
    rep.floor('R06.4.le', n_le, fl['byteorder_le_calls'], 'LittleEndian byteorder calls')
    rep.floor('R06.4.u8', n_u8, fl['byteorder_u8_calls'], 'single-byte byteorder calls')
    rep.floor('R06.4.ser', n_ser, fl['bincode_serialize'], 'bincode serialisations with limit+fixint')
    rep.floor('R06.4.de', n_de, fl['bincode_deserialize'], 'bincode deserialisations with limit+fixint')
    rep.floor('R06.4.sz', n_sz, fl['serialized_size'], 'bincode::serialized_size calls')

    # ---------------- R06.5 nonce layout and counter
    bn = one_body(prog, rep, 'R06.5', 'mla', exact='layers::encrypt::build_nonce')
    if bn is not None:
        layout = nonce_layout(prog, bn)
        want = [((0, 8), 'prefix'), ((8, 12), 'ctr:be')]
        ok = sorted(layout, key=str) == sorted(want, key=str)
        rep.ob('R06.5', ok, 'R06.5|%s|layout' % bn.nkey, 'nonce[0..8] = archive nonce, nonce[8..12] = big-endian chunk counter' if ok else 'nonce layout is %s, published: archive nonce followed by the big-endian counter' % layout, bn.loc())
        o = origins(bn, [0])
        ok12 = '[u8; 12]' in bn.lty(0)
        rep.ob('R06.5', ok12, 'R06.5|%s|size' % bn.nkey, '96-bit nonce' if ok12 else 'nonce type is %s' % bn.lty(0), bn.loc())
    # counter increments
    for adt, fn, fld in (('layers::encrypt::EncryptionLayerWriter', 'renew_cipher', 'current_ctr'),
                         ('layers::encrypt::EncryptionLayerInternal', 'read_internal', 'current_chunk_number'),
                         ('layers::encrypt::EncryptionLayerInternal', 'read_internal_unauthenticated', 'current_chunk_number')):
        body = one_body(prog, rep, 'R06.5', 'mla', adt=adt, name=fn)
        if body is None:
            continue
        body = inlined_body(prog, body, depth=1, skip=('build_nonce', 'load_in_cache', 'load_in_cache_unauthenticated'))     # the two readers may share one body parameterised by the chunk loader
        stores = [(b.idx, i, s) for b in body.blocks if not b.cleanup for i, s in enumerate(b.stmts) if s.kind == 'assign' and place_fields(s.place)[-1:] == [fld]]
        ok = len(stores) == 1
        msg = 'expected exactly one store to %s, found %d' % (fld, len(stores))
        if ok:
            bb, i, s = stores[0]
            e = expr_of(body, s.rv.ops[0]) if s.rv.ops else ('unknown',)
            ok = e[0] == 'binop' and e[1] == 'Add' and ((e[2][0] == 'place' and place_fields(e[2][1])[-1:] == [fld] and e[3][0] == 'const' and e[3][1] == 1) or
                                                          (e[3][0] == 'place' and place_fields(e[3][1])[-1:] == [fld] and e[2][0] == 'const' and e[2][1] == 1))
            msg = '%s = %s + 1' % (fld, fld) if ok else 'counter update is not `%s + 1`' % fld
            if ok:
                # the store dominates every cipher construction / chunk load of the function
                uses = [b for b in body.calls() if cnorm(b.term) in ('layers::encrypt::build_nonce',) or b.term.cmethod in ('load_in_cache', 'load_in_cache_unauthenticated')
                        or (indirect_target(body, b.term) or '').rsplit('::', 1)[-1] in ('load_in_cache', 'load_in_cache_unauthenticated')]
                ok = bool(uses) and all(body.dominates(bb, u.idx) for u in uses)
                if not ok:
                    msg = 'counter increment does not dominate the next nonce construction / chunk load'
                # unconditional w.r.t. the roll-over: for the writer, the store dominates the function's normal exits
        rep.ob('R06.5', ok, 'R06.5|%s|counter-step' % body.nkey, msg, body.loc())
    # constructors start at 0
    for adt, fld in (('layers::encrypt::EncryptionLayerWriter', 'current_ctr'), ('layers::encrypt::EncryptionLayerInternal', 'current_chunk_number')):
        body = one_body(prog, rep, 'R06.5', 'mla', adt=adt, name='new')
        if body is None:
            continue
        aggs = [s for b in body.blocks for s in b.stmts if s.kind == 'assign' and s.rv.r == 'aggregate' and s.rv.j.get('adt') == adt]
        ok = bool(aggs) and all(const_int_of(body, a.rv.ops[a.rv.j['fields'].index(fld)]) == 0 for a in aggs)
        bns = [b for b in body.calls() if cnorm(b.term) == 'layers::encrypt::build_nonce']
        ok = ok and bool(bns) and all(const_int_of(body, b.term.args[1]) == 0 for b in bns)
        rep.ob('R06.5', ok, 'R06.5|%s|counter-starts-at-0' % body.nkey, 'first chunk uses counter 0' if ok else 'constructor does not start the chunk counter at 0', body.loc())

    # ---------------- R06.6 layer order
    stacks = [('mla', 'ArchiveWriter', 'from_config', 'is_layers_enabled', 'layers::encrypt::EncryptionLayerWriter::new', 'layers::compress::CompressionLayerWriter::new'),
              ('mla', 'ArchiveReader', 'from_config', 'contains', 'layers::encrypt::EncryptionLayerReader::new', 'layers::compress::CompressionLayerReader::new'),
              ('mla', 'ArchiveFailSafeReader', 'from_config', 'contains', 'layers::encrypt::EncryptionLayerFailSafeReader::new', 'layers::compress::CompressionLayerFailSafeReader::new'),
              ('mlar', 'ArchiveInfoReader', 'from_config', 'contains', 'mla::layers::encrypt::EncryptionLayerReader::new', 'mla::layers::compress::CompressionLayerReader::new')]
    for pkg, adt, fn, test, enc_new, cmp_new in stacks:
        body = one_body(prog, rep, 'R06.6', pkg, adt=adt, name=fn)
        if body is None:
            continue
        encs = [b for b in body.calls() if cnorm(b.term) == enc_new]
        cmps = [b for b in body.calls() if cnorm(b.term) == cmp_new]
        key = 'R06.6|%s|layer-order' % body.nkey
        if len(encs) != 1 or len(cmps) != 1:
            rep.ob('R06.6', False, key, 'expected one encryption and one compression layer constructor, found %d / %d' % (len(encs), len(cmps)), body.loc())
            continue
        e, c = encs[0], cmps[0]
        guards = {}
        for bl in body.blocks:
            r = branch_on_call(prog, body, bl.idx)
            if r and r[1].cmethod == test:
                for a in r[1].args:
                    d = (const_of(body, a) or {}).get('def', '') or ''
                    if d.endswith('Layers::ENCRYPT'):
                        guards['E'] = (bl.idx, r[2])
                    if d.endswith('Layers::COMPRESS'):
                        guards['C'] = (bl.idx, r[2])
        ok_g = 'E' in guards and 'C' in guards and body.edge_dominates(guards['E'], e.idx) and body.edge_dominates(guards['C'], c.idx)
        # encryption is built first (closer to the raw stream): no path from the compression constructor to the encryption constructor
        ok_o = e.idx not in body.reachable(c.idx) and c.idx in body.reachable(e.idx)
        # the compression layer wraps the value that holds the encryption layer
        ok_w = e.idx in origins(body, [c.term.args[0].place[0]]).calls
        # no bypass: when the bit is set the constructor cannot be skipped
        ok_b = 'E' in guards and 'C' in guards and c.idx not in body.reachable(guards['C'][1], removed_blocks=[c.idx])
        rep.ob('R06.6', ok_g and ok_o and ok_w, key, 'encryption layer stacked first under ENCRYPT, compression layer wraps it under COMPRESS' if (ok_g and ok_o and ok_w) else
               'layer stack differs from the published order (gated=%s enc-before-compress=%s compress-wraps-enc=%s)' % (ok_g, ok_o, ok_w), body.loc())

    # ---------------- R06.7 key wrap
    dk = one_body(prog, rep, 'R06.7', 'mla', exact='crypto::ecc::derive_key')
    if dk is not None:
        news = [b for b in dk.calls() if b.term.cmethod == 'new' and 'hkdf::Hkdf' in b.term.cargs]
        exps = [b for b in dk.calls() if b.term.cmethod == 'expand' and 'hkdf::Hkdf' in b.term.cargs]
        ok = len(news) == 1 and len(exps) == 1
        msg = 'Hkdf::new / expand sites: %d / %d' % (len(news), len(exps))
        if ok:
            n, x = news[0].term, exps[0].term
            okh = 'sha2::Sha256' in n.cargs or 'Sha256VarCore' in n.cargs or 'sha2::' in n.cargs and '256' in n.cargs
            salt = expr_of(dk, n.args[0])
            oks = salt[0] == 'agg' and salt[3].j.get('variant') == 'None'
            ikm = origins(dk, [n.args[1].place[0]])
            oki = any(dk.blocks[c].term.cmethod == 'diffie_hellman' for c in ikm.calls)
            info = const_of(dk, x.args[1])
            okinfo = info is not None and (info.get('def') or '').endswith('DERIVE_KEY_INFO')
            outty = dk.lty(0)
            oko = '[u8; 32]' in outty
            ok = okh and oks and oki and okinfo and oko
            msg = 'HKDF-SHA256(salt None, ikm = X25519 shared secret).expand(DERIVE_KEY_INFO) -> 32 bytes' if ok else \
                'key derivation differs from the published one (sha256=%s salt-none=%s ikm-dh=%s info=%s out32=%s)' % (okh, oks, oki, okinfo, oko)
        rep.ob('R06.7', ok, 'R06.7|%s|hkdf' % dk.nkey, msg, dk.loc())
    for fn in ('crypto::ecc::store_key_for_multi_recipients', 'crypto::ecc::retrieve_key'):
        body = one_body(prog, rep, 'R06.7', 'mla', exact=fn)
        if body is None:
            continue
        # the wrapping may happen in a closure of the function (`recipients.iter().map(|key| ..).collect()`)
        # ... or in a private per-recipient helper called from there: helpers are spliced into the function and into its closures
        from ..inline import inlined_body as _inl
        _skip = ('derive_key', 'new', 'encrypt', 'decrypt', 'into_tag')
        carriers = [c for c in [_inl(prog, body, depth=1, skip=_skip)] + [_inl(prog, c_, depth=1, skip=_skip) for c_ in prog.closures_of(body)]
                    if any(cnorm(b.term) == 'crypto::aesgcm::AesGcm256::new' for b in c.calls())]
        if len(carriers) == 1:
            body = carriers[0]
        news = [b for b in body.calls() if cnorm(b.term) == 'crypto::aesgcm::AesGcm256::new']
        ok = len(news) == 1
        if ok:
            t = news[0].term
            k = origins(body, [t.args[0].place[0]])
            okk = any(cnorm(body.blocks[c].term) == 'crypto::ecc::derive_key' for c in k.calls)
            n = const_of(body, t.args[1])
            okn = n is not None and (n.get('def') or '').endswith('ECIES_NONCE')
            ad = const_bytes_of(body, t.args[2])
            oka = ad == b''
            ok = okk and okn and oka
        rep.ob('R06.7', ok, 'R06.7|mla::%s|wrap-cipher' % fn, 'AES-GCM(derive_key(..), ECIES_NONCE, "")' if ok else 'key wrap cipher parameters differ from the published ones', body.loc())
    # chunk ciphers: associated data is empty
    for body in mla.bodies:
        if norm(body.defpath).startswith('layers::encrypt::'):
            for b in body.calls():
                if cnorm(b.term) == 'crypto::aesgcm::AesGcm256::new':
                    ad = const_bytes_of(body, b.term.args[2])
                    rep.ob('R06.7', ad == b'', 'R06.7|%s|chunk-cipher-aad' % body.nkey, 'chunk cipher associated data is empty' if ad == b'' else 'chunk cipher associated data is not the empty string', body.loc(b.idx))

    # ---------------- R06.8 cipher core
    ag = mla.adts.get('crypto::aesgcm::AesGcm256')
    if ag is None:
        rep.ob('R06.8', False, 'R06.8|anchor|AesGcm256', 'AesGcm256 not found')
    else:
        f = {x['name']: x['nty'] for x in ag['variants'][0]['fields']}
        okc = 'ctr::flavors::Ctr128BE' in f.get('cipher', '') and 'aes::Aes256' in f.get('cipher', '')
        okg = 'ghash::GHash' in f.get('ghash', '')
        rep.ob('R06.8', okc and okg, 'R06.8|AesGcm256|core-types', 'cipher = Ctr128BE<Aes256>, mac = GHash' if okc and okg else 'cipher core types are %s / %s' % (f.get('cipher'), f.get('ghash')), '-')
    nw = one_body(prog, rep, 'R06.8', 'mla', exact='crypto::aesgcm::AesGcm256::new')
    if nw is not None:
        # counter block: nonce copied to [..12], byte 15 set to 1, keystream seek to BLOCK_SIZE
        seeks = [b for b in nw.calls() if b.term.cmethod == 'seek']
        oks = len(seeks) == 1 and const_eval(nw, seeks[0].term.args[1]) == 16
        st15 = False
        for b in nw.blocks:
            for s in b.stmts:
                if s.kind == 'assign' and s.place[1] and s.rv.r == 'use' and s.rv.ops[0].kind == 'const' and s.rv.ops[0].const_int() == 1:
                    for p in s.place[1]:
                        if p[0] == 'idx':
                            iv = const_eval(nw, _mk_local_op(p[1]))
                            if iv == 15:
                                st15 = True
                        if p[0] == 'cidx' and p[1] == 15:
                            st15 = True
        rng = False
        for b in nw.calls():
            if b.term.cmethod == 'index_mut' and 'RangeTo' in b.term.cargs:
                e = expr_of(nw, b.term.args[1])
                if e[0] == 'agg' and [o.const_int() for o in e[3].ops] == [12]:
                    rng = True
        ok = oks and st15 and rng
        rep.ob('R06.8', ok, 'R06.8|%s|counter-block' % nw.nkey, 'counter block = nonce || 00 00 00 01, keystream starts at block 1' if ok else
               'AES-GCM initial counter block / keystream offset differ (seek16=%s byte15=%s nonce[..12]=%s)' % (oks, st15, rng), nw.loc())
    for fn in ('into_tag', 'decrypt'):
        body = one_body(prog, rep, 'R06.8', 'mla', exact='crypto::aesgcm::AesGcm256::' + fn)
        if body is None:
            continue
        body = inlined_body(prog, body)   # the tag computation may live in a private helper shared by both
        seeks = [b for b in body.calls() if b.term.cmethod == 'seek']
        ok = len(seeks) == 1 and const_eval(body, seeks[0].term.args[1]) == 0
        bes = [b for b in body.calls() if b.term.cmethod == 'to_be_bytes']
        ok = ok and len(bes) == 2
        rep.ob('R06.8', ok, 'R06.8|%s|tag-mask' % body.nkey, 'tag masked with keystream block 0; lengths block big-endian' if ok else 'tag finalisation differs (mask block / length encoding)', body.loc())

    r06_9(prog, rep)
    r06_10(prog, rep)
    r06_11(prog, rep)
    # "every archive produced by an independent implementation is read identically": the compression reader lands on the requested position from the
    # position alone -- seek(Start) rebuilds its state and repositions the inner reader (= R10.2 on the compression layer)
    from .c10 import r10_2
    r10_2(prog, rep, 'R06.12', adts=('layers::compress::CompressionLayerReader',))
    # the trailers of FORMAT.md (sizes footer, file index length) are found by seeking from the end of the layer below: the end of the decrypted stream
    # is the end of the data whatever the length of the last chunk (= R03.8)
    from .c03 import end_of_data_rule
    end_of_data_rule(prog, rep, 'R06.13')


def r06_11(prog, rep):
    """"brotli compressed (RFC 7932)": every encoder of the compression writer is built so that it emits a standard stream -- `CompressorWriter::new(w, buf,
    quality, lgwin)` with a constant window of 10..=24 bits, or `with_params` with parameters whose window is in that range and whose non-standard
    switches (`large_window`, `catable`, `appendable`, `magic_number`, `use_dictionary`) are the constant `false` / untouched defaults. The project's own decoder
    accepts the large-window extension silently, so no round trip notices it; an independent RFC 7932 decoder rejects the first byte."""
    mla = prog.crates['mla']
    n = 0
    cnt = collections.Counter()
    for body in mla.bodies:
        for b in body.calls():
            cn = cnorm(b.term)
            if 'CompressorWriter' not in cn and 'BrotliCompress' not in cn and 'BrotliEncoder' not in cn:
                continue
            m = b.term.cmethod
            if m in ('into_inner', 'flush', 'write', 'write_all', 'get_ref', 'get_mut', 'default'):
                continue
            n += 1
            rep.fn(body)
            key = 'R06.11|%s|%s#%d|standard-brotli-stream' % (body.nkey, m, cnt[(body.nkey, m)])
            cnt[(body.nkey, m)] += 1
            ok, why = False, 'encoder built through %s, whose output format is not established' % cn
            if cn.endswith('CompressorWriter::new') and len(b.term.args) == 4:
                lg = const_eval(body, b.term.args[3])
                ok = lg is not None and 10 <= lg <= 24
                why = 'CompressorWriter::new with window 2^%s' % lg if ok else 'CompressorWriter::new with a window of %s bits (RFC 7932 allows 10..=24)' % lg
            elif cn.endswith('CompressorWriter::with_params') and len(b.term.args) == 3:
                pe = deref_expr(body, expr_of(body, b.term.args[2]))
                agg = None
                if pe[0] == 'agg' and (pe[3].j.get('adt') or '').endswith('BrotliEncoderParams'):
                    agg = pe[3]
                elif pe[0] in ('ref', 'place'):
                    for (dbb, dsi, dk, dobj) in body.defs.get(pe[1][0], []):
                        if dk == 'assign' and dobj.rv.r == 'aggregate' and (dobj.rv.j.get('adt') or '').endswith('BrotliEncoderParams'):
                            agg = dobj.rv if agg is None else False
                if agg:
                    fl = agg.j['fields']
                    vals = {f: const_eval(body, agg.ops[i]) if agg.ops[i].kind == 'const' or agg.ops[i].place is None or not agg.ops[i].place[1] else 'inherited' for i, f in enumerate(fl)}
                    bad = [f for f in ('large_window', 'catable', 'appendable', 'magic_number', 'use_dictionary') if f in vals and vals[f] not in (0, 'inherited')]
                    lg = vals.get('lgwin')
                    lgok = lg == 'inherited' or (isinstance(lg, int) and 10 <= lg <= 24)
                    ok = not bad and lgok
                    why = 'with_params: standard switches, window %s' % lg if ok else 'with_params enables %s / window %s: the stream is not plain RFC 7932 brotli' % (', '.join(bad) or '-', lg)
                else:
                    why = 'with_params: the parameter block is not a literal built in this function'
            rep.ob('R06.11', ok, key, why, body.loc(b.idx))
    rep.floor('R06.11', n, 1, 'brotli encoder constructions')


def r06_10(prog, rep):
    """chunk / block geometry: "one AES-256-GCM message per 128 KiB chunk", "4 MiB brotli blocks". Writer: the unit is closed exactly when its fill
    counter equals the published size (the equality test against the named constant guards the close), and what is accepted per call is bounded by
    `SIZE - counter`. Reader: the chunk loaders read take(CHUNK_SIZE + TAG_LENGTH) / take(CHUNK_SIZE)."""
    mla = prog.crates['mla']
    CH = mla.const_int('layers::encrypt::CHUNK_SIZE')
    BL = mla.const_int('layers::compress::UNCOMPRESSED_DATA_SIZE')
    TAG = mla.const_int('crypto::aesgcm::TAG_LENGTH') or 16

    def geometry(body, counter_pred, cname, close_pred, what):
        key = 'R06.10|%s|' % body.nkey
        eq = None
        for bl in body.blocks:
            si = switch_info(prog, body, bl.idx)
            if not si or si['kind'] != 'bool':
                continue
            e = expr_of(body, si['cond'])
            if e[0] == 'binop' and e[1] in ('Eq', 'Ne', 'Ge', 'Lt'):
                sides = [e[2], e[3]]
                cs = [x for x in sides if x[0] == 'const' and ((x[2] or {}).get('def') or '').endswith(cname)]
                vs = [x for x in sides if x[0] == 'place' and counter_pred(body, x[1])]
                if cs and vs and not (e[1] in ('Ge', 'Lt') and sides.index(vs[0]) != 0):
                    eq = (bl.idx, si['true'] if e[1] in ('Eq', 'Ge') else si['false'])
        # `counter.cmp(&SIZE)` form: the Equal arm of the match on the Ordering
        for sbb, si in arm_of_enum_switch(prog, body, adt='std::cmp::Ordering'):
            cm = [body.blocks[c].term for c in origins(body, [si['place'][0]], through_calls=False).calls if body.blocks[c].term.cmethod == 'cmp']
            if len(cm) != 1 or len(cm[0].args) != 2:
                continue
            sides = [deref_expr(body, expr_of(body, a)) for a in cm[0].args]
            cs = [x for x in sides if x[0] == 'const' and ((x[2] or {}).get('promoted_def') or (x[2] or {}).get('def') or '').endswith(cname)]
            vs = [x for x in sides if x[0] in ('place', 'ref') and counter_pred(body, x[1])]
            tq = si['arms'].get('Equal')
            if cs and vs and tq is not None and any(t2 != tq for n2, t2 in si['arms'].items() if n2 != 'Equal'):
                eq = (sbb, tq)
        closes = [b for b in body.calls() if close_pred(b.term)]
        okc = eq is not None and bool(closes) and all(body.edge_dominates(eq, c.idx) for c in closes)
        rep.ob('R06.10', okc, key + 'unit-closed-when-full', '%s closed exactly when its counter reaches %s' % (what, cname) if okc else
               'the %s is not closed under the test `counter == %s`: its size is no longer the published one' % (what, cname), body.loc(eq[0]) if eq else body.loc())
        subs = []
        for bl in body.blocks:
            for st in bl.stmts:
                if st.kind == 'assign' and st.rv.r == 'binop' and st.rv.j['op'].startswith('Sub'):
                    a, b2 = st.rv.ops
                    if a.kind == 'const' and (a.const_def() or '').endswith(cname) and b2.place is not None and counter_pred(body, expr_of(body, b2)[1] if expr_of(body, b2)[0] == 'place' else b2.place):
                        subs.append(st)
        rep.ob('R06.10', bool(subs), key + 'accepted-bounded-by-remainder', 'bytes accepted per call bounded by %s - counter' % cname if subs else
               'no `%s - counter` bound on what is added to the current %s' % (cname, what), body.loc())

    ew = one_body(prog, rep, 'R06.10', 'mla', adt='layers::encrypt::EncryptionLayerWriter', name='write', trait='std::io::Write')
    if ew is not None:
        ew = inlined_body(prog, ew, skip=('renew_cipher',))      # closing a chunk (new cipher + tag) may be a private helper
        geometry(ew, lambda b, pl: place_fields(pl)[-1:] == ['current_chunk_offset'], 'CHUNK_SIZE', lambda t: t.cmethod == 'renew_cipher', 'encryption chunk')
    cw = one_body(prog, rep, 'R06.10', 'mla', adt='layers::compress::CompressionLayerWriter', name='write', trait='std::io::Write')
    if cw is not None:
        cw = inlined_body(prog, cw)

        def written(b, pl):
            # payload `.0` of the InData state (the per-block byte counter), or a local copied from it
            if any(p[0] == 'down' and p[2] == 'InData' for p in pl[1]):
                return True
            o = origins(b, [pl[0]], through_calls=False)
            return any('InData' in str(f) or (f and f[-1] == '0') for f in o.fields) or b.lname(pl[0]) == 'written'
        geometry(cw, written, 'UNCOMPRESSED_DATA_SIZE', lambda t: t.cmethod == 'into_inner' and 'CompressorWriter' in (t.cargs + cnorm(t)), 'compression block')
    for fn, want in (('load_in_cache', (CH or 0) + TAG), ('load_in_cache_unauthenticated', CH)):
        body = one_body(prog, rep, 'R06.10', 'mla', exact='layers::encrypt::EncryptionLayerInternal::' + fn)
        if body is None:
            continue
        rte = [b for b in body.calls() if b.term.cmethod == 'read_to_end' and b.term.ctrait == 'std::io::Read']
        lim = None
        if len(rte) == 1:
            ro = origins(body, [rte[0].term.args[0].place[0]])
            tk = [body.blocks[c].term for c in ro.calls if body.blocks[c].term.cmethod == 'take' and body.blocks[c].term.ctrait == 'std::io::Read']
            if len(tk) == 1:
                lim = const_eval(body, tk[0].args[1])
        alt = (CH or 0) + TAG if fn == 'load_in_cache_unauthenticated' else None
        ok = lim is not None and (lim == want or (alt is not None and lim == alt))
        rep.ob('R06.10', ok, 'R06.10|%s|chunk-read-length' % body.nkey, 'chunk read through take(%s)' % lim if ok else
               'the chunk loader reads take(%s) instead of %s: chunks are no longer cut every CHUNK_SIZE(+TAG_LENGTH) bytes' % (lim, want), body.loc(rte[0].idx) if rte else body.loc())


def r06_9(prog, rep):
    """sizes footer: each entry of compressed_sizes is the byte count of a *closed* brotli stream -- the value pushed is the `pos` counter of the
    WriterWithCount handed back by CompressorWriter::into_inner() (which emits the stream terminator), not a count read while the compressor is
    still open; and one size is pushed per closed compressor."""
    mla = prog.crates['mla']
    n = 0
    for body in mla.bodies:
        if body.impl_adt != 'layers::compress::CompressionLayerWriter' or body.kind == 'Closure':
            continue
        closes = [b for b in body.calls() if b.term.cmethod == 'into_inner' and 'CompressorWriter' in (b.term.cargs + cnorm(b.term))]
        pushes = []
        for b in body.calls():
            if b.term.cmethod == 'push' and b.term.args and b.term.args[0].place is not None:
                o = origins(body, [b.term.args[0].place[0]], through_calls=False)
                if any(f[-1] == 'compressed_sizes' for f in o.fields):
                    pushes.append(b)
        for pu in pushes:
            n += 1
            rep.fn(body)
            a = pu.term.args[1]
            ok = False
            why = 'the pushed size is not read from the writer returned by CompressorWriter::into_inner()'
            e = expr_of(body, a)
            pl = e[1] if e[0] == 'place' else None
            if pl is not None and [p[2] for p in pl[1] if p[0] == 'f'] == ['pos']:
                d = unique_def(body, pl[0]) or next((x for x in body.defs.get(pl[0], []) if x[2] == 'call'), None)
                if d is not None and d[2] == 'call' and d[0] in [c.idx for c in closes] and body.dominates(d[0], pu.idx):
                    ok = True
                    why = 'size = pos of the writer returned by CompressorWriter::into_inner() (stream closed, terminator counted)'
            rep.ob('R06.9', ok, 'R06.9|%s|compressed_sizes.push|after-stream-closed' % body.nkey, why if ok else
                   why + ': bytes emitted when the brotli stream is closed are not counted, the sizes footer no longer delimits the blocks', body.loc(pu.idx))
        # every close records a size
        for c in closes:
            okc = any(body.dominates(c.idx, pu.idx) for pu in pushes)
            rep.ob('R06.9', okc, 'R06.9|%s|into_inner|size-recorded' % body.nkey, 'closing a brotli stream records its compressed size' if okc else
                   'a brotli stream is closed without recording its size in compressed_sizes', body.loc(c.idx))
    rep.floor('R06.9', n, 1, 'pushes into compressed_sizes')


class _LocalOp:
    def __init__(self, l):
        self.kind = 'copy'
        self.place = (l, ())
        self.k = None

    def const_int(self):
        return None


def _mk_local_op(l):
    return _LocalOp(l)


def thorough_extra(rep, verif, repo):
    """documentation cross-reference of the current tree (positive mismatches only)"""
    from .. import docscan
    return docscan.scan_format(rep, verif, repo)
