"""Virtual inlining of private helper functions into a caller, at the level of the JSON facts.

Rules that are anchored on one function ("in F, every path ...") would lose sight of code that a refactoring moved into a private
helper of F. `inlined_body(prog, body)` returns a Body in which every exactly resolved call to a small same-crate free function /
inherent method is replaced by the callee's blocks (parameters assigned from the arguments, `return` replaced by an assignment of the
result and a jump to the call's target). The caller's identity (def path, key, nkey, spans) is kept; statements keep the file:line of
where they were written. Nothing is executed: this is a CFG splice."""
import copy
from . import core


def _remap(x, dl, db, ret_to, dest, unwind_to):
    """deep copy of a callee JSON fragment with locals shifted by dl and block indexes by db"""
    if isinstance(x, dict):
        if 'l' in x and 'p' in x and isinstance(x['l'], int):
            return {'l': x['l'] + dl, 'p': [_remap(e, dl, db, ret_to, dest, unwind_to) for e in x['p']]}
        out = {}
        for k, v in x.items():
            if k == 'idx' and isinstance(v, int):
                out[k] = v + dl
            elif k in ('target', 'unwind', 'otherwise') and isinstance(v, int):
                out[k] = v + db
            elif k == 'targets' and isinstance(v, list):
                out[k] = [[a, b + db] for a, b in v]
            else:
                out[k] = _remap(v, dl, db, ret_to, dest, unwind_to)
        return out
    if isinstance(x, list):
        return [_remap(e, dl, db, ret_to, dest, unwind_to) for e in x]
    return x


def inline_call(caller_j, callee_j, bb):
    """returns a new caller JSON with the call terminating block `bb` replaced by the body of callee_j"""
    cj = copy.deepcopy(caller_j)
    blk = cj['blocks'][bb]
    term = blk['term']
    assert term['t'] == 'call'
    dl = len(cj['locals'])
    db = len(cj['blocks'])
    cj['locals'] = cj['locals'] + copy.deepcopy(callee_j['locals'])
    tspan = blk.get('tspan')
    # parameters
    for i, a in enumerate(term['args']):
        blk['stmts'].append({'s': 'assign', 'place': {'l': dl + 1 + i, 'p': []}, 'rv': {'r': 'use', 'op': a}, 'span': tspan})
    ret_to = term.get('target')
    dest = term.get('dest')
    unwind_to = term.get('unwind')
    blk['term'] = {'t': 'goto', 'target': db}
    for b in callee_j['blocks']:
        nb = _remap(b, dl, db, ret_to, dest, unwind_to)
        t = nb['term']
        if t['t'] == 'return':
            if dest is not None:
                nb['stmts'].append({'s': 'assign', 'place': dest, 'rv': {'r': 'use', 'op': {'m': {'l': dl, 'p': []}}}, 'span': nb.get('tspan') or tspan})
            nb['term'] = {'t': 'goto', 'target': ret_to} if ret_to is not None else {'t': 'unreachable'}
        elif t['t'] == 'resume' and unwind_to is not None:
            nb['term'] = {'t': 'goto', 'target': unwind_to}
        cj['blocks'].append(nb)
    return cj


def eligible(prog, caller, callee, max_blocks):
    if callee is None or callee.pkg != caller.pkg or callee.key == caller.key:
        return False
    if callee.kind == 'Closure' or callee.impl_trait:
        return False
    if len(callee.blocks) > max_blocks:
        return False
    if callee.abi not in (None, 'Rust'):
        return False
    # (a callee that calls itself is spliced like any other: the self-call it contains stays a call, at most `depth` levels are unfolded)
    return True


def inlined_body(prog, body, depth=2, max_blocks=160, only=None, skip=()):
    """Body with the eligible callees spliced in (at most `depth` levels). `only`: optional predicate on the callee Body.
    `skip`: callee names never inlined (functions rules are anchored on by name)."""
    cache = prog.__dict__.setdefault('_inline_cache', {})
    ck = (body.key, depth, max_blocks, tuple(sorted(skip)), id(only) if only else None)
    if ck in cache:
        return cache[ck]
    cur = body
    n = 0
    for _ in range(depth):
        todo = []
        for b in cur.calls():
            t = b.term
            if t.kind != 'call' or 'indirect' in t.callee:
                continue
            cands, exact = core.resolve_call(prog, cur, t)
            if not exact or len(cands) != 1:
                continue
            c = cands[0]
            if c.name in skip or not eligible(prog, body, c, max_blocks) or (only is not None and not only(c)):
                continue
            if len(t.args) != c.arg_count:
                continue
            todo.append((b.idx, c))
        if not todo:
            break
        j = cur.j
        for bb, c in todo:       # block indexes of the caller are stable: callee blocks are appended
            j = inline_call(j, c.j, bb)
            n += 1
        cur = core.Body(body.pkg, j)
    cur.inlined = n
    cache[ck] = cur
    return cur
