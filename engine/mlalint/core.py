"""mlalint core: loads the facts produced by factsdrv and offers CFG / dataflow
primitives for the rule modules. stdlib only."""
import json, os, sys, collections, re

PKGS = {  # package -> fact file stem
    'mla': 'mla.mla.lib',
    'curve25519-parser': 'curve25519-parser.curve25519_parser.lib',
    'mlar': 'mlar.mlar.bin',
    'mla-bindings-c': 'mla-bindings-c.mla.lib',
    'mla-fuzz-afl': 'mla-fuzz-afl.mla_fuzz_afl.bin',
}
# floors: number of bodies counted on the pinned tree minus a small tolerance is NOT used;
# a crate missing or empty is a machinery failure.
BODY_FLOORS = {'mla': 300, 'curve25519-parser': 20, 'mlar': 40, 'mla-bindings-c': 15, 'mla-fuzz-afl': 5}


class MachineryError(Exception):
    pass


# ------------------------------------------------------------------ places / operands
def mkplace(j):
    """JSON place -> (local, tuple(proj))"""
    projs = []
    for e in j['p']:
        if isinstance(e, str):
            projs.append((e,))
        elif 'f' in e:
            projs.append(('f', e['f'], e['name'], e.get('of', ''), e.get('ty', '')))
        elif 'idx' in e:
            projs.append(('idx', e['idx']))
        elif 'cidx' in e:
            projs.append(('cidx', e['cidx'], e['from_end']))
        elif 'sub_from' in e:
            projs.append(('sub', e['sub_from'], e['sub_to'], e['from_end']))
        elif 'down' in e:
            projs.append(('down', e['down'], e['name']))
        else:
            projs.append(('?',))
    return (j['l'], tuple(projs))


def place_fields(pl):
    """names of the Field projections in order"""
    return [e[2] for e in pl[1] if e[0] == 'f']


def place_fields_ix(pl):
    """rename-proof rendering of the Field projections: ((owner type without generics / lifetimes, field index), ...)"""
    out = []
    for e in pl[1]:
        if e[0] == 'f':
            of = re.sub(r'<.*$', '', e[3] or '').replace('&mut ', '').replace('&', '').strip()
            out.append((of, e[1]))
    return tuple(out)


def place_str(body, pl):
    l, projs = pl
    s = body.lname(l)
    for e in projs:
        if e[0] == 'deref':
            s = '(*%s)' % s
        elif e[0] == 'f':
            s += '.' + e[2]
        elif e[0] == 'idx':
            s += '[%s]' % body.lname(e[1])
        elif e[0] == 'cidx':
            s += '[%s%d]' % ('-' if e[2] else '', e[1])
        elif e[0] == 'sub':
            s += '[%d..%s%d]' % (e[1], '-' if e[3] else '', e[2])
        elif e[0] == 'down':
            s += ' as %s' % e[2]
    return s


class Op:
    """operand: kind in {'copy','move','const'}"""
    __slots__ = ('kind', 'place', 'k')

    def __init__(self, j):
        if 'c' in j:
            self.kind, self.place, self.k = 'copy', mkplace(j['c']), None
        elif 'm' in j:
            self.kind, self.place, self.k = 'move', mkplace(j['m']), None
        elif 'k' in j:
            self.kind, self.place, self.k = 'const', None, j['k']
        else:
            self.kind, self.place, self.k = 'other', None, j

    @property
    def local(self):
        return self.place[0] if self.place else None

    def is_const(self):
        return self.kind == 'const'

    def const_int(self):
        return self.k.get('int') if self.kind == 'const' else None

    def const_def(self):
        return self.k.get('def') if self.kind == 'const' else None

    def const_bytes(self):
        if self.kind == 'const' and 'bytes' in self.k:
            return bytes(self.k['bytes'])
        return None

    def const_fn(self):
        return self.k.get('fn') if self.kind == 'const' else None

    def txt(self, body=None):
        if self.kind == 'const':
            return self.k.get('txt', '?')
        if body is not None:
            return place_str(body, self.place)
        return repr(self.place)


class Rv:
    __slots__ = ('r', 'j', 'ops', 'place')

    def __init__(self, j):
        self.r = j['r']
        self.j = j
        self.ops = []
        self.place = None
        if self.r in ('use', 'repeat'):
            self.ops = [Op(j['op'])]
        elif self.r == 'cast':
            self.ops = [Op(j['op'])]
        elif self.r == 'binop':
            self.ops = [Op(j['a']), Op(j['b'])]
        elif self.r == 'unop':
            self.ops = [Op(j['a'])]
        elif self.r == 'aggregate':
            self.ops = [Op(o) for o in j['ops']]
        elif self.r in ('ref', 'rawptr', 'discr'):
            self.place = mkplace(j['place'])

    def src_places(self):
        out = [o.place for o in self.ops if o.place is not None]
        if self.place is not None:
            out.append(self.place)
        return out


class Stmt:
    __slots__ = ('kind', 'place', 'rv', 'span', 'vidx')

    def __init__(self, j):
        self.kind = j['s']
        self.place = mkplace(j['place']) if 'place' in j else None
        self.rv = Rv(j['rv']) if 'rv' in j else None
        self.span = j.get('span')
        self.vidx = j.get('vidx')


class Term:
    def __init__(self, j, span):
        self.kind = j['t']
        self.j = j
        self.span = span
        self.target = j.get('target')
        self.unwind = j.get('unwind')
        if self.kind in ('call', 'tailcall'):
            self.callee = j['callee']
            self.args = [Op(a) for a in j['args']]
            self.arg_tys = j.get('arg_tys', [])
            self.dest = mkplace(j['dest']) if 'dest' in j else None
        elif self.kind == 'switch':
            self.discr = Op(j['discr'])
            self.dty = j['dty']
            self.targets = [(v, t) for v, t in j['targets']]
            self.otherwise = j['otherwise']
        elif self.kind == 'assert':
            self.cond = Op(j['cond'])
            self.expected = j['expected']
            self.akind = j['kind']
            self.ops = [Op(a) for a in j['ops']]
        elif self.kind == 'drop':
            self.place = mkplace(j['place'])
            self.pty = j['pty']

    # callee helpers
    @property
    def cdef(self):
        """generic def path of the callee ('' for indirect calls)"""
        return self.callee.get('def', '') if self.kind in ('call', 'tailcall') else ''

    @property
    def cresolved(self):
        if self.kind not in ('call', 'tailcall'):
            return ''
        return self.callee.get('resolved') or self.callee.get('def', '')

    @property
    def cmethod(self):
        return self.callee.get('method', '') if self.kind in ('call', 'tailcall') else ''

    @property
    def ctrait(self):
        return self.callee.get('trait', '') if self.kind in ('call', 'tailcall') else ''

    @property
    def cargs(self):
        return self.callee.get('def_args', '') if self.kind in ('call', 'tailcall') else ''

    def succs(self, unwind=False):
        k = self.kind
        out = []
        if k == 'goto':
            out = [self.target]
        elif k == 'switch':
            out = [t for _, t in self.targets] + [self.otherwise]
        elif k in ('call', 'drop', 'assert'):
            if self.target is not None:
                out = [self.target]
            if unwind and self.unwind is not None:
                out.append(self.unwind)
        return out


class Block:
    __slots__ = ('idx', 'cleanup', 'stmts', 'term')

    def __init__(self, idx, j):
        self.idx = idx
        self.cleanup = j['cleanup']
        self.stmts = [Stmt(s) for s in j['stmts']]
        self.term = Term(j['term'], j.get('tspan'))


def fmt_span(sp):
    if not sp:
        return '?'
    return '%s:%d' % (sp['file'], sp['line'])


class Body:
    def __init__(self, pkg, j):
        self.pkg = pkg
        self.j = j
        self.defpath = j['def']
        self.key = pkg + '::' + j['def']
        self.nkey = None  # set below (line-free, generics-free key)
        self.kind = j['kind']
        self.name = j.get('name', '')
        self.span = j['span']
        self.arg_count = j['arg_count']
        self.locals = j['locals']
        self.blocks = [Block(i, b) for i, b in enumerate(j['blocks'])]
        self.impl_trait = j.get('impl_trait')
        self.impl_self = j.get('impl_self')
        self.impl_adt = j.get('impl_adt')
        self.abi = j.get('abi')
        self.vis = j.get('vis')
        self.parent = j.get('parent')
        self.param_bounds = j.get('param_bounds', [])
        self._doms = None
        self._preds = None
        self._defs = None
        self.nkey = self._mk_nkey()

    def _mk_nkey(self):
        d = self.defpath
        clos = ''
        m = re.search(r'(::\{closure#\d+\})+$', d)
        if m:
            clos = m.group(0)
            d = d[:m.start()]
        if self.kind == 'Closure' or clos:
            return self.pkg + '::' + norm_q(d) + clos
        if self.impl_trait and (self.impl_adt or self.impl_self):
            return '%s::<%s as %s>::%s' % (self.pkg, self.impl_adt or norm(self.impl_self), self.impl_trait, self.name)
        return self.pkg + '::' + norm_q(d)

    def __repr__(self):
        return '<Body %s>' % self.key

    # ---- naming / location
    def lname(self, l):
        n = self.locals[l].get('name')
        return n if n else '_%d' % l

    def lty(self, l):
        return self.locals[l]['ty']

    def loc(self, bb=None, si=None):
        if bb is None:
            return fmt_span(self.span)
        b = self.blocks[bb]
        if si is not None and si != 'term' and si < len(b.stmts):
            return fmt_span(b.stmts[si].span)
        return fmt_span(b.term.span)

    def local_by_name(self, name):
        return [i for i, l in enumerate(self.locals) if l.get('name') == name]

    # ---- CFG
    def succs(self, bb, unwind=False):
        return self.blocks[bb].term.succs(unwind)

    @property
    def preds(self):
        if self._preds is None:
            p = collections.defaultdict(list)
            for b in self.blocks:
                for s in b.term.succs(False):
                    p[s].append(b.idx)
            self._preds = p
        return self._preds

    def reachable(self, start=0, removed_blocks=(), removed_edges=(), unwind=False):
        removed_blocks = set(removed_blocks)
        removed_edges = set(removed_edges)
        seen = set()
        if start in removed_blocks:
            return seen
        st = [start]
        seen.add(start)
        while st:
            b = st.pop()
            for s in self.succs(b, unwind):
                if s in seen or s in removed_blocks or (b, s) in removed_edges:
                    continue
                seen.add(s)
                st.append(s)
        return seen

    def reach_from_many(self, starts, removed_blocks=(), unwind=False):
        """blocks reachable from any successor path starting *after* entering the start blocks
        (start blocks themselves included)."""
        removed_blocks = set(removed_blocks)
        seen = set()
        st = []
        for s in starts:
            if s not in removed_blocks and s not in seen:
                seen.add(s)
                st.append(s)
        while st:
            b = st.pop()
            for s in self.succs(b, unwind):
                if s in seen or s in removed_blocks:
                    continue
                seen.add(s)
                st.append(s)
        return seen

    @property
    def doms(self):
        """dominator sets (normal edges only) : dict bb -> set of dominators"""
        if self._doms is None:
            reach = self.reachable(0)
            order = self._rpo()
            allb = set(reach)
            dom = {b: set(allb) for b in reach}
            dom[0] = {0}
            changed = True
            preds = self.preds
            while changed:
                changed = False
                for b in order:
                    if b == 0:
                        continue
                    ps = [p for p in preds[b] if p in reach]
                    if not ps:
                        continue
                    new = set.intersection(*[dom[p] for p in ps]) | {b}
                    if new != dom[b]:
                        dom[b] = new
                        changed = True
            self._doms = dom
        return self._doms

    def _rpo(self):
        seen = set()
        order = []

        def dfs(b):
            stack = [(b, iter(self.succs(b)))]
            seen.add(b)
            while stack:
                n, it = stack[-1]
                adv = False
                for s in it:
                    if s not in seen:
                        seen.add(s)
                        stack.append((s, iter(self.succs(s))))
                        adv = True
                        break
                if not adv:
                    order.append(n)
                    stack.pop()
        dfs(0)
        order.reverse()
        return order

    def dominates(self, a, b):
        return b in self.doms and a in self.doms[b]

    def edge_dominates(self, edge, b):
        """every path entry->b uses edge (src,dst)"""
        r = self.reachable(0)
        if b not in r:
            return True  # unreachable: vacuous
        r2 = self.reachable(0, removed_edges=[edge])
        return b not in r2

    def must_pass_through(self, start, targets, exits):
        """no path start -> any of exits avoiding all targets. returns list of exits reachable while avoiding"""
        r = self.reachable(start, removed_blocks=targets)
        return [e for e in exits if e in r]

    def return_blocks(self):
        return [b.idx for b in self.blocks if b.term.kind == 'return' and not b.cleanup]

    def calls(self):
        for b in self.blocks:
            if b.term.kind in ('call', 'tailcall'):
                yield b

    def find_calls(self, pred):
        return [b for b in self.calls() if pred(b.term)]

    def loop_blocks(self):
        """blocks that lie on a CFG cycle (normal edges)"""
        res = set()
        # Tarjan SCC
        index = {}
        low = {}
        onst = set()
        st = []
        idx = [0]
        sys.setrecursionlimit(max(10000, sys.getrecursionlimit()))

        def sc(v):
            index[v] = low[v] = idx[0]
            idx[0] += 1
            st.append(v)
            onst.add(v)
            for w in self.succs(v):
                if w not in index:
                    sc(w)
                    low[v] = min(low[v], low[w])
                elif w in onst:
                    low[v] = min(low[v], index[w])
            if low[v] == index[v]:
                comp = []
                while True:
                    w = st.pop()
                    onst.discard(w)
                    comp.append(w)
                    if w == v:
                        break
                if len(comp) > 1 or v in self.succs(v):
                    res.update(comp)
        for b in self.reachable(0):
            if b not in index:
                sc(b)
        return res

    # ---- definitions
    @property
    def defs(self):
        """local -> list of (bb, si, kind, obj) where kind in
        'assign' (obj=Stmt, whole or projected place), 'call' (obj=Term, dest), 'mutarg' (obj=(Term, argidx):
        local borrowed mutably (directly or through a ref local) and passed to the call)"""
        if self._defs is None:
            d = collections.defaultdict(list)
            # mutable reference map: ref local -> referent local (one level, flow-insensitive)
            for b in self.blocks:
                for i, s in enumerate(b.stmts):
                    if s.kind in ('assign', 'setdiscr') and s.place is not None:
                        d[s.place[0]].append((b.idx, i, 'assign', s))
                t = b.term
                if t.kind == 'call' and t.dest is not None:
                    d[t.dest[0]].append((b.idx, 'term', 'call', t))
            self._defs = d
        return self._defs

    def mutrefs(self):
        """ref local -> set of base locals it may point into (through &mut / & / raw ptr of a place),
        transitively through reborrows (`&mut *r`)."""
        if getattr(self, '_mutrefs', None) is None:
            m = collections.defaultdict(set)
            for b in self.blocks:
                for s in b.stmts:
                    if s.kind == 'assign' and s.rv.r in ('ref', 'rawptr') and not s.place[1]:
                        m[s.place[0]].add(s.rv.place)
            self._mutrefs = m
        return self._mutrefs


class Crate:
    def __init__(self, pkg, j):
        self.pkg = pkg
        self.name = j['crate']
        self.j = j
        self.bodies = [Body(pkg, b) for b in j['bodies']]
        self.by_def = {}
        for b in self.bodies:
            self.by_def[b.defpath] = b
        self.consts = {c['path']: c for c in j['consts']}
        self.adts = {a['path']: a for a in j['adts']}
        for a in j['adts']:
            if a.get('kind') == 'enum':
                for v in a.get('variants', []):
                    if v.get('discr') is not None:
                        ENUM_DISCR[(a['path'], v['name'])] = v['discr']
        self.impls = j['impls']
        self.traits = {t['path']: t['supertraits'] for t in j.get('traits', [])}

    def const_int(self, path):
        c = self.consts.get(path)
        if c is None:
            return None
        return c['val']['k'].get('int')

    def const_bytes(self, path):
        c = self.consts.get(path)
        if c is None or 'bytes' not in c['val']['k']:
            return None
        return bytes(c['val']['k']['bytes'])


class Program:
    def __init__(self, facts_dir, config='default', fallback_dir=None):
        self.crates = {}
        self.config = config
        for pkg, stem in PKGS.items():
            p = os.path.join(facts_dir, stem + '.json')
            if not os.path.exists(p) and fallback_dir is not None and pkg != 'mla':
                # crates that the feature configuration does not rebuild are taken from the default configuration
                p = os.path.join(fallback_dir, stem + '.json')
            if not os.path.exists(p):
                raise MachineryError('fact file missing for package %s (%s)' % (pkg, p))
            with open(p) as f:
                j = json.load(f)
            c = Crate(pkg, j)
            if len(c.bodies) < BODY_FLOORS[pkg]:
                raise MachineryError('package %s: only %d bodies extracted (floor %d)' % (pkg, len(c.bodies), BODY_FLOORS[pkg]))
            self.crates[pkg] = c

    def bodies(self, pkgs=None):
        for pkg, c in self.crates.items():
            if pkgs is None or pkg in pkgs:
                for b in c.bodies:
                    yield b

    def body(self, pkg, defpath):
        c = self.crates.get(pkg)
        return c.by_def.get(defpath) if c else None

    def find(self, pkg, pred):
        return [b for b in self.crates[pkg].bodies if pred(b)]

    def adt(self, path, pkg=None):
        for p, c in self.crates.items():
            if pkg is not None and p != pkg:
                continue
            if path in c.adts:
                return c.adts[path]
        return None

    def closures_of(self, body):
        pre = body.defpath + '::{closure#'
        return [b for b in self.crates[body.pkg].bodies if b.kind == 'Closure' and b.defpath.startswith(pre)]


# ------------------------------------------------------------------ switch interpretation
def strip_generics(ty):
    """'a::B<T>' -> 'a::B' ; '&mut a::B<T>' -> 'a::B'"""
    t = ty
    while t.startswith('&'):
        t = t[1:].lstrip()
        if t.startswith("'"):
            t = t.split(' ', 1)[1] if ' ' in t else t
        if t.startswith('mut '):
            t = t[4:]
    depth = 0
    out = []
    for ch in t:
        if ch == '<':
            depth += 1
        elif ch == '>':
            depth -= 1
        elif depth == 0:
            out.append(ch)
    return ''.join(out)


def last_def_in_block(body, bb, local, before=None):
    """last whole-local assignment to `local` in block bb (before stmt index `before`)"""
    b = body.blocks[bb]
    rng = range(len(b.stmts)) if before is None or before == 'term' else range(before)
    res = None
    for i in rng:
        s = b.stmts[i]
        if s.kind == 'assign' and s.place == (local, ()):
            res = (i, s)
    return res


def switch_info(prog, body, bb):
    """Interpret the SwitchInt ending block bb.
    Returns dict: kind 'enum' -> {'place', 'adt', 'arms': {variant: target}, 'otherwise'}
                  kind 'bool' -> {'cond': Op, 'true': bb, 'false': bb, 'def': how cond was computed}
                  kind 'int'  -> {'discr': Op, 'arms': {value: target}, 'otherwise'}"""
    t = body.blocks[bb].term
    if t.kind != 'switch':
        return None
    d = t.discr
    if t.dty == 'bool':
        f = None
        tr = None
        for v, tgt in t.targets:
            if v == 0:
                f = tgt
            elif v == 1:
                tr = tgt
        if f is None:
            f = t.otherwise
        if tr is None:
            tr = t.otherwise
        return {'kind': 'bool', 'cond': d, 'true': tr, 'false': f}
    # enum discriminant?
    if d.place is not None and not d.place[1]:
        ld = last_def_in_block(body, bb, d.place[0])
        if ld is not None and ld[1].rv.r == 'discr':
            rv = ld[1].rv
            adt_path = strip_generics(rv.j['of'])
            adt = prog.adt(adt_path)
            arms = {}
            if adt is not None and adt['kind'] == 'enum':
                byd = {v['discr']: v['name'] for v in adt['variants']}
                covered = set()
                for v, tgt in t.targets:
                    nm = byd.get(v, 'discr%d' % v)
                    arms[nm] = tgt
                    covered.add(nm)
                rest = [v['name'] for v in adt['variants'] if v['name'] not in covered]
                return {'kind': 'enum', 'place': rv.place, 'adt': adt_path, 'arms': arms,
                        'otherwise': t.otherwise, 'rest': rest}
    return {'kind': 'int', 'discr': d, 'arms': {v: tgt for v, tgt in t.targets}, 'otherwise': t.otherwise}


def enum_arm_target(si, variant):
    """target block of `variant` for an 'enum' switch info (falls to otherwise if in rest)"""
    if variant in si['arms']:
        return si['arms'][variant]
    if variant in si.get('rest', []):
        return si['otherwise']
    return None


# ------------------------------------------------------------------ origins (backward may-slice)
class Origins:
    """Flow-insensitive backward closure from a local. Collects:
      calls : set of (bb) whose dest feeds the value (any call)
      consts: list of const dicts
      params: set of param locals reached
      fields: set of tuples of field-name paths loaded (e.g. ('self','key'))
      locals: all locals visited"""

    def __init__(self):
        self.calls = set()
        self.consts = []
        self.params = set()
        self.fields = set()
        self.fields_ix = set()   # rename-proof: ((owner type without generics, field index), ..) per loaded place
        self.locals = set()
        self.aggs = []
        self.binops = []


TRANSPARENT = None


def origins(body, start_locals, through_calls=True, stop_calls=None, follow_mutargs=True):
    """may-derive closure. through_calls: the dest of a call derives from all its args.
    stop_calls: predicate(Term)->bool, calls at which to stop (recorded but args not followed)."""
    o = Origins()
    work = list(start_locals)
    defs = body.defs
    mutarg_defs = _mutarg_defs(body) if follow_mutargs else {}
    while work:
        l = work.pop()
        if l in o.locals:
            continue
        o.locals.add(l)
        if 1 <= l <= body.arg_count:
            o.params.add(l)
        for (bb, si, kind, obj) in defs.get(l, []):
            if kind == 'assign':
                s = obj
                if s.kind != 'assign':
                    continue
                rv = s.rv
                for op in rv.ops:
                    if op.kind == 'const':
                        o.consts.append(op.k)
                    elif op.place is not None:
                        work.append(op.place[0])
                        fs = place_fields(op.place)
                        if fs:
                            o.fields.add((body.lname(op.place[0]),) + tuple(fs))
                            o.fields_ix.add(place_fields_ix(op.place))
                        for e in op.place[1]:
                            if e[0] == 'idx':
                                pass
                if rv.place is not None:
                    work.append(rv.place[0])
                    fs = place_fields(rv.place)
                    if fs:
                        o.fields.add((body.lname(rv.place[0]),) + tuple(fs))
                        o.fields_ix.add(place_fields_ix(rv.place))
                if rv.r == 'aggregate':
                    o.aggs.append((bb, si, rv))
                if rv.r == 'binop':
                    o.binops.append((bb, si, rv))
            elif kind == 'call':
                t = obj
                o.calls.add(bb)
                if stop_calls is not None and stop_calls(t):
                    continue
                if through_calls:
                    for a in t.args:
                        if a.kind == 'const':
                            o.consts.append(a.k)
                        elif a.place is not None:
                            work.append(a.place[0])
                            fs = place_fields(a.place)
                            if fs:
                                o.fields.add((body.lname(a.place[0]),) + tuple(fs))
                                o.fields_ix.add(place_fields_ix(a.place))
        for (bb, t, ai) in mutarg_defs.get(l, []):
            o.calls.add(bb)
            if stop_calls is not None and stop_calls(t):
                continue
            if through_calls:
                for j, a in enumerate(t.args):
                    if j == ai:
                        continue
                    if a.kind == 'const':
                        o.consts.append(a.k)
                    elif a.place is not None:
                        work.append(a.place[0])
    return o


REF_PASSTHROUGH = {'deref_mut', 'as_mut_slice', 'as_mut', 'borrow_mut', 'get_mut', 'index_mut', 'by_ref', 'as_mut_ptr', 'iter_mut', 'as_deref_mut'}


def mutarg_defs(body):
    return _mutarg_defs(body)


def _mutarg_defs(body):
    """local -> list of (bb, Term, argidx): calls receiving a &mut (or raw mut) pointer into local"""
    if getattr(body, '_mutarg', None) is not None:
        return body._mutarg
    # which ref locals point (mutably) into which base locals
    refmap = collections.defaultdict(set)  # ref local -> base locals
    for b in body.blocks:
        for s in b.stmts:
            if s.kind == 'assign' and not s.place[1]:
                rv = s.rv
                if rv.r in ('ref', 'rawptr') and rv.j.get('mut'):
                    base = rv.place[0]
                    if rv.place[1] and rv.place[1][0] == ('deref',):
                        continue  # reborrow through a reference: handled by propagation below
                    refmap[s.place[0]].add(base)
    # propagate through moves/casts of the ref and reborrows (&mut *r)
    changed = True
    while changed:
        changed = False
        for b in body.blocks:
            for s in b.stmts:
                if s.kind == 'assign' and not s.place[1]:
                    rv = s.rv
                    srcs = []
                    if rv.r in ('use', 'cast') and rv.ops and rv.ops[0].place is not None and not rv.ops[0].place[1]:
                        srcs.append(rv.ops[0].place[0])
                    if rv.r in ('ref', 'rawptr') and rv.j.get('mut') and rv.place[1] and rv.place[1][0] == ('deref',):
                        srcs.append(rv.place[0])
                    for src in srcs:
                        if src in refmap:
                            new = refmap[src] - refmap[s.place[0]]
                            if new:
                                refmap[s.place[0]] |= new
                                changed = True
    # references returned by pass-through accessors (deref_mut, as_mut_slice, ...) point into the same base
    changed = True
    while changed:
        changed = False
        for b in body.blocks:
            t = b.term
            if t.kind == 'call' and t.cmethod in REF_PASSTHROUGH and t.args and t.dest is not None and not t.dest[1]:
                a = t.args[0]
                if a.place is not None and not a.place[1] and a.place[0] in refmap and body.lty(t.dest[0]).startswith(('&mut', '*mut')):
                    new = refmap[a.place[0]] - refmap[t.dest[0]]
                    if new:
                        refmap[t.dest[0]] |= new
                        changed = True
        for b in body.blocks:
            for s in b.stmts:
                if s.kind == 'assign' and not s.place[1]:
                    rv = s.rv
                    srcs = []
                    if rv.r in ('use', 'cast') and rv.ops and rv.ops[0].place is not None and not rv.ops[0].place[1]:
                        srcs.append(rv.ops[0].place[0])
                    if rv.r in ('ref', 'rawptr') and rv.j.get('mut') and rv.place[1] and rv.place[1][0] == ('deref',):
                        srcs.append(rv.place[0])
                    for src in srcs:
                        if src in refmap:
                            new = refmap[src] - refmap[s.place[0]]
                            if new:
                                refmap[s.place[0]] |= new
                                changed = True
    res = collections.defaultdict(list)
    for b in body.blocks:
        t = b.term
        if t.kind == 'call':
            if t.cmethod in REF_PASSTHROUGH:
                continue
            for ai, a in enumerate(t.args):
                if a.place is not None and not a.place[1] and a.place[0] in refmap:
                    for base in refmap[a.place[0]]:
                        res[base].append((b.idx, t, ai))
    body._mutarg = res
    body._refmap = refmap
    return res


def refmap(body):
    _mutarg_defs(body)
    return body._refmap


def uses_of_local(body, local):
    """all (bb, si) positions where `local` is read (as operand base or rvalue place base or call arg)"""
    out = []
    for b in body.blocks:
        for i, s in enumerate(b.stmts):
            if s.kind == 'assign':
                for pl in s.rv.src_places():
                    if pl[0] == local:
                        out.append((b.idx, i))
                        break
                else:
                    if s.place[0] == local and s.place[1]:
                        pass
        t = b.term
        if t.kind in ('call', 'tailcall'):
            if any(a.place is not None and a.place[0] == local for a in t.args):
                out.append((b.idx, 'term'))
        elif t.kind == 'switch':
            if t.discr.place is not None and t.discr.place[0] == local:
                out.append((b.idx, 'term'))
        elif t.kind == 'assert':
            if t.cond.place is not None and t.cond.place[0] == local:
                out.append((b.idx, 'term'))
    return out


def forward_locals(body, start_locals, through_calls=True):
    """forward may-flow closure at local granularity: set of locals whose value may derive
    from start locals"""
    seen = set(start_locals)
    changed = True
    ma = _mutarg_defs(body)
    while changed:
        changed = False
        for b in body.blocks:
            for s in b.stmts:
                if s.kind == 'assign':
                    srcs = [pl[0] for pl in s.rv.src_places()]
                    if any(x in seen for x in srcs) and s.place[0] not in seen:
                        seen.add(s.place[0])
                        changed = True
            t = b.term
            if t.kind == 'call' and through_calls:
                if any(a.place is not None and a.place[0] in seen for a in t.args):
                    if t.dest is not None and t.dest[0] not in seen:
                        seen.add(t.dest[0])
                        changed = True
        if through_calls:
            for base, lst in ma.items():
                if base in seen:
                    continue
                for (bb, t, ai) in lst:
                    if any(j != ai and a.place is not None and a.place[0] in seen for j, a in enumerate(t.args)):
                        seen.add(base)
                        changed = True
                        break
    return seen


# ------------------------------------------------------------------ call graph
def call_edges(prog, pkgs=None):
    """(caller Body) -> list of (bb, callee key or None, Term). Static edges only; closures linked to parents."""
    edges = collections.defaultdict(list)
    for body in prog.bodies(pkgs):
        for b in body.calls():
            t = b.term
            edges[body.key].append((b.idx, t))
    return edges


# ------------------------------------------------------------------ reporting
class Violation:
    def __init__(self, rule, key, msg, loc='?'):
        self.rule = rule
        self.key = key      # stable, line-free key
        self.msg = msg
        self.loc = loc

    def to_json(self):
        return {'rule': self.rule, 'key': self.key, 'msg': self.msg, 'loc': self.loc}


class Report:
    """collects obligations, violations and samples for one property"""

    def __init__(self, prop):
        self.prop = prop
        self.violations = []
        self.obligations = 0
        self.discharged = 0
        self.rule_counts = collections.OrderedDict()
        self.samples = []
        self.notes = []
        self.functions = set()

    def ob(self, rule, ok, key, msg, loc='?', sample=None):
        """record one obligation (rule instance)."""
        self.obligations += 1
        rc = self.rule_counts.setdefault(rule, {'instances': 0, 'ok': 0})
        rc['instances'] += 1
        if ok:
            self.discharged += 1
            rc['ok'] += 1
            if sample is not None or len([s for s in self.samples if s['rule'] == rule]) < 3:
                self.samples.append({'rule': rule, 'instance': key, 'loc': loc, 'verdict': 'holds', 'detail': sample or msg})
        else:
            self.violations.append(Violation(rule, key, msg, loc))
        return ok

    def floor(self, rule, found, floor, what):
        """anchor-count floor: fewer instances than confirmed by hand -> fail closed"""
        ok = found >= floor
        self.ob(rule + '.floor', ok, '%s|floor|%s' % (rule, what),
                '%s: matched %d instance(s), floor %d%s' % (what, found, floor, '' if ok else ' -- rule lost its anchors'),
                '-', sample='%s: %d matched (floor %d)' % (what, found, floor))
        return ok

    def note(self, s):
        self.notes.append(s)

    def fn(self, body):
        if body is not None:
            self.functions.add(body.nkey)


# ------------------------------------------------------------------ must-derive
TRANSPARENT_METHODS = {
    # method name -> set of acceptable trait/impl hints ('' = any)
    'deref', 'deref_mut', 'as_slice', 'as_mut_slice', 'as_ref', 'as_mut', 'borrow', 'borrow_mut',
    'into', 'from', 'branch', 'clone', 'as_bytes', 'as_str', 'to_owned', 'unwrap', 'expect', 'as_ptr',
    'as_mut_ptr', 'cast', 'by_ref', 'into_iter', 'iter', 'as_path', 'to_path_buf', 'to_vec', 'as_os_str',
    'from_residual', 'try_into', 'try_from', 'map_err', 'ok_or', 'ok_or_else', 'unwrap_or_default', 'copied', 'cloned',
    'to_string', 'into_boxed_slice', 'new_unchecked', 'get_mut', 'get_ref', 'into_inner', 'index', 'index_mut',
    'inspect_err', 'inspect',
}


def is_transparent_call(t, extra=()):
    m = t.cmethod
    return m in TRANSPARENT_METHODS or m in extra


def must_derive(body, local, is_src, extra_transparent=(), allow_partial=False, why=None):
    """True iff every definition of `local` is a transparent copy/projection/borrow/wrapper of a value
    that (recursively) must-derives from a source. is_src(kind, obj, bb) identifies source definitions:
    kind in 'assign' (obj=Stmt), 'call' (obj=Term), 'mutarg' (obj=(Term, argidx)), 'param' (obj=local).
    `why` (list) receives a reason on failure."""
    seen = set()
    ma = _mutarg_defs(body)

    def fail(msg):
        if why is not None:
            why.append(msg)
        return False

    def rec(l):
        if l in seen:
            return True
        seen.add(l)
        ds = body.defs.get(l, [])
        mds = ma.get(l, [])
        is_param = 1 <= l <= body.arg_count
        if is_param:
            if is_src('param', l, None):
                return True
            if not ds:
                return fail('reaches parameter %s which is not a source' % body.lname(l))
        if not ds and not mds:
            return fail('local %s has no definition' % body.lname(l))
        for (bb, si, kind, obj) in ds:
            if is_src(kind, obj, bb):
                continue
            if kind == 'assign':
                s = obj
                if s.kind != 'assign':
                    return fail('setdiscr on %s' % body.lname(l))
                if s.place[1]:
                    if allow_partial:
                        continue
                    return fail('partial store into %s at %s' % (body.lname(l), body.loc(bb, si)))
                rv = s.rv
                if rv.r in ('use', 'cast'):
                    op = rv.ops[0]
                    if op.kind == 'const':
                        return fail('%s assigned constant %s at %s' % (body.lname(l), op.txt(), body.loc(bb, si)))
                    # field of a locally built tuple: follow the matching operand of every aggregate that defines the tuple
                    pl = op.place
                    if len(pl[1]) == 1 and pl[1][0][0] == 'f' and body.lty(pl[0]).startswith('('):
                        tdefs = body.defs.get(pl[0], [])
                        if tdefs and all(k2 == 'assign' and o2.kind == 'assign' and not o2.place[1] and o2.rv.r == 'aggregate' and o2.rv.j.get('agg') == 'tuple' for (_, _, k2, o2) in tdefs):
                            okt = True
                            for (_, _, _, o2) in tdefs:
                                eop = o2.rv.ops[pl[1][0][1]]
                                if eop.kind == 'const' or not rec(eop.place[0]):
                                    okt = False
                            if not okt:
                                return fail('tuple field %s does not derive from the source on every path' % place_str(body, pl))
                            continue
                    if not rec(op.place[0]):
                        return False
                elif rv.r in ('ref', 'rawptr'):
                    if not rec(rv.place[0]):
                        return False
                else:
                    return fail('%s defined by %s at %s' % (body.lname(l), rv.r, body.loc(bb, si)))
            elif kind == 'call':
                t = obj
                if is_transparent_call(t, extra_transparent) and t.args and t.args[0].place is not None:
                    if not rec(t.args[0].place[0]):
                        return False
                else:
                    return fail('%s defined by call %s at %s' % (body.lname(l), t.cargs, body.loc(bb)))
        for (bb, t, ai) in mds:
            if is_src('mutarg', (t, ai), bb):
                continue
            if allow_partial or not is_data_type(body.lty(l)):
                # objects (readers, writers, generators, maps) keep their identity when a method mutates them
                continue
            # a &mut borrow handed to a call may overwrite the value
            return fail('%s may be written through &mut by %s at %s' % (body.lname(l), t.cargs, body.loc(bb)))
        return True
    return rec(local)


# ------------------------------------------------------------------ symbolic boolean / scalar expressions
def mut_borrowed(body):
    """locals whose address is taken mutably (`&mut l`, `&raw mut l`, also of a field/element of l)"""
    if getattr(body, '_mutb', None) is None:
        m = set()
        for b in body.blocks:
            for s in b.stmts:
                if s.kind == 'assign' and s.rv.r in ('ref', 'rawptr') and s.rv.j.get('mut'):
                    pl = s.rv.place
                    if not pl[1] or pl[1][0] != ('deref',):
                        m.add(pl[0])
        body._mutb = m
    return body._mutb


def unique_def(body, local):
    """the single whole-local definition of `local`, or None. A scalar / array local whose address is taken mutably may be rewritten
    through the reference and therefore has no unique definition."""
    if 1 <= local <= body.arg_count:
        return None   # a parameter is defined at entry: an assignment to it (`buffer = rest`) is a second definition
    ds = body.defs.get(local, [])
    whole = [d for d in ds if not (d[2] == 'assign' and d[3].place[1])]
    if len(whole) != 1:
        return None
    if len(whole) != len(ds) and is_data_type(body.lty(local)):
        return None   # partially overwritten (field / element stores)
    if local in mut_borrowed(body) and is_data_type(body.lty(local)):
        return None
    return whole[0]


def expr_of(body, op, depth=0):
    """('const', int|None, k) | ('call', bb, Term) | ('binop', name, e1, e2) | ('not', e) | ('cast', e) |
    ('place', place) | ('ref', place) | ('discr', place) | ('unknown',)"""
    if depth > 12:
        return ('unknown',)
    if op.kind == 'const':
        return ('const', op.const_int(), op.k)
    if op.place is None:
        return ('unknown',)
    l, projs = op.place
    if projs:
        # checked-arith result field .0 : look through
        if len(projs) == 1 and projs[0][0] == 'f' and body.lty(l).startswith('('):
            d = unique_def(body, l)
            if d and d[2] == 'assign' and d[3].rv.r == 'binop' and projs[0][1] == 0:
                rv = d[3].rv
                return ('binop', rv.j['op'].replace('WithOverflow', ''), expr_of(body, rv.ops[0], depth + 1), expr_of(body, rv.ops[1], depth + 1))
            # several tuple aggregates (one per return of an inlined helper) that all put the same local in position k
            if d is None:
                ds_ = [x for x in body.defs.get(l, []) if x[2] == 'assign' and x[3].kind == 'assign' and not x[3].place[1]]
                # several copies of one and the same tuple local (the result of an inlined helper assigned at each of its returns)
                if ds_ and len(ds_) == len(body.defs.get(l, [])) and body.lty(l).startswith('(') and l not in mut_borrowed(body):
                    srcs = {x[3].rv.ops[0].place[0] if (x[3].rv.r == 'use' and x[3].rv.ops[0].place is not None and not x[3].rv.ops[0].place[1]) else None for x in ds_}
                    if len(srcs) == 1 and None not in srcs:
                        return expr_of(body, _FakeOp((next(iter(srcs)), projs)), depth + 1)
                if ds_ and len(ds_) == len(body.defs.get(l, [])) and all(x[3].rv.r == 'aggregate' and x[3].rv.j.get('agg') == 'tuple' and projs[0][1] < len(x[3].rv.ops) for x in ds_):
                    def root_(lc, n=0):
                        d2 = unique_def(body, lc)
                        if n < 6 and d2 is not None and d2[2] == 'assign' and d2[3].rv.r == 'use' and d2[3].rv.ops[0].place is not None and not d2[3].rv.ops[0].place[1]:
                            return root_(d2[3].rv.ops[0].place[0], n + 1)
                        return lc
                    ks = {root_(x[3].rv.ops[projs[0][1]].place[0]) if x[3].rv.ops[projs[0][1]].place is not None and not x[3].rv.ops[projs[0][1]].place[1] else None for x in ds_}
                    if len(ks) == 1 and None not in ks and l not in mut_borrowed(body):
                        return expr_of(body, _FakeOp((next(iter(ks)), ())), depth + 1)
            # field k of a tuple built locally (or moved from one): the k-th operand of the aggregate
            if d and d[2] == 'assign' and d[3].kind == 'assign' and not d[3].place[1]:
                rv = d[3].rv
                if rv.r == 'aggregate' and rv.j.get('agg') == 'tuple' and projs[0][1] < len(rv.ops):
                    return expr_of(body, rv.ops[projs[0][1]], depth + 1)
                if rv.r == 'use' and rv.ops[0].place is not None and not rv.ops[0].place[1] and body.lty(rv.ops[0].place[0]).startswith('('):
                    return expr_of(body, _FakeOp((rv.ops[0].place[0], projs)), depth + 1)
        return ('place', op.place)
    d = unique_def(body, l)
    if d is None:
        return ('place', op.place)
    bb, si, kind, obj = d
    if kind == 'call':
        return ('call', bb, obj)
    rv = obj.rv
    if rv is None:
        return ('unknown',)
    if rv.r == 'use':
        return expr_of(body, rv.ops[0], depth + 1)
    if rv.r == 'cast':
        return ('cast', expr_of(body, rv.ops[0], depth + 1), rv.j['ty'])
    if rv.r == 'binop':
        return ('binop', rv.j['op'], expr_of(body, rv.ops[0], depth + 1), expr_of(body, rv.ops[1], depth + 1))
    if rv.r == 'unop':
        if rv.j['op'] == 'Not':
            return ('not', expr_of(body, rv.ops[0], depth + 1))
        return ('unop', rv.j['op'], expr_of(body, rv.ops[0], depth + 1))
    if rv.r in ('ref', 'rawptr'):
        return ('ref', rv.place)
    if rv.r == 'discr':
        return ('discr', rv.place)
    if rv.r == 'aggregate':
        return ('agg', bb, si, rv)
    return ('unknown',)


def deref_expr(body, e, depth=0):
    """follow ('ref', place) / ('place', place-with-no-proj) to the defining expression of the referent"""
    if depth > 8:
        return e
    if e[0] == 'ref':
        l, projs = e[1]
        core_projs = [p for p in projs if p[0] != 'deref']
        if not core_projs:
            d = unique_def(body, l)
            if d is None:
                return ('place', (l, ()))
            if d[2] == 'call':
                return ('call', d[0], d[3])
            rv = d[3].rv
            if rv.r == 'use':
                return deref_expr(body, expr_of(body, rv.ops[0]), depth + 1)
            if rv.r in ('ref', 'rawptr'):
                return deref_expr(body, ('ref', rv.place), depth + 1)
            return expr_of(body, _mk_copy((l, ())))
    return e


class _FakeOp:
    def __init__(self, place):
        self.kind = 'copy'
        self.place = place
        self.k = None

    def const_int(self):
        return None


def _mk_copy(place):
    return _FakeOp(place)


def indirect_target(body, t):
    """for a call through a function pointer whose value is a known function item in this (possibly inlined) body: the path of that function, else None"""
    ind = t.callee.get('indirect') if t.kind in ('call', 'tailcall') else None
    if not ind:
        return None
    pj = ind.get('m') or ind.get('c') or ind
    try:
        pl = mkplace(pj)
    except Exception:
        return None
    e = expr_of(body, _FakeOp(pl))
    for _ in range(4):
        if e[0] == 'cast':
            e = e[1]
    if e[0] == 'const' and isinstance(e[2], dict) and e[2].get('fn'):
        return e[2].get('fn_args') or e[2]['fn']
    return None


def comparison_polarity(body, e, depth=0):
    """If boolean expr e is (up to negation / ==1 tests / bool::from) the result of a comparison *call*
    (ct_eq, PartialEq::eq/ne, starts_with, contains, is_null, is_empty, ...), return (bb, Term, polarity) with polarity True
    when e is true exactly when the call 'succeeds' (returns true / Choice(1)). Else None."""
    if depth > 10:
        return None
    k = e[0]
    if k == 'not':
        r = comparison_polarity(body, e[1], depth + 1)
        return (r[0], r[1], not r[2]) if r else None
    if k == 'cast':
        return comparison_polarity(body, e[1], depth + 1)
    if k == 'binop' and e[1] in ('Eq', 'Ne'):
        a, b = e[2], e[3]
        if a[0] == 'const':
            a, b = b, a
        if b[0] == 'const' and b[1] in (0, 1):
            r = comparison_polarity(body, a, depth + 1)
            if r is None:
                return None
            pol = r[2]
            same = (b[1] == 1)
            if e[1] == 'Ne':
                same = not same
            return (r[0], r[1], pol if same else not pol)
        return None
    if k == 'call':
        t = e[2]
        m = t.cmethod
        if m in ('unwrap_u8', 'from', 'into', 'branch', 'clone', 'deref') and t.args:
            inner = deref_expr(body, expr_of(body, t.args[0]))
            if inner[0] == 'call' and inner[1] != e[1]:
                return comparison_polarity(body, inner, depth + 1)
            return None
        if m == 'ne':
            return (e[1], t, False)
        if m == 'not':
            inner = deref_expr(body, expr_of(body, t.args[0]))
            r = comparison_polarity(body, inner, depth + 1)
            return (r[0], r[1], not r[2]) if r else None
        return (e[1], t, True)
    return None


def branch_on_call(prog, body, bb):
    """If block bb ends with a bool switch whose condition is (a polarity of) a call result, return
    (callbb, Term, true_target_block_when_call_true, false_target)"""
    si = switch_info(prog, body, bb)
    if not si or si['kind'] != 'bool':
        return None
    e = expr_of(body, si['cond'])
    r = comparison_polarity(body, e)
    if r is None:
        return None
    cb, t, pol = r
    if pol:
        return (cb, t, si['true'], si['false'])
    return (cb, t, si['false'], si['true'])


# ------------------------------------------------------------------ misc helpers
def norm(path):
    """strip generic arguments from a def path: a::B::<T>::f -> a::B::f ; <X<T> as Tr>::f kept but without <..> args"""
    out = []
    depth = 0
    i = 0
    s = path
    while i < len(s):
        ch = s[i]
        if ch == '<':
            # keep leading '<' of qualified paths ("<T as Trait>::m") readable: treat every <...> as droppable
            depth += 1
        elif ch == '>':
            depth -= 1
        elif depth == 0:
            out.append(ch)
        i += 1
    r = ''.join(out)
    while '::::' in r:
        r = r.replace('::::', '::')
    return r.strip(':') if r.startswith('::') else r


def cnorm(t):
    return norm(t.cdef)


def const_of(body, op, depth=0):
    """the constant dict an operand (through copies / refs / reborrows / unsize casts) denotes, else None"""
    if depth > 10:
        return None
    if op.kind == 'const':
        return op.k
    if op.place is None:
        return None
    l, projs = op.place
    if any(p[0] != 'deref' for p in projs):
        return None
    d = unique_def(body, l)
    if d is None or d[2] != 'assign':
        return None
    rv = d[3].rv
    if rv.r in ('use', 'cast'):
        return const_of(body, rv.ops[0], depth + 1)
    if rv.r in ('ref', 'rawptr'):
        if any(p[0] != 'deref' for p in rv.place[1]):
            return None
        return const_of(body, _mk_copy((rv.place[0], ())), depth + 1)
    return None


def const_bytes_of(body, op):
    k = const_of(body, op)
    if k is not None and 'bytes' in k:
        return bytes(k['bytes'])
    return None


def const_int_of(body, op):
    k = const_of(body, op)
    if k is not None:
        return k.get('int')
    return None


def find_bodies(prog, pkg, adt=None, name=None, trait=None, prefix=None, exact=None):
    res = []
    for b in prog.crates[pkg].bodies:
        if exact is not None and (b.kind == 'Closure' or norm(b.defpath) != exact):
            continue
        if adt is not None and b.impl_adt != adt:
            continue
        if name is not None and b.name != name:
            continue
        if trait is not None and b.impl_trait != trait:
            continue
        if trait is None and adt is not None and name is not None and False:
            continue
        if prefix is not None and not norm(b.defpath).startswith(prefix):
            continue
        res.append(b)
    return res


def one_body(prog, rep, rule, pkg, **kw):
    """resolve an anchor function; fail closed if missing or ambiguous"""
    bs = find_bodies(prog, pkg, **kw)
    desc = ','.join('%s=%s' % kv for kv in sorted(kw.items()))
    if len(bs) != 1:
        rep.ob(rule, False, '%s|anchor|%s' % (rule, desc), 'anchor function (%s) matched %d bodies in %s -- fail closed' % (desc, len(bs), pkg))
        return None
    rep.fn(bs[0])
    return bs[0]


def arm_of_enum_switch(prog, body, pred_place=None, adt=None):
    """all enum switches in body: list of (bb, switch_info) optionally filtered by adt path"""
    out = []
    for b in body.blocks:
        if b.term.kind == 'switch' and not b.cleanup:
            si = switch_info(prog, body, b.idx)
            if si and si['kind'] == 'enum' and (adt is None or si['adt'] == adt):
                out.append((b.idx, si))
    return out


def norm_q(path):
    """generics-free rendering that keeps qualified-path structure: '<A<T> as Tr<U>>::m' -> '<A as Tr>::m'"""
    s = path
    if s.startswith('<'):
        # find matching '>' of the leading qualifier
        depth = 0
        for i, ch in enumerate(s):
            if ch == '<':
                depth += 1
            elif ch == '>':
                depth -= 1
                if depth == 0:
                    inner = s[1:i]
                    rest = s[i + 1:]
                    if ' as ' in inner:
                        a, b = inner.split(' as ', 1)
                        return '<%s as %s>%s' % (norm(a), norm(b), ('::' + norm(rest)) if rest else '')
                    return '<%s>%s' % (norm(inner), ('::' + norm(rest)) if rest else '')
    return norm(s)


# ------------------------------------------------------------------ path-sensitive reachability on constant bool flags
def flag_locals(body):
    """bool locals all of whose definitions are constant assignments or copies of other flag locals"""
    if getattr(body, '_flags', None) is not None:
        return body._flags
    cand = {i for i, l in enumerate(body.locals) if l['ty'] == 'bool' and i > body.arg_count}
    changed = True
    ma = _mutarg_defs(body)
    while changed:
        changed = False
        for l in list(cand):
            ok = True
            if l in ma or l in refmap(body):
                ok = False
            for (bb, si, kind, obj) in body.defs.get(l, []):
                if kind != 'assign' or obj.kind != 'assign' or obj.place[1]:
                    ok = False
                    break
                rv = obj.rv
                if rv.r == 'use' and rv.ops[0].kind == 'const' and rv.ops[0].const_int() in (0, 1):
                    continue
                if rv.r == 'use' and rv.ops[0].place is not None and not rv.ops[0].place[1] and rv.ops[0].place[0] in cand:
                    continue
                ok = False
                break
            # a flag whose address is taken is not tracked
            if ok:
                for b in body.blocks:
                    for s in b.stmts:
                        if s.kind == 'assign' and s.rv.r in ('ref', 'rawptr') and s.rv.place[0] == l:
                            ok = False
            if not ok:
                cand.discard(l)
                changed = True
    body._flags = cand
    return cand


def reachable_ps(body, start, removed_blocks=(), removed_edges=(), env0=None):
    """blocks reachable from `start` when constant bool flags are tracked along the path (infeasible
    branch edges on known flags are not taken). Sound over-approximation of feasible paths, tighter than plain
    reachability. Normal edges only."""
    flags = flag_locals(body)
    removed_blocks = set(removed_blocks)
    removed_edges = set(removed_edges)
    env0 = dict(env0 or {})
    if start in removed_blocks:
        return set()
    init = (start, tuple(sorted(env0.items())))
    seen = {init}
    st = [init]
    blocks = set()
    while st:
        bb, envt = st.pop()
        blocks.add(bb)
        env = dict(envt)
        b = body.blocks[bb]
        for s in b.stmts:
            if s.kind == 'assign' and not s.place[1] and s.place[0] in flags:
                rv = s.rv
                if rv.r == 'use' and rv.ops[0].kind == 'const':
                    env[s.place[0]] = rv.ops[0].const_int()
                elif rv.r == 'use' and rv.ops[0].place is not None:
                    v = env.get(rv.ops[0].place[0])
                    if v is None:
                        env.pop(s.place[0], None)
                    else:
                        env[s.place[0]] = v
        t = b.term
        succs = t.succs(False)
        if t.kind == 'switch' and t.discr.place is not None and not t.discr.place[1] and t.discr.place[0] in flags:
            v = env.get(t.discr.place[0])
            if v is not None:
                tgt = None
                for val, tg in t.targets:
                    if val == v:
                        tgt = tg
                if tgt is None:
                    tgt = t.otherwise
                succs = [tgt]
        envt2 = tuple(sorted(env.items()))
        for s2 in succs:
            if s2 in removed_blocks or (bb, s2) in removed_edges:
                continue
            st2 = (s2, envt2)
            if st2 not in seen:
                seen.add(st2)
                st.append(st2)
    return blocks


def closure_captures(prog, parent, clos):
    """operands of the closure aggregate in `parent` that builds `clos` (capture k -> Op), or None"""
    for b in parent.blocks:
        for st in b.stmts:
            if st.kind == 'assign' and st.rv.r == 'aggregate' and st.rv.j.get('closure') == clos.defpath:
                return st.rv.ops
    return None


def must_derive_captured(prog, parent, clos, local, is_src_parent, extra_transparent=()):
    """`local` of closure `clos` must-derives from captured variables only, and each captured variable it reaches must-derives (in `parent`) from a
    source accepted by is_src_parent"""
    caps = closure_captures(prog, parent, clos)
    if caps is None:
        return False
    used = set()

    def src(kind, obj, bb):
        if kind == 'assign' and obj.kind == 'assign' and obj.rv is not None:
            pls = obj.rv.src_places()
            if len(pls) == 1 and pls[0][0] == 1:
                fs = [p for p in pls[0][1] if p[0] == 'f']
                if fs:
                    used.add(fs[0][1])
                    return True
        return False
    if not must_derive(clos, local, src, extra_transparent=extra_transparent) or not used:
        return False
    for k in used:
        if k >= len(caps) or caps[k].place is None or not must_derive(parent, caps[k].place[0], is_src_parent, extra_transparent=extra_transparent):
            return False
    return True


def must_derive_ip(prog, body, local, is_src, depth=3, extra_transparent=(), _stack=()):
    """interprocedural must-derive: like must_derive, and additionally
    - the result of an exactly resolved call to a workspace function counts when that function's return value must-derives from a source
      (helper extracted around the source, e.g. `fn prepare_dir() -> PathBuf { .. canonicalize(..) }`);
    - a parameter of a non-public workspace function counts when the corresponding argument must-derives from a source at every call site
      (the consumer was moved into a helper that receives the value)."""
    if depth < 0 or (body.key, local) in _stack:
        return False
    stack = _stack + ((body.key, local),)

    def src(kind, obj, bb):
        if is_src(kind, obj, bb):
            return True
        # error results carry no payload: neutral for the derivation of the Ok value
        if kind == 'call' and obj.cmethod == 'from_residual':
            return True
        if kind == 'assign' and obj.kind == 'assign' and obj.rv is not None and obj.rv.r == 'aggregate' and obj.rv.j.get('variant') in ('Err', 'None') and not obj.place[1]:
            return True
        if kind == 'call':
            cands, exact = resolve_call(prog, body, obj)
            if exact and len(cands) == 1 and cands[0].kind != 'Closure' and cands[0].pkg == body.pkg:
                c = cands[0]
                return must_derive_ip(prog, c, 0, is_src, depth - 1, extra_transparent, stack)
            return False
        if kind == 'param':
            if body.kind == 'Closure' or body.impl_trait or (body.abi or 'Rust') != 'Rust':
                return False
            sites = []
            for b2 in prog.crates[body.pkg].bodies:
                for blk in b2.calls():
                    cands, exact = resolve_call(prog, b2, blk.term)
                    if exact and len(cands) == 1 and cands[0].key == body.key:
                        sites.append((b2, blk))
            if not sites:
                return False
            for b2, blk in sites:
                a = blk.term.args[obj - 1] if obj - 1 < len(blk.term.args) else None
                if a is None or a.place is None or not must_derive_ip(prog, b2, a.place[0], is_src, depth - 1, extra_transparent, stack):
                    return False
            return True
        return False
    return must_derive(body, local, src, extra_transparent=extra_transparent)


STD_VARIANT_DISCR = {'Ok': 0, 'Err': 1, 'Continue': 0, 'Break': 1, 'None': 0, 'Some': 1}


def reachable_vs(body, start, removed_blocks=(), removed_edges=(), env0=None):
    """blocks reachable from `start` when the variant held by Result / ControlFlow / Option locals is tracked along the path:
    `x = Err(..)` / `x = Ok(..)` aggregates, moves and copies, `Try::branch(x)` (Ok -> Continue, Err -> Break), `from_residual` (-> Err),
    variant-preserving combinators (map_err, map, inspect*, into on the payload), `d = discriminant(x)` and switches on d. A switch on a value
    whose variant is known follows only the matching arm. Locals whose address is taken mutably are not tracked. Sound over-approximation of the
    feasible paths, tighter than plain reachability; normal edges only."""
    removed_blocks = set(removed_blocks)
    removed_edges = set(removed_edges)
    if start in removed_blocks:
        return set()
    untracked = set(mut_borrowed(body))
    init = (start, tuple(sorted((env0 or {}).items())))
    seen = {init}
    st = [init]
    blocks = set()
    KEEP = {'map_err', 'inspect_err', 'inspect', 'or_else'}
    while st:
        bb, envt = st.pop()
        blocks.add(bb)
        env = dict(envt)
        b = body.blocks[bb]
        for s in b.stmts:
            if s.kind != 'assign' or s.place is None:
                continue
            l = s.place[0]
            if s.place[1]:
                if not (len(s.place[1]) == 1 and s.place[1][0][0] == 'down'):
                    env.pop(l, None)   # a field store into a tracked value: forget it (downcast field inits of aggregates excepted)
                continue
            rv = s.rv
            v = None
            if l not in untracked:
                if rv.r == 'aggregate' and rv.j.get('agg') == 'adt' and rv.j.get('variant') in STD_VARIANT_DISCR:
                    v = rv.j.get('variant')
                elif rv.r == 'use' and rv.ops[0].place is not None and not rv.ops[0].place[1]:
                    v = env.get(rv.ops[0].place[0])
                elif rv.r == 'discr' and not rv.place[1]:
                    sv = env.get(rv.place[0])
                    if sv in STD_VARIANT_DISCR:
                        v = ('d', STD_VARIANT_DISCR[sv])
            if v is None:
                env.pop(l, None)
            else:
                env[l] = v
        t = b.term
        succs = t.succs(False)
        if t.kind == 'call' and t.dest is not None and not t.dest[1]:
            d = t.dest[0]
            v = None
            a0 = t.args[0] if t.args else None
            av = env.get(a0.place[0]) if (a0 is not None and a0.place is not None and not a0.place[1]) else None
            if d not in untracked:
                if t.cmethod == 'branch' and t.ctrait.endswith('Try'):
                    v = {'Ok': 'Continue', 'Err': 'Break', 'Some': 'Continue', 'None': 'Break'}.get(av)
                elif t.cmethod == 'from_residual':
                    v = 'Err' if body.lty(d).startswith('std::result::Result<') else ('None' if body.lty(d).startswith('std::option::Option<') else None)
                elif t.cmethod in KEEP and av in ('Ok', 'Err'):
                    v = av if t.cmethod != 'or_else' else None
                elif t.cmethod == 'map' and av in ('Ok', 'Err', 'Some', 'None'):
                    v = av
                elif t.cmethod == 'ok' and av in ('Ok', 'Err'):
                    v = 'Some' if av == 'Ok' else 'None'
            if v is None:
                env.pop(d, None)
            else:
                env[d] = v
            if t.cmethod in ('unwrap', 'expect') and av in ('Err', 'None'):
                succs = []      # panics: the path ends here
        if t.kind == 'switch' and t.discr.place is not None and not t.discr.place[1]:
            v = env.get(t.discr.place[0])
            if isinstance(v, tuple) and v[0] == 'd':
                tgt = None
                for val, tg in t.targets:
                    if val == v[1]:
                        tgt = tg
                succs = [tgt if tgt is not None else t.otherwise]
        envt2 = tuple(sorted(env.items(), key=lambda kv: kv[0]))
        for s2 in succs:
            if s2 in removed_blocks or (bb, s2) in removed_edges:
                continue
            st2 = (s2, envt2)
            if st2 not in seen:
                seen.add(st2)
                st.append(st2)
    return blocks


DATA_PREFIXES = ('[', 'std::vec::Vec<', 'u8', 'u16', 'u32', 'u64', 'u128', 'usize', 'i8', 'i16', 'i32', 'i64', 'i128', 'isize',
                 'std::string::String', 'bool', '(', 'generic_array::GenericArray<', 'std::boxed::Box<[', 'char')


def is_data_type(ty):
    return ty.startswith(DATA_PREFIXES)


ENUM_DISCR = {}   # (adt path, variant name) -> discriminant, filled when a Program is loaded


def const_eval(body, op, depth=0):
    """integer value of an operand if it is computed from constants only (consts, casts, + - * | & << >>), else None"""
    if depth > 10:
        return None
    e = op if isinstance(op, tuple) else expr_of(body, op)
    k = e[0]
    if k == 'const':
        return e[1]
    if k == 'cast':
        return const_eval(body, e[1], depth + 1)
    if k == 'discr':
        # discriminant of a local holding a constant field-less enum value (`tag as u8` with tag a constant passed to a helper)
        pl = e[1]
        if pl[1]:
            return None
        d = unique_def(body, pl[0])
        if d is None or d[2] != 'assign':
            return None
        rv = d[3].rv
        if rv.r == 'aggregate' and rv.j.get('agg') == 'adt' and not rv.ops:
            return ENUM_DISCR.get((rv.j.get('adt'), rv.j.get('variant')))
        if rv.r == 'use' and rv.ops[0].kind == 'const':
            txt = (rv.ops[0].k or {}).get('txt', '')
            if '::' in txt:
                a, v = txt.rsplit('::', 1)
                return ENUM_DISCR.get((a, v), ENUM_DISCR.get((a.split('::', 1)[-1], v)))
        if rv.r == 'use' and rv.ops[0].place is not None and not rv.ops[0].place[1]:
            return const_eval(body, ('discr', (rv.ops[0].place[0], ())), depth + 1)
        return None
    if k == 'binop':
        a = const_eval(body, e[2], depth + 1)
        b = const_eval(body, e[3], depth + 1)
        if a is None or b is None:
            return None
        o = e[1].replace('Unchecked', '')
        try:
            return {'Add': a + b, 'Sub': a - b, 'Mul': a * b, 'BitOr': a | b, 'BitAnd': a & b, 'BitXor': a ^ b,
                    'Shl': a << b, 'Shr': a >> b, 'Div': a // b if b else None, 'Rem': a % b if b else None}.get(o)
        except Exception:
            return None
    return None


# ------------------------------------------------------------------ workspace call resolution / call graph
CRATE_OF_PKG = {'mla': 'mla', 'curve25519-parser': 'curve25519_parser', 'mlar': 'mlar', 'mla-bindings-c': 'mla', 'mla-fuzz-afl': 'mla_fuzz_afl'}
_GENERIC_TOKEN = re.compile(r'(?<![A-Za-z0-9_:])([A-Z][A-Z0-9]?)(?![A-Za-z0-9_])')


def _index(prog):
    if getattr(prog, '_idx', None) is None:
        by_path = {}
        impls = collections.defaultdict(list)
        for pkg, c in prog.crates.items():
            for b in c.bodies:
                by_path[(pkg, b.defpath)] = b
                if b.impl_trait and b.kind != 'Closure':
                    impls[(b.impl_trait, b.name)].append(b)
        prog._idx = (by_path, impls)
    return prog._idx


def possibly_workspace_type(prog, ty):
    if 'dyn ' in ty:
        return True
    if _GENERIC_TOKEN.search(ty):
        return True
    for pkg, c in prog.crates.items():
        for path, a in c.adts.items():
            if a.get('local') and path in ty:
                return True
    return False


def resolve_call(prog, body, t):
    """candidate workspace bodies a call may enter. Returns (list_of_bodies, exact: bool)"""
    by_path, impls = _index(prog)
    if t.kind not in ('call', 'tailcall') or 'indirect' in t.callee:
        return [], False
    pkg = body.pkg
    for path in (t.callee.get('resolved'), t.callee.get('def')):
        if not path:
            continue
        b = by_path.get((pkg, path))
        if b is not None and t.callee.get('res') == 'item':
            return [b], True
        # other crates
        for opkg, cname in CRATE_OF_PKG.items():
            if opkg == pkg:
                continue
            if path.startswith(cname + '::'):
                b = by_path.get((opkg, path[len(cname) + 2:]))
                if b is not None and t.callee.get('res') == 'item':
                    return [b], True
    tr = t.ctrait
    if tr:
        # cross-crate trait names carry the crate prefix: normalise both spellings
        names = {tr}
        for cname in set(CRATE_OF_PKG.values()):
            if tr.startswith(cname + '::'):
                names.add(tr[len(cname) + 2:])
            else:
                names.add(cname + '::' + tr)
        st = t.callee.get('self_ty', '')
        if t.callee.get('res') != 'item' or possibly_workspace_type(prog, st):
            cands = []
            for n in names:
                cands += impls.get((n, t.cmethod), [])
            # concrete external self type resolved to an external item: no workspace target
            if t.callee.get('res') == 'item' and not possibly_workspace_type(prog, st):
                return [], True
            return cands, False
    return [], True


WS_CRATES = set(CRATE_OF_PKG.values())


def _strip_crate(path):
    for cname in WS_CRATES:
        if path.startswith(cname + '::'):
            return path[len(cname) + 2:]
    return path


def _ws_traits(prog):
    """workspace trait path (crate-local spelling) -> supertraits (same spelling for workspace ones)"""
    if getattr(prog, '_wst', None) is None:
        d = {}
        for pkg, c in prog.crates.items():
            for tpath, sup in c.traits.items():
                d[tpath] = [_strip_crate(x) for x in sup]
        prog._wst = d
    return prog._wst


def external_trait_closure(prog, trait):
    """set of non-workspace traits implied by `trait` (itself if external)"""
    wst = _ws_traits(prog)
    out = set()
    seen = set()
    st = [_strip_crate(trait)]
    while st:
        t = st.pop()
        if t in seen:
            continue
        seen.add(t)
        if t in wst:
            st.extend(wst[t])
        else:
            out.add(t)
    out.discard('std::marker::MetaSized')
    out.discard('std::marker::Sized')
    out.discard('std::marker::Send')
    return out


def callback_targets(prog, body, t):
    """workspace impls of external traits that an external callee may call back through the types it is instantiated with"""
    by_path, impls = _index(prog)
    if getattr(prog, '_ext_impls', None) is None:
        wst = _ws_traits(prog)
        ext = collections.defaultdict(list)      # impl_adt -> bodies of external-trait impls
        by_trait = collections.defaultdict(list)  # external trait -> bodies
        implementors = collections.defaultdict(set)  # workspace trait -> impl_adt
        for b in prog.bodies():
            if b.impl_trait and b.kind != 'Closure':
                tr = _strip_crate(b.impl_trait)
                if tr in wst:
                    if b.impl_adt:
                        implementors[tr].add(b.impl_adt)
                else:
                    if b.impl_adt:
                        ext[b.impl_adt].append(b)
                    by_trait[tr].append(b)
        prog._ext_impls = (ext, by_trait, implementors)
    ext, by_trait, implementors = prog._ext_impls
    tys = list(t.arg_tys) + list(t.callee.get('targs', [])) + [t.callee.get('self_ty', '')]
    out = {}
    root = body
    bounds = collections.defaultdict(set)
    for name, tr in body.param_bounds:
        bounds[name].add(tr)
    for ty in tys:
        if not ty:
            continue
        for adt in ext:
            if adt in ty or _strip_crate(adt) in ty:
                for b in ext[adt]:
                    out[b.key] = b
        # trait objects of workspace traits
        for m in re.finditer(r"dyn (?:'[a-z_]+ \+ )?([A-Za-z0-9_:]+)", ty):
            tr = _strip_crate(m.group(1))
            if tr in _ws_traits(prog):
                ets = external_trait_closure(prog, tr)
                for adt in implementors.get(tr, ()):
                    for b in ext.get(adt, []):
                        if _strip_crate(b.impl_trait) in ets:
                            out[b.key] = b
        for m in _GENERIC_TOKEN.finditer(ty):
            g = m.group(1)
            ets = set()
            for tr in bounds.get(g, ()):
                ets |= external_trait_closure(prog, tr)
            for et in ets:
                for b in by_trait.get(et, []):
                    out[b.key] = b
    return list(out.values())


def call_graph(prog, pkgs=None):
    """key -> set of callee keys (closures are linked from the body that creates them)"""
    if getattr(prog, '_cg', None) is not None:
        return prog._cg
    by_path, impls = _index(prog)
    g = collections.defaultdict(set)
    for body in prog.bodies():
        for b in body.blocks:
            t = b.term
            if t.kind in ('call', 'tailcall'):
                cands, _ = resolve_call(prog, body, t)
                for cb in cands:
                    g[body.key].add(cb.key)
                if not cands and t.callee.get('krate') not in WS_CRATES and 'indirect' not in t.callee:
                    for cb in callback_targets(prog, body, t):
                        g[body.key].add(cb.key)
            for s in b.stmts:
                if s.kind == 'assign' and s.rv.r == 'aggregate' and s.rv.j.get('agg') == 'closure':
                    cb = by_path.get((body.pkg, s.rv.j['closure']))
                    if cb is not None:
                        g[body.key].add(cb.key)
            # function items passed as values (e.g. map(SizesInfo::get_compressed_size))
            ops = []
            for s in b.stmts:
                if s.kind == 'assign':
                    ops += s.rv.ops
            if t.kind in ('call', 'tailcall'):
                ops += t.args
            for op in ops:
                if op.kind == 'const' and op.k.get('fn'):
                    fb = by_path.get((body.pkg, op.k['fn']))
                    if fb is None:
                        for opkg, cname in CRATE_OF_PKG.items():
                            if op.k['fn'].startswith(cname + '::'):
                                fb = by_path.get((opkg, op.k['fn'][len(cname) + 2:]))
                                if fb is not None:
                                    break
                    if fb is not None:
                        g[body.key].add(fb.key)
    prog._cg = g
    prog._bykey = {b.key: b for b in prog.bodies()}
    return g


def reachable_bodies(prog, roots):
    g = call_graph(prog)
    seen = set()
    st = [r.key for r in roots]
    while st:
        k = st.pop()
        if k in seen:
            continue
        seen.add(k)
        st.extend(g.get(k, ()))
    return [prog._bykey[k] for k in seen if k in prog._bykey]
