"""Interval invariants of private integer fields (class invariants), by a fixpoint over every store to the field in its crate.

A private field of a workspace struct can only be written by code of the crate that defines it. Its value is therefore always one of:
  * the operand at its position in a construction of the struct (`Adt { f: v, .. }`, struct-update syntax included: MIR spells every field),
  * the value of a direct assignment `place.f = v`,
  * anything, as soon as a mutable reference to the field itself is created (`&mut x.f`, closure capture by unique borrow, mem::replace ..).
The invariant is the join of the intervals of those values, each computed with the dominating comparisons on the path to the store
(census.refined_interval) and with the invariant itself for reads of the field (Kleene iteration from bottom; a store that reads the field
contributes nothing while the invariant is still empty; no convergence in a few rounds -> the type range).

Sound for the census because: every site that reads the field sees a value some store put there; stores are enumerated over the whole crate
(all bodies the driver dumped, macro-generated impls included); `unsafe` writes through raw pointers would need a `&mut`/`&raw mut` of the
field or of the whole struct -- the former gives up (top), the latter cannot forge a field value without one of the above."""
from .core import *
from . import census

MAX_ROUNDS = 6


def _int_fields(prog, pkgs):
    out = {}
    for pkg in pkgs:
        c = prog.crates.get(pkg)
        if c is None:
            continue
        for path, adt in c.adts.items():
            if adt.get('kind') != 'struct' or not adt.get('local'):
                continue
            for i, f in enumerate(adt['variants'][0]['fields']):
                if f.get('pub'):
                    continue
                if census.type_range(f.get('nty') or f.get('ty') or '') is None or (f.get('ty') or '') == 'bool':
                    continue
                out[(pkg, path, i)] = f
    return out


def _stores(prog, pkg, path, idx, fname):
    """list of (body, bb, operand) stores and a flag `escapes` (a mutable reference to the field exists)"""
    stores = []
    escapes = False
    for body in prog.crates[pkg].bodies:
        for b in body.blocks:
            for si, s in enumerate(b.stmts):
                if s.kind != 'assign':
                    continue
                rv = s.rv
                if rv.r == 'aggregate' and rv.j.get('adt') == path and rv.j.get('agg') == 'adt':
                    fl = rv.j.get('fields') or []
                    if fname in fl and fl.index(fname) < len(rv.ops):
                        stores.append((body, b.idx, rv.ops[fl.index(fname)], si))
                    else:
                        escapes = True     # a construction we cannot read
                if s.place[1]:
                    last = s.place[1][-1]
                    if last[0] == 'f' and last[1] == idx and strip_generics(str(last[3])) == path:
                        if rv.r in ('use', 'cast', 'binop', 'unop') and rv.ops:
                            if rv.r == 'use':
                                stores.append((body, b.idx, rv.ops[0], si))
                            else:
                                stores.append((body, b.idx, ('rv', s), si))
                        else:
                            escapes = True
                if rv.r in ('ref', 'rawptr') and rv.j.get('mut') and rv.place is not None and rv.place[1]:
                    # a unique borrow of the field itself, or of something inside it
                    for p in rv.place[1]:
                        if p[0] == 'f' and p[1] == idx and strip_generics(str(p[3])) == path:
                            escapes = True
            t = b.term
            # a call that writes its result straight into the field
            if t.kind == 'call' and t.dest is not None and t.dest[1]:
                last = t.dest[1][-1]
                if last[0] == 'f' and last[1] == idx and strip_generics(str(last[3])) == path:
                    escapes = True
    return stores, escapes


def _reads_field(body, op, path, idx):
    if isinstance(op, tuple):
        ops = op[1].rv.ops
    else:
        ops = [op]
    for o in ops:
        if o.place is None:
            continue
        for p in o.place[1]:
            if p[0] == 'f' and p[1] == idx and strip_generics(str(p[3])) == path:
                return True
        og = origins(body, [o.place[0]])
        if any(f_ and any(of == path and ix == idx for of, ix in f_) for f_ in og.fields_ix):
            return True
    return False


def _store_interval(prog, body, bb, op, tr, si=None):
    if isinstance(op, tuple):
        return tr      # a computed rvalue stored directly (rare): no refinement attempted
    iv = census.refined_interval(prog, body, bb, op, upto=si)
    if iv is None:
        return tr
    return (max(iv[0], tr[0]), min(iv[1], tr[1])) if max(iv[0], tr[0]) <= min(iv[1], tr[1]) else tr


def compute(prog, pkgs=('mla', 'mlar', 'mla-bindings-c', 'curve25519-parser')):
    """{(owner path, field index): (lo, hi)} for the private integer fields whose invariant is tighter than their type"""
    cached = getattr(prog, '_fieldinv', None)
    if cached is not None:
        return cached
    inv = {}
    census.FIELD_INV = inv      # reads of a field during the iteration see the current approximation
    fields = _int_fields(prog, pkgs)
    info = {}
    for (pkg, path, idx), f in fields.items():
        tr = census.type_range(f.get('nty') or f.get('ty'))
        stores, esc = _stores(prog, pkg, path, idx, f['name'])
        if esc or not stores:
            continue
        info[(path, idx)] = (pkg, tr, stores)
    # Kleene iteration, all fields together (a store may read another field); a field that keeps moving is widened to its type range
    cur = {k: None for k in info}
    moves = {k: 0 for k in info}
    while True:
        changed = False
        inv.clear()
        for k, v in cur.items():
            if v is not None:
                inv[k] = v
        new = {}
        for k, (pkg, tr, stores) in info.items():
            if cur[k] == tr:
                new[k] = tr
                continue
            acc = cur[k]
            for (body, bb, op, si) in stores:
                if cur[k] is None and _reads_field(body, op, k[0], k[1]):
                    continue
                iv = _store_interval(prog, body, bb, op, tr, si)
                acc = iv if acc is None else (min(acc[0], iv[0]), max(acc[1], iv[1]))
            if acc != cur[k]:
                changed = True
                moves[k] += 1
                if moves[k] > MAX_ROUNDS:
                    acc = tr
            new[k] = acc
        cur = new
        if not changed:
            break
    inv.clear()
    for k, v in cur.items():
        pkg, tr, stores = info[k]
        if v is not None and v != tr:
            inv[k] = v
    prog._fieldinv = inv
    census.FIELD_INV = inv
    return inv
