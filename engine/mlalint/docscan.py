"""Thorough-tier cross-reference: re-scan FORMAT.md / README.md of the *current* tree and report values that are positively extracted and
differ from the frozen tables (which R06.1 / R19 compare with the code). Failure to extract is not an alarm: prose may be reworded."""
import json, os, re


def _int(x):
    x = x.replace('_', '')
    if x.startswith('0b'):
        return int(x[2:], 2)
    if x.startswith('0x'):
        return int(x[2:], 16)
    return int(x)


def scan_format(rep, verif, repo):
    T = json.load(open(os.path.join(verif, 'engine', 'tables', 'format_v1.json')))
    p = os.path.join(repo, 'FORMAT.md')
    if not os.path.exists(p):
        rep.note('FORMAT.md not found: documentation cross-reference skipped')
        return {'doc_values_extracted': 0}
    s = open(p).read()
    checks = []

    def add(name, rx, want, conv=lambda m: m.group(1)):
        m = re.search(rx, s)
        if m:
            try:
                checks.append((name, conv(m), want))
            except Exception:
                pass
    add('magic', r'magic: \[u8; 3\] = b"(\w+)"', T['constants_bytes']['MLA_MAGIC'][0])
    add('format_version', r'format_version: u32 = (\d+)', T['constants_int']['MLA_FORMAT_VERSION'][0], lambda m: int(m.group(1)))
    add('ENCRYPT bit', r'ENCRYPT = (0b[01_]+)', T['constants_int']['Layers::ENCRYPT'][0], lambda m: _int(m.group(1)))
    add('COMPRESS bit', r'COMPRESS = (0b[01_]+)', T['constants_int']['Layers::COMPRESS'][0], lambda m: _int(m.group(1)))
    add('chunk size', r'encrypted_content: \[u8; (\d+) \* (\d+)\]', T['constants_int']['layers::encrypt::CHUNK_SIZE'][0], lambda m: int(m.group(1)) * int(m.group(2)))
    add('chunk tag size', r'encrypted_content: [^\n]*\n\s*tag: \[u8; (\d+)\]', T['constants_int']['crypto::aesgcm::TAG_LENGTH'][0], lambda m: int(m.group(1)))
    add('archive nonce size', r'nonce: \[u8; (\d+)\]', T['constants_int']['layers::encrypt::NONCE_SIZE'][0], lambda m: int(m.group(1)))
    add('wrapped key size', r'key: \[u8; (\d+)\]', T['constants_int']['crypto::aesgcm::KEY_SIZE'][0], lambda m: int(m.group(1)))
    add('block size', r'uncompressed data size is `(\d+) \* (\d+) \* (\d+)`', T['constants_int']['layers::compress::UNCOMPRESSED_DATA_SIZE'][0], lambda m: int(m.group(1)) * int(m.group(2)) * int(m.group(3)))
    add('HKDF info', r'HKDF\(SHA-256, [^"]*"([^"]+)"\)', T['constants_bytes']['crypto::ecc::DERIVE_KEY_INFO'][0])
    add('wrap nonce', r'nonce="([^"]+)"', T['constants_bytes']['crypto::ecc::ECIES_NONCE'][0])
    for v, want in T['block_tags'].items():
        add('block tag ' + v, r'%s = (0x[0-9A-Fa-f]+)' % v, want, lambda m: _int(m.group(1)))
    add('counter endianness', r'u32\.as_(big|little)_endian', 'big')
    for name, got, want in checks:
        rep.ob('R06.doc', got == want, 'R06.doc|FORMAT.md|%s' % name, 'FORMAT.md says %r, table says %r' % (got, want) if got == want else
               'FORMAT.md of the current tree says %s = %r but the format table (and the code, by R06.1) has %r' % (name, got, want), 'FORMAT.md')
    return {'doc_values_extracted': len(checks)}


def scan_readme(rep, verif, repo):
    T = json.load(open(os.path.join(verif, 'engine', 'tables', 'keyalgo.json')))
    p = os.path.join(repo, 'README.md')
    if not os.path.exists(p):
        rep.note('README.md not found: documentation cross-reference skipped')
        return {'doc_values_extracted': 0}
    s = open(p).read()
    checks = []
    m = re.search(r'prng_seed = (SHA\d+)\(bytes\)\[(\d+)\.\.(\d+)\]', s)
    if m:
        checks.append(('keygen hash', m.group(1).upper(), T['keygen']['hash'].upper()))
        checks.append(('keygen range', [int(m.group(2)), int(m.group(3))], T['keygen']['range']))
    m = re.search(r'HKDF-(SHA\d+)\(salt="([^"]+)"', s)
    if m:
        checks.append(('derive hash', m.group(1).upper(), T['derive']['hash'].upper()))
        checks.append(('derive salt', m.group(2), T['derive']['salt']))
    m = re.search(r'ChaCha-(\d+)\s*rounds', s)
    if m:
        checks.append(('prng rounds', 'rand_chacha::ChaCha%sRng' % m.group(1), T['keygen']['prng']))
    for name, got, want in checks:
        rep.ob('R19.doc', got == want, 'R19.doc|README.md|%s' % name, 'README says %r' % (got,) if got == want else
               'README.md of the current tree says %s = %r but the key-algorithm table (and the code) has %r' % (name, got, want), 'README.md')
    return {'doc_values_extracted': len(checks)}
