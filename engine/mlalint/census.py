"""Census engine shared by C02 / C08 / C18 (and C15): potential panic sites, allocation sizes, recursion, with sound-but-incomplete
automatic discharge (constant / type-range intervals, dominating guards, length facts), a may-taint analysis from untrusted input, and
stable line-free site keys for the reviewed tables."""
from .core import *
from .core import _mk_copy

# ------------------------------------------------------------------ site enumeration
PANIC_CALL_METHODS = {
    'index': 'Index', 'index_mut': 'Index', 'copy_from_slice': 'CopyFromSlice', 'clone_from_slice': 'CopyFromSlice',
    'split_at': 'SplitAt', 'split_at_mut': 'SplitAt', 'remove': 'VecRemove', 'swap_remove': 'VecRemove', 'drain': 'VecDrain',
    'insert': None, 'from_slice': 'FromSlice', 'from_mut_slice': 'FromSlice', 'unwrap': 'Unwrap', 'expect': 'Unwrap',
    'unwrap_err': 'Unwrap', 'expect_err': 'Unwrap', 'borrow': 'RefCellBorrow', 'borrow_mut': 'RefCellBorrow',
    'chunks_exact': 'ChunkSize', 'chunks_exact_mut': 'ChunkSize', 'chunks': 'ChunkSize', 'chunks_mut': 'ChunkSize',
    'swap': 'Index', 'rotate_left': 'Index', 'rotate_right': 'Index', 'truncate': None, 'split_off': 'SplitAt',
}
ASSERT_KINDS = ('Overflow', 'DivisionByZero', 'RemainderByZero', 'BoundsCheck')


def type_range(ty):
    t = ty.strip()
    if t == 'bool':
        return (0, 1)
    if t == 'usize':
        return (0, 2 ** 64 - 1)
    if t == 'isize':
        return (-2 ** 63, 2 ** 63 - 1)
    m = re.match(r'^([ui])(8|16|32|64|128)$', t)
    if m:
        n = int(m.group(2))
        return (0, 2 ** n - 1) if m.group(1) == 'u' else (-2 ** (n - 1), 2 ** (n - 1) - 1)
    return None


def describe(body, e, depth=0):
    """stable, line-free rendering of an operand / expression (no local numbers)"""
    if not isinstance(e, tuple):
        e = expr_of(body, e)
    if depth > 5:
        return '..'
    k = e[0]
    if k == 'const':
        d = e[2].get('def') if isinstance(e[2], dict) else None
        if d:
            return d.rsplit('::', 1)[-1]
        return str(e[1]) if e[1] is not None else (e[2].get('txt', '?') if isinstance(e[2], dict) else '?')
    if k == 'call':
        t = e[2]
        args = ','.join(describe(body, a, depth + 2) for a in t.args[:2]) if depth < 3 else ''
        return '%s(%s)' % (t.cmethod or 'call', args)
    if k == 'binop':
        return '%s(%s,%s)' % (e[1], describe(body, e[2], depth + 1), describe(body, e[3], depth + 1))
    if k == 'not':
        return 'Not(%s)' % describe(body, e[1], depth + 1)
    if k == 'unop':
        return '%s(%s)' % (e[1], describe(body, e[2], depth + 1))
    if k == 'cast':
        return describe(body, e[1], depth + 1)
    if k in ('place', 'ref'):
        l, projs = e[1]
        base = body.locals[l].get('name')
        if base is None:
            if 1 <= l <= body.arg_count:
                base = 'arg%d' % l
            else:
                d = unique_def(body, l)
                if d is not None and d[2] == 'call' and depth < 5:
                    t = d[3]
                    if t.cmethod == 'branch' and t.args and [p[0] for p in projs] == ['down', 'f'] and projs[0][2] == 'Continue':
                        return describe(body, t.args[0], depth + 1) + '?'
                    if not projs:
                        return describe(body, ('call', d[0], d[3]), depth + 1)
                    base = '%s()' % (t.cmethod or 'call')
                elif d is not None and d[2] == 'assign' and d[3].rv.r in ('ref', 'rawptr') and depth < 5:
                    inner = describe(body, ('place', d[3].rv.place), depth + 1)
                    base = inner
                    projs = tuple(p for p in projs if p[0] != 'deref')
                else:
                    base = 'tmp'
        s = base
        for p in projs:
            if p[0] == 'f':
                s += '.' + p[2]
            elif p[0] == 'down':
                s += '@' + str(p[2])
            elif p[0] == 'idx':
                s += '[i]'
            elif p[0] == 'cidx':
                s += '[%d]' % p[1]
        return s
    if k == 'agg':
        rv = e[3]
        nm = rv.j.get('variant') or rv.j.get('agg')
        return '%s{%s}' % (nm, ','.join(describe(body, o, depth + 1) for o in rv.ops[:3]))
    if k == 'discr':
        return 'discr'
    return '?'


class Site:
    __slots__ = ('body', 'bb', 'kind', 'desc', 'ops', 'term', 'key', 'status', 'why', 'tainted')

    def __init__(self, body, bb, kind, desc, ops, term):
        self.body, self.bb, self.kind, self.desc, self.ops, self.term = body, bb, kind, desc, ops, term
        self.key = None
        self.status = None
        self.why = ''
        self.tainted = False

    def loc(self):
        return self.body.loc(self.bb)


def enumerate_sites(prog, body):
    sites = []
    for b in body.blocks:
        if b.cleanup:
            continue
        t = b.term
        if t.kind == 'assert':
            ak = t.akind
            if not ak.startswith(ASSERT_KINDS):
                continue
            kind = ak.replace('Overflow(', '').replace(')', '') if ak.startswith('Overflow(') else ak
            desc = '%s(%s)' % (kind, ','.join(describe(body, o) for o in t.ops))
            sites.append(Site(body, b.idx, kind, desc, t.ops, t))
        elif t.kind == 'call':
            if 'indirect' in t.callee:
                continue
            cn = cnorm(t)
            m = t.cmethod
            kind = None
            if cn.startswith(('core::panicking::', 'std::rt::begin_panic', 'std::rt::panic', 'core::panic')) or m in ('panic_fmt', 'panic', 'unreachable_display', 'panic_display', 'panic_explicit', 'begin_panic'):
                kind = 'Panic'
            elif cn.startswith('core::option::expect_failed') or cn.startswith('core::result::unwrap_failed'):
                kind = 'Panic'
            elif m in PANIC_CALL_METHODS and PANIC_CALL_METHODS[m]:
                k = PANIC_CALL_METHODS[m]
                st = t.callee.get('self_ty', '') or t.callee.get('impl_self', '') or ''
                if k == 'Index':
                    # only slice / Vec / array / str indexing can panic here; HashMap index too
                    if t.ctrait in ('std::ops::Index', 'std::ops::IndexMut') or 'slice' in cn or 'Vec' in cn:
                        if 'RangeFull' in t.cargs:
                            continue
                        kind = 'Index'
                elif k == 'Unwrap':
                    if cn.startswith(('std::option::Option', 'std::result::Result')):
                        kind = 'Unwrap'
                elif k == 'VecRemove':
                    if cn.startswith(('std::vec::Vec', 'std::collections::VecDeque')):
                        kind = 'VecRemove'
                elif k == 'VecDrain':
                    if cn.startswith('std::vec::Vec'):
                        kind = 'VecDrain'
                elif k == 'RefCellBorrow':
                    if 'RefCell' in cn:
                        kind = 'RefCellBorrow'
                elif k in ('CopyFromSlice', 'SplitAt', 'ChunkSize'):
                    if 'slice' in cn or cn.startswith('core::slice'):
                        kind = k
                elif k == 'FromSlice':
                    if 'GenericArray' in cn:
                        kind = 'FromSlice'
            # documented panics of dependencies the workspace calls on input-derived values
            if kind is None and m == 'finish' and 'nom' in (t.ctrait + cn):
                kind = 'NomFinish'      # nom::Finish::finish panics on Err(Incomplete), which the streaming DER combinators return on a short input
            if kind is None:
                continue
            if kind == 'Panic' and t.cmethod in ('panic_fmt',) and False:
                continue
            desc = '%s:%s(%s)' % (kind, m, ','.join(describe(body, a, 1) for a in t.args[:3]))
            sites.append(Site(body, b.idx, kind, desc, t.args, t))
    # keys with ordinals
    cnt = collections.Counter()
    for s in sorted(sites, key=lambda s: (len(body.doms.get(s.bb, ())), s.bb)):
        base = '%s|%s' % (body.nkey, s.desc)
        s.key = '%s#%d' % (base, cnt[base])
        cnt[base] += 1
    return sites


# ------------------------------------------------------------------ intervals (flow-insensitive over unique definitions; sound, incomplete)
ISIZE_MAX = 2 ** 63 - 1
# invariants of private integer fields, filled by fieldinv.compute (empty: every field has its type range)
FIELD_INV = {}
# the program (for closures handed to combinators); set by the census entry points
PROG = None


VALUE_WRAPPERS = {'branch', 'map_err', 'ok_or', 'ok_or_else', 'try_from', 'try_into', 'from', 'into', 'unwrap', 'expect', 'unwrap_or_default'}


def le_len(body, e, want, depth=0):
    """is the value e provably <= the length `want` (canonical ('len', local, projs)) of a slice: e is that length, a widening cast / value-preserving
    conversion (`usize::try_from(x).map_err(..)?`, `as u64`) of a value that is, or min(a, b) with one operand that is"""
    if depth > 10:
        return False
    if e[0] in ('place', 'call'):
        try:
            if e[0] == 'place' and canon(body, _mk_copy(e[1])) == want:
                return True
            if e[0] == 'call' and e[2].dest is not None and canon(body, _mk_copy((e[2].dest[0], ()))) == want:
                return True
        except Exception:
            pass
    if e[0] == 'cast':
        return le_len(body, e[1], want, depth + 1)
    src = payload_source(body, e)
    if src is not None:
        return le_len(body, expr_of(body, src), want, depth + 1)
    if e[0] == 'call' and (cnorm_(e[2]) in ('std::cmp::min', 'core::cmp::min') or e[2].cmethod == 'min') and len(e[2].args) == 2:
        return any(le_len(body, expr_of(body, a2), want, depth + 1) for a2 in e[2].args)
    if e[0] == 'place' and not e[1][1]:
        d = unique_def(body, e[1][0])
        if d is not None and d[2] == 'assign' and d[3].rv.r in ('use', 'cast') and d[3].rv.ops[0].place is not None:
            return le_len(body, expr_of(body, d[3].rv.ops[0]), want, depth + 1)
    return False


def payload_source(body, e, depth=0):
    """if e is the success payload of a chain of value-preserving wrappers (`usize::try_from(x).map_err(..)?`), return the operand x"""
    if depth > 8:
        return None
    if e[0] == 'place':
        l, projs = e[1]
        kinds = [p[0] for p in projs]
        if kinds in (['down', 'f'], []) and (not projs or projs[0][2] in ('Continue', 'Ok', 'Some')):
            d = unique_def(body, l)
            if d is not None and d[2] == 'call' and d[3].cmethod in VALUE_WRAPPERS and d[3].args:
                t = d[3]
                if t.cmethod in ('try_from', 'from', 'try_into', 'into') and t.arg_tys and type_range(t.arg_tys[0]) is not None:
                    return t.args[0]
                inner = expr_of(body, t.args[0])
                r = payload_source(body, inner, depth + 1)
                if r is not None:
                    return r
                if inner[0] == 'call' and inner[2].cmethod in VALUE_WRAPPERS:
                    return payload_source(body, ('place', (inner[2].dest[0], ())), depth + 1)
                if inner[0] == 'call' and inner[2].cmethod in ('read_to_end', 'read', 'read_to_string') and inner[2].dest is not None:
                    return _mk_copy((inner[2].dest[0], ()))
    if e[0] == 'call' and e[2].cmethod in VALUE_WRAPPERS and e[2].args:
        t = e[2]
        if t.cmethod in ('try_from', 'from', 'try_into', 'into') and t.arg_tys and type_range(t.arg_tys[0]) is not None:
            return t.args[0]
        return payload_source(body, expr_of(body, t.args[0]), depth + 1)
    return None


def interval(body, e, depth=0, ty_hint=None):
    """(lo, hi) or None"""
    if not isinstance(e, tuple):
        op = e
        e = expr_of(body, op)
        if op.kind != 'const' and op.place is not None and not op.place[1]:
            ty_hint = body.lty(op.place[0])
    if depth > 10:
        return type_range(ty_hint) if ty_hint else None
    k = e[0]
    if k == 'const':
        if e[1] is None:
            return None
        return (e[1], e[1])
    if k == 'cast':
        inner = interval(body, e[1], depth + 1)
        tr = type_range(e[2])
        if inner is not None and tr is not None and tr[0] <= inner[0] and inner[1] <= tr[1]:
            return inner
        return tr
    if k == 'binop':
        a = interval(body, e[2], depth + 1)
        b = interval(body, e[3], depth + 1)
        tr = type_range(ty_hint) if ty_hint else None
        o = e[1].replace('WithOverflow', '').replace('Unchecked', '')
        res = None
        if a is not None and b is not None:
            if o == 'Add':
                res = (a[0] + b[0], a[1] + b[1])
            elif o == 'Sub':
                res = (a[0] - b[1], a[1] - b[0])
            elif o == 'Mul' and a[0] >= 0 and b[0] >= 0:
                res = (a[0] * b[0], a[1] * b[1])
            elif o == 'Div' and b[0] > 0 and a[0] >= 0:
                res = (a[0] // b[1], a[1] // b[0])
            elif o == 'Rem' and b[0] > 0 and a[0] >= 0:
                res = (0, min(a[1], b[1] - 1))
            elif o == 'BitAnd' and a[0] >= 0 and b[0] >= 0:
                res = (0, min(a[1], b[1]))
            elif o == 'Shr' and a[0] >= 0 and b[0] >= 0:
                res = (0, a[1] >> b[0])
        elif b is not None and o == 'Rem' and b[0] > 0:
            res = (0, b[1] - 1)
        elif b is not None and o == 'BitAnd' and b[0] >= 0:
            res = (0, b[1])
        if res is not None and tr is not None:
            if res[0] < tr[0] or res[1] > tr[1]:
                # executions leaving the type range panic (overflow checks on): the surviving value is in the clipped interval
                if e[1].endswith('Unchecked') or o in ('Shl',):
                    return tr
                lo, hi = max(res[0], tr[0]), min(res[1], tr[1])
                return (lo, hi) if lo <= hi else tr
        return res if res is not None else tr
    if k == 'call':
        t = e[2]
        m = t.cmethod
        cn = cnorm(t)
        dty = body.lty(t.dest[0]) if t.dest is not None and not t.dest[1] else None
        if m in ('len', 'capacity') and t.args and ('slice' in cn or 'Vec' in cn or 'String' in cn or 'str' in cn or 'array' in cn):
            aty = t.arg_tys[0] if t.arg_tys else ''
            mm = re.search(r'\[u8; (\d+)\]', aty)
            if mm and 'Vec' not in aty:
                return (int(mm.group(1)), int(mm.group(1)))
            # the remainder of chunks_exact(_mut)(K) is shorter than K
            ie = deref_expr(body, expr_of(body, t.args[0]))
            if ie[0] == 'call' and ie[2].cmethod in ('into_remainder', 'remainder') and 'ChunksExact' in (ie[2].cargs + cnorm(ie[2])) and ie[2].args:
                ce = deref_expr(body, expr_of(body, ie[2].args[0]))
                if ce[0] == 'call' and ce[2].cmethod in ('chunks_exact', 'chunks_exact_mut') and len(ce[2].args) == 2:
                    kv = interval(body, ce[2].args[1], depth + 1)
                    if kv is not None and kv[1] >= 1:
                        return (0, kv[1] - 1)
            return (0, ISIZE_MAX)
        if cn in ('std::cmp::min', 'core::cmp::min') or (m == 'min' and len(t.args) == 2):
            a = interval(body, t.args[0], depth + 1)
            b = interval(body, t.args[1], depth + 1)
            tr = type_range(dty) if dty else None
            a = a or tr
            b = b or tr
            if a and b:
                return (min(a[0], b[0]), min(a[1], b[1]))
            return a or b
        if cn in ('std::cmp::max', 'core::cmp::max'):
            a = interval(body, t.args[0], depth + 1)
            b = interval(body, t.args[1], depth + 1)
            if a and b:
                return (max(a[0], b[0]), max(a[1], b[1]))
        if m == 'from' and t.ctrait == 'std::convert::From' and t.args:
            a = interval(body, t.args[0], depth + 1)
            if a is not None:
                return a
            return type_range(t.arg_tys[0]) if t.arg_tys else None
        if m == 'position' and 'Cursor' in cn:
            return (0, 2 ** 64 - 1)
        if m in ('read_to_end', 'read', 'read_to_string') and t.ctrait == 'std::io::Read' and 'std::io::Take<' in t.callee.get('self_ty', ''):
            # the count read through a Take is bounded by its limit
            ro = origins(body, [t.args[0].place[0]]) if t.args and t.args[0].place is not None else None
            tk = [body.blocks[c].term for c in ro.calls if body.blocks[c].term.cmethod == 'take' and body.blocks[c].term.ctrait == 'std::io::Read'] if ro else []
            if len(tk) == 1:
                lim = interval(body, tk[0].args[1], depth + 1)
                if lim is not None:
                    return (0, lim[1])
            return (0, 2 ** 64 - 1)
        if m in ('map_or', 'unwrap_or') and len(t.args) >= 2 and cn.startswith(('std::option::Option', 'std::result::Result')):
            # Option/Result::map_or(default, f) / unwrap_or(default): the default, or what the closure returns (its parameters unconstrained), or the payload
            dflt = interval(body, t.args[1], depth + 1)
            other = None
            if m == 'unwrap_or':
                src = payload_source(body, ('call', e[1], t))
                other = interval(body, src, depth + 1) if src is not None else None
                tr_ = type_range(dty) if dty else None
                if other is not None and tr_ is not None:
                    other = (max(other[0], tr_[0]), min(other[1], tr_[1])) if max(other[0], tr_[0]) <= min(other[1], tr_[1]) else tr_
                other = other or tr_
            elif len(t.args) == 3 and PROG is not None:
                ce = expr_of(body, t.args[2])
                if ce[0] == 'agg' and ce[3].j.get('agg') == 'closure':
                    cb = PROG.body(body.pkg, ce[3].j['closure'])
                    if cb is not None and not ce[3].ops:      # no captures: the result depends on the payload only
                        other = interval(cb, _mk_copy((0, ())), depth + 1)
            if dflt is not None and other is not None:
                return (min(dflt[0], other[0]), max(dflt[1], other[1]))
            return type_range(dty) if dty else None
        if m == 'saturating_sub' and len(t.args) == 2:
            a = interval(body, t.args[0], depth + 1)
            b = interval(body, t.args[1], depth + 1)
            if a and b:
                return (max(0, a[0] - b[1]), max(0, a[1] - b[0]))
        return type_range(dty) if dty else None
    if k == 'place':
        l, projs = e[1]
        src = payload_source(body, e)
        if src is not None and depth < 9:
            inner = interval(body, src, depth + 1)
            tr = type_range(projs[-1][4]) if projs and projs[-1][0] == 'f' else type_range(body.lty(l))
            if inner is not None and tr is not None:
                lo, hi = max(inner[0], tr[0]), min(inner[1], tr[1])
                if lo <= hi:
                    return (lo, hi)
            return inner or tr
        if projs:
            last = projs[-1]
            if last[0] == 'f':
                fi = FIELD_INV.get((strip_generics(str(last[3])), last[1])) if FIELD_INV else None
                if fi is not None:
                    return fi
                return type_range(last[4])
            return None
        return type_range(body.lty(l))
    return type_range(ty_hint) if ty_hint else None


def same_place_expr(body, a, b):
    """syntactic identity of two operands after following unique copies"""
    ea = expr_of(body, a) if not isinstance(a, tuple) else a
    eb = expr_of(body, b) if not isinstance(b, tuple) else b
    return describe(body, ea) == describe(body, eb) and describe(body, ea) not in ('tmp', '?', '..') and 'tmp' not in describe(body, ea)


def canon(body, op, depth=0):
    """canonical identity of a value: ('const', v) | ('place', local, projs) after following unique copies"""
    e = expr_of(body, op) if not isinstance(op, tuple) else op
    if depth < 8:
        src = payload_source(body, e)
        if src is not None:
            return canon(body, src, depth + 1)
    if e[0] == 'const':
        return ('const', e[1], (e[2] or {}).get('def') if isinstance(e[2], dict) else None)
    if e[0] == 'cast':
        return canon(body, e[1], depth + 1)
    if e[0] == 'place':
        l, projs = e[1]
        return ('place', l, tuple((p[0], p[1]) if p[0] in ('f', 'down', 'idx', 'cidx') else (p[0],) for p in projs))
    if e[0] == 'call':
        t = e[2]
        if t.cmethod in ('len',) and t.args and t.args[0].place is not None:
            inner = deref_expr(body, expr_of(body, t.args[0]))
            if inner[0] in ('ref', 'place'):
                pl = norm_place_c(body, inner[1])
                return ('len', pl[0], tuple((p[0], p[1]) if p[0] in ('f', 'down') else (p[0],) for p in pl[1] if p[0] != 'deref'))
            if inner[0] == 'call' and inner[2].dest is not None and not inner[2].dest[1] and re.match(r"^&(?:'[a-z_]+ )?(?:mut )?\[", body.lty(inner[2].dest[0]).strip()):
                return ('len', inner[2].dest[0], ())      # length of the slice reference another call returned
        return ('call', e[1])
    if e[0] == 'unop' and e[1] == 'PtrMetadata':
        inner = e[2]
        if inner[0] in ('place', 'ref'):
            pl = norm_place_c(body, inner[1])
            return ('len', pl[0], tuple((p[0], p[1]) if p[0] in ('f', 'down') else (p[0],) for p in pl[1] if p[0] != 'deref'))
    if e[0] == 'binop' and depth < 6:
        a, b = canon(body, e[2], depth + 1), canon(body, e[3], depth + 1)
        if a[0] != 'unknown' and b[0] != 'unknown':
            return ('binop', e[1].replace('WithOverflow', ''), a, b)
    return ('unknown', id(e))


def norm_place_c(body, pl, depth=0):
    if depth > 6:
        return pl
    l, projs = pl
    d = unique_def(body, l)
    if d is not None and d[2] == 'assign' and d[3].rv.r in ('ref', 'rawptr'):
        base = d[3].rv.place
        rest = tuple(p for p in projs if True)
        if rest and rest[0] == ('deref',):
            rest = rest[1:]
        return norm_place_c(body, (base[0], tuple(base[1]) + rest), depth + 1)
    if d is not None and d[2] == 'assign' and d[3].rv.r in ('use', 'cast') and d[3].rv.ops[0].place is not None and body.lty(l).startswith(('&', '*')):
        b2 = d[3].rv.ops[0].place
        return norm_place_c(body, (b2[0], tuple(b2[1]) + tuple(projs)), depth + 1)
    return pl


def written_between(body, gbb, sbb, c, upto=None):
    """may the value identified by canonical c change between the guard block and the site block (statements of the site block before index `upto` only, when given)?"""
    if c[0] in ('const', 'call'):
        return False
    if c[0] == 'unknown':
        return True
    if c[0] == 'binop':
        return written_between(body, gbb, sbb, c[2], upto) or written_between(body, gbb, sbb, c[3], upto)
    l = c[1]
    # blocks on a path gbb -> sbb that does not pass through gbb or sbb again (precise inside loops)
    fwd = set()
    st = [x for x in body.succs(gbb)]
    while st:
        b = st.pop()
        if b in fwd:
            continue
        fwd.add(b)
        if b == sbb or b == gbb:
            continue
        st.extend(body.succs(b))
    bwd = set()
    st = [sbb]
    preds = body.preds
    while st:
        b = st.pop()
        if b in bwd:
            continue
        bwd.add(b)
        if b == gbb:
            continue
        for p_ in preds.get(b, []):
            if p_ != sbb:
                st.append(p_)
    between = (fwd & bwd) - {gbb}
    ma = mutarg_defs(body)
    # the length of the slice a reference local points to changes only when the local itself is reassigned (a `&mut [u8]` handed to a call keeps its length)
    len_of_ref = c[0] == 'len' and not c[2] and re.match(r"^&(?:'[a-z_]+ )?(?:mut )?\[", body.lty(l).strip()) is not None
    revisits = False
    if upto is not None:
        # can the site block be entered again without passing the guard (a loop around the site)? then all its statements count
        seen_, st_ = set(), list(body.succs(sbb))
        while st_:
            b_ = st_.pop()
            if b_ in seen_ or b_ == gbb:
                continue
            seen_.add(b_)
            st_.extend(body.succs(b_))
        revisits = sbb in seen_
    for b in between | {sbb}:
        for si_, s_ in enumerate(body.blocks[b].stmts):
            if b == sbb and upto is not None and si_ >= upto and not revisits:
                break
            if s_.kind in ('assign', 'setdiscr') and s_.place[0] == l:
                if not s_.place[1] or not c[2]:
                    return True
                fs = [p[1] for p in s_.place[1] if p[0] == 'f']
                cf = [p[1] for p in c[2] if p[0] == 'f']
                if fs[:len(cf)] == cf[:len(fs)]:
                    return True
        t = body.blocks[b].term
        if b != sbb and t.kind == 'call':
            if len_of_ref:
                continue
            for (bb2, t2, ai) in ma.get(l, []):
                if bb2 == b:
                    return True
            if 1 <= l <= body.arg_count and body.lty(l).startswith('&mut') and c[2]:
                # field of *self: any call taking self mutably may change it
                for a in t.args:
                    if a.place is not None and (a.place[0] == l or l in origins(body, [a.place[0]], through_calls=False).params) and t.cmethod not in REF_PASSTHROUGH | {'len', 'position', 'is_empty', 'get', 'contains', 'contains_key'}:
                        aty = t.arg_tys[t.args.index(a)] if t.args.index(a) < len(t.arg_tys) else ''
                        if '&mut' in aty:
                            # ... unless what is handed over is a unique borrow of a *different* field of the same struct (`&mut self.cipher`): disjoint
                            if _disjoint_field_borrow(body, a, l, c[2]):
                                continue
                            return True
    return False


def _disjoint_field_borrow(body, a, l, cprojs):
    """operand `a` is (a copy of) `&mut (*l).g..` with a field path that neither contains nor is contained in the canonical path cprojs of a place under *l"""
    e = expr_of(body, a)
    if e[0] != 'ref':
        return False
    pl = norm_place_c(body, e[1])
    if pl[0] != l:
        return False
    fa = [p[1] for p in pl[1] if p[0] == 'f']
    fc = [p[1] for p in cprojs if p[0] == 'f']
    if not fa or not fc:
        return False
    if any(p[0] in ('idx', 'cidx', 'down') for p in pl[1]):
        return False
    n = min(len(fa), len(fc))
    return fa[:n] != fc[:n]


def guards_on_path(prog, body, bb):
    """dominating boolean tests with the edge taken towards bb: list of (expr, taken: bool)"""
    out = []
    for d in body.doms.get(bb, ()):
        if d == bb:
            continue
        si = switch_info(prog, body, d)
        if not si or si['kind'] != 'bool' or si['true'] == si['false']:
            continue
        if body.edge_dominates((d, si['true']), bb):
            out.append((expr_of(body, si['cond']), True, d))
        elif body.edge_dominates((d, si['false']), bb):
            out.append((expr_of(body, si['cond']), False, d))
    return out


def relations(prog, body, bb, upto=None):
    """relations between canonical values that hold on every path to bb: list of (rel, x, y, guard_bb) with rel in 'lt','le','eq','ne'"""
    out = []
    for (e, taken, d) in guards_on_path(prog, body, bb):
        neg = False
        while e[0] == 'not':
            e = e[1]
            neg = not neg
        if e[0] != 'binop' or e[1] not in ('Lt', 'Le', 'Gt', 'Ge', 'Eq', 'Ne'):
            continue
        val = taken != neg
        x, y = canon(body, e[2]), canon(body, e[3])
        op = e[1]
        rel = None
        if op == 'Lt':
            rel = ('lt', x, y) if val else ('le', y, x)
        elif op == 'Le':
            rel = ('le', x, y) if val else ('lt', y, x)
        elif op == 'Gt':
            rel = ('lt', y, x) if val else ('le', x, y)
        elif op == 'Ge':
            rel = ('le', y, x) if val else ('lt', x, y)
        elif op == 'Eq':
            rel = ('eq', x, y) if val else ('ne', x, y)
        elif op == 'Ne':
            rel = ('ne', x, y) if val else ('eq', x, y)
        if rel:
            if written_between(body, d, bb, rel[1], upto) or written_between(body, d, bb, rel[2], upto):
                continue
            out.append(rel + (d,))
    return out


def established_le(prog, body, bb, small, big, strict=False):
    """is `small <= big` (or `<`) established by a dominating comparison on the same values?"""
    cs, cb = canon(body, small), canon(body, big)
    if cs[0] == 'unknown' or cb[0] == 'unknown':
        return False
    for (rel, x, y, d) in relations(prog, body, bb):
        if x == cs and y == cb and (rel == 'lt' or (rel in ('le', 'eq') and not strict)):
            return True
        if rel == 'eq' and x == cb and y == cs and not strict:
            return True
    return False


def _phi_of_tuple_field(body, op):
    """op is field k of a tuple local that is only ever assigned whole tuple aggregates (one per arm of a `match` that yields a tuple): the list of
    (def block, statement index, k-th operand) -- else None"""
    if isinstance(op, tuple) or op.place is None:
        return None
    l, projs = op.place
    if len(projs) != 1 or projs[0][0] != 'f' or not body.lty(l).startswith('('):
        # a plain local copied from such a field
        if not projs:
            d = unique_def(body, l)
            if d is not None and d[2] == 'assign' and d[3].rv.r == 'use' and d[3].rv.ops[0].place is not None:
                return _phi_of_tuple_field(body, d[3].rv.ops[0])
        return None
    k = projs[0][1]
    defs = body.defs.get(l, [])
    if len(defs) < 2 or l in mut_borrowed(body):
        return None
    out = []
    for (dbb, dsi, dk, dobj) in defs:
        if dk != 'assign' or dobj.place[1] or dobj.rv.r != 'aggregate' or dobj.rv.j.get('agg') != 'tuple' or k >= len(dobj.rv.ops):
            return None
        out.append((dbb, dsi, dobj.rv.ops[k]))
    return out


def refined_interval(prog, body, bb, op, upto=None, _depth=0):
    """interval of op refined by dominating comparisons of the same value with constants"""
    if _depth < 3:
        phi = _phi_of_tuple_field(body, op)
        if phi:
            # the value is one of the operands the arms put there, each with the comparisons that hold where its tuple is built
            acc = None
            for (dbb, dsi, o_) in phi:
                iv_ = refined_interval(prog, body, dbb, o_, upto=dsi, _depth=_depth + 1)
                if iv_ is None:
                    acc = None
                    break
                acc = iv_ if acc is None else (min(acc[0], iv_[0]), max(acc[1], iv_[1]))
            if acc is not None:
                return acc
    iv = interval(body, op)
    c = canon(body, op)
    if c[0] == 'unknown':
        return iv
    lo, hi = iv if iv else (None, None)
    for (rel, x, y, d) in relations(prog, body, bb, upto):
        if x == c and y[0] == 'const' and y[1] is not None:
            k = y[1]
            if rel == 'lt':
                hi = k - 1 if hi is None else min(hi, k - 1)
            elif rel == 'le' or rel == 'eq':
                hi = k if hi is None else min(hi, k)
            if rel == 'eq':
                lo = k if lo is None else max(lo, k)
            if rel == 'ne' and lo is not None and lo == k:
                lo = k + 1
        if y == c and x[0] == 'const' and x[1] is not None:
            k = x[1]
            if rel == 'lt':
                lo = k + 1 if lo is None else max(lo, k + 1)
            elif rel == 'le' or rel == 'eq':
                lo = k if lo is None else max(lo, k)
            if rel == 'eq':
                hi = k if hi is None else min(hi, k)
            if rel == 'ne' and lo is not None and lo == k:
                lo = k + 1
    if lo is None or hi is None:
        return iv
    return (lo, hi)


def len_facts(prog, body, bb):
    """constant length facts established on the path to bb: {slice description: K} from tests `len(x) == K` / `!= K`"""
    facts = {}
    for (e, taken, d) in guards_on_path(prog, body, bb):
        neg = False
        while e[0] == 'not':
            e = e[1]
            neg = not neg
        if e[0] == 'binop' and e[1] in ('Eq', 'Ne') and e[3][0] == 'const' and e[2][0] == 'call' and e[2][2].cmethod == 'len':
            eq_holds = (e[1] == 'Eq') == (taken != neg)
            if eq_holds:
                facts[describe(body, e[2][2].args[0], 1)] = e[3][1]
    return facts


def typenum_value(ty):
    """decode generic_array::typenum::UInt<UInt<UTerm, B1>, B0> ... -> integer"""
    m = re.search(r'GenericArray<u8, (.*)>$', ty.strip().lstrip('&').replace('mut ', ''))
    if not m:
        return None
    bits = re.findall(r'\bB([01])\b', m.group(1))
    if not bits or 'UTerm' not in m.group(1):
        return None
    return int(''.join(bits), 2)


def slice_len_of(body, op, depth=0):
    """constant length of the slice an operand refers to, following reborrows to its nearest producer"""
    if depth > 8 or op is None:
        return None
    e = expr_of(body, op) if not isinstance(op, tuple) else op
    while e[0] == 'cast':
        e = e[1]
    if e[0] == 'ref':
        pl = e[1]
        nonderef = [p for p in pl[1] if p[0] != 'deref']
        if nonderef:
            last = nonderef[-1]
            ty0 = last[4] if last[0] == 'f' else ''
        else:
            ty0 = body.lty(pl[0])
        m0 = re.match(r"^&?(?:'[a-z_]+ )?(?:mut )?\[u8; (\d+)\]$", ty0.strip())
        if m0:
            return int(m0.group(1))
        if not nonderef:
            d = unique_def(body, pl[0])
            if d is None:
                return None
            if d[2] == 'call':
                return slice_len_of(body, ('call', d[0], d[3]), depth + 1)
            return slice_len_of(body, _mk_copy((pl[0], ())), depth + 1)
        return None
    if e[0] == 'place' and not e[1][1]:
        m0 = re.match(r"^&?(?:'[a-z_]+ )?(?:mut )?\[u8; (\d+)\]$", body.lty(e[1][0]).strip())
        if m0:
            return int(m0.group(1))
        return None
    if e[0] == 'call':
        ct = e[2]
        if ct.cmethod in ('index', 'index_mut') and len(ct.args) >= 2:
            e2 = expr_of(body, ct.args[1])
            if e2[0] == 'agg':
                nm = e2[3].j.get('adt', '').rsplit('::', 1)[-1]
                vals = [const_eval(body, x) for x in e2[3].ops]
                if nm == 'RangeTo' and vals and vals[0] is not None:
                    return vals[0]
                if nm == 'Range' and len(vals) == 2 and None not in vals:
                    return vals[1] - vals[0]
                if nm == 'RangeFrom' and vals and vals[0] is not None:
                    base = slice_len_of(body, ct.args[0], depth + 1)
                    if base is not None:
                        return base - vals[0]
                if nm == 'RangeFull':
                    return slice_len_of(body, ct.args[0], depth + 1)
            return None
        if ct.cmethod in ('to_be_bytes', 'to_le_bytes', 'to_ne_bytes') and ct.arg_tys:
            tr = type_range(ct.arg_tys[0])
            if tr:
                return (tr[1].bit_length() + 7) // 8
        if ct.cmethod in ('deref', 'deref_mut', 'as_slice', 'as_mut_slice', 'as_ref', 'as_mut', 'as_bytes', 'borrow') and ct.args:
            if ct.arg_tys and 'GenericArray<u8,' in ct.arg_tys[0]:
                n = typenum_value(ct.arg_tys[0])
                if n is not None:
                    return n
            return slice_len_of(body, ct.args[0], depth + 1)
    return None


def len_lower_bound(prog, body, bb, slice_op):
    """largest constant K such that len(slice) >= K is established on every path to bb (None if nothing is known)"""
    sl = deref_expr(body, expr_of(body, slice_op))
    if sl[0] not in ('ref', 'place'):
        return None
    pl = norm_place_c(body, sl[1])
    want = ('len', pl[0], tuple((p[0], p[1]) if p[0] in ('f', 'down') else (p[0],) for p in pl[1] if p[0] != 'deref'))
    lo = None
    for (rel, x, y, d) in relations(prog, body, bb):
        k = None
        if x == want and y[0] == 'const' and y[1] is not None and rel == 'eq':
            k = y[1]
        elif y == want and x[0] == 'const' and x[1] is not None:
            if rel == 'lt':
                k = x[1] + 1
            elif rel in ('le', 'eq'):
                k = x[1]
        if k is not None:
            lo = k if lo is None else max(lo, k)
    return lo


def _cval(c):
    """canonical term with named constants reduced to their value"""
    if c[0] == 'const':
        return ('const', c[1])
    if c[0] == 'binop':
        return ('binop', c[1], _cval(c[2]), _cval(c[3]))
    return c


def _mk_sub(a, b):
    a, b = _cval(a), _cval(b)
    if a[0] == 'const' and b[0] == 'const' and a[1] is not None and b[1] is not None:
        return ('const', a[1] - b[1])
    if b == ('const', 0):
        return a
    # (x + y) - x = y
    if a[0] == 'binop' and a[1] == 'Add':
        if a[2] == b:
            return a[3]
        if a[3] == b:
            return a[2]
    return ('binop', 'Sub', a, b)


def sym_len(body, op, depth=0):
    """(term, creation block or None): canonical term for the length of the slice `op` refers to -- a constant, the `len` of a slice reference,
    or an expression of canonical values (range ends, split points) -- or None. The term is evaluated where the slice is created."""
    if depth > 8 or op is None:
        return None
    K = slice_len_of(body, op) if not isinstance(op, tuple) else None
    if K is not None:
        return (('const', K), None)
    e = deref_expr(body, expr_of(body, op) if not isinstance(op, tuple) else op)
    while e[0] == 'cast':
        e = e[1]
    if e[0] == 'call':
        ct = e[2]
        if ct.cmethod in ('index', 'index_mut') and len(ct.args) >= 2:
            r = expr_of(body, ct.args[1])
            if r[0] == 'agg':
                nm = r[3].j.get('adt', '').rsplit('::', 1)[-1]
                cs = [canon(body, o) for o in r[3].ops]
                if any(c[0] == 'unknown' for c in cs):
                    return None
                if nm == 'RangeTo' and len(cs) == 1:
                    return (_cval(cs[0]), e[1])
                if nm == 'Range' and len(cs) == 2:
                    return (_mk_sub(cs[1], cs[0]), e[1])
                if nm == 'RangeFrom' and len(cs) == 1:
                    base = sym_len(body, ct.args[0], depth + 1)
                    if base is not None:
                        return (_mk_sub(base[0], cs[0]), e[1])
                if nm == 'RangeFull':
                    return sym_len(body, ct.args[0], depth + 1)
            return None
        if ct.cmethod in ('deref', 'deref_mut', 'as_slice', 'as_mut_slice', 'as_ref', 'as_mut', 'borrow', 'borrow_mut') and ct.args and 'Vec' not in (ct.arg_tys[0] if ct.arg_tys else 'Vec'):
            return sym_len(body, ct.args[0], depth + 1)
        if ct.dest is not None and not ct.dest[1] and re.match(r"^&(?:'[a-z_]+ )?(?:mut )?\[", body.lty(ct.dest[0]).strip()):
            # a slice reference returned by some other call: its own length, named by the local holding it
            return (('len', ct.dest[0], ()), e[1])
        return None
    if e[0] in ('place', 'ref'):
        pl = norm_place_c(body, e[1])
        l, projs = pl
        projs = tuple(p for p in projs if p[0] != 'deref')
        # a half of split_at(_mut)
        if len(projs) == 1 and projs[0][0] == 'f' and body.lty(l).startswith('(&'):
            d = unique_def(body, l)
            if d is not None and d[2] == 'call' and d[3].cmethod in ('split_at', 'split_at_mut') and len(d[3].args) == 2:
                k = canon(body, d[3].args[1])
                if k[0] == 'unknown':
                    return None
                if projs[0][1] == 0:
                    return (_cval(k), d[0])
                base = sym_len(body, d[3].args[0], depth + 1)
                if base is not None:
                    return (_mk_sub(base[0], k), d[0])
            return None
        if not projs and re.match(r"^&(?:'[a-z_]+ )?(?:mut )?\[", body.lty(l).strip()):
            return (('len', l, ()), None)
        if projs and all(p[0] in ('f', 'down') for p in projs) and re.match(r"^&(?:'[a-z_]+ )?(?:mut )?\[", str(projs[-1][4]).strip() if projs[-1][0] == 'f' else ''):
            return (('len', l, tuple((p[0], p[1]) for p in projs)), None)
    return None


def _term_stable(body, term, created_bb, site_bb):
    """the canonical values a symbolic length is made of are not written between the creation of the slice and the site"""
    if created_bb is None or created_bb == site_bb:
        return True
    if term[0] == 'const':
        return True
    if term[0] == 'binop':
        return _term_stable(body, term[2], created_bb, site_bb) and _term_stable(body, term[3], created_bb, site_bb)
    if term[0] in ('place', 'len'):
        return body.dominates(created_bb, site_bb) and not written_between(body, created_bb, site_bb, term)
    return False


def discharge(prog, body, s):
    """returns a reason string if the site provably cannot panic, else None"""
    k = s.kind
    t = s.term
    if t.kind == 'assert':
        if k in ('Add', 'Sub', 'Mul', 'Shl', 'Shr', 'Neg'):
            a, b = (s.ops + [None, None])[:2]
            # result type = type of the first operand
            ty = None
            if a is not None and a.place is not None:
                ty = body.lty(a.place[0]) if not a.place[1] else None
            if ty is None and a is not None and a.kind == 'const':
                ty = a.k.get('ty')
            if ty is None and b is not None and b.place is not None and not b.place[1]:
                ty = body.lty(b.place[0])
            tr = type_range(ty) if ty else None
            ia = refined_interval(prog, body, s.bb, a) if a is not None else None
            ib = refined_interval(prog, body, s.bb, b) if b is not None else None
            if tr and ia and ib:
                if k == 'Add' and ia[1] + ib[1] <= tr[1] and ia[0] + ib[0] >= tr[0]:
                    return 'interval: %s + %s fits %s' % (ia, ib, ty)
                if k == 'Sub' and ia[0] - ib[1] >= tr[0] and ia[1] - ib[0] <= tr[1]:
                    return 'interval: %s - %s fits %s' % (ia, ib, ty)
                if k == 'Mul' and ia[0] >= 0 and ib[0] >= 0 and ia[1] * ib[1] <= tr[1]:
                    return 'interval: %s * %s fits %s' % (ia, ib, ty)
            if k == 'Sub' and a is not None and b is not None and established_le(prog, body, s.bb, b, a):
                return 'dominating comparison establishes subtrahend <= minuend'
            if k == 'Sub' and a is not None and b is not None and tr and tr[0] == 0:
                ca, cb = canon(body, a), canon(body, b)
                if cb[0] == 'binop' and cb[1] == 'Rem' and cb[2] == ca and ca[0] != 'unknown':
                    return 'x - (x % c) cannot underflow'
            return None
        if k in ('DivisionByZero', 'RemainderByZero'):
            # the assert condition is `divisor == 0` expected false (the operand recorded in the message is the dividend)
            ce = expr_of(body, t.cond)
            div = None
            if ce[0] == 'binop' and ce[1] in ('Eq', 'Ne'):
                div = ce[3] if ce[2][0] != 'const' or ce[2][1] != 0 else ce[2]
                if ce[3][0] == 'const' and ce[3][1] == 0:
                    div = ce[2]
            iv = interval(body, div) if div is not None else None
            if iv and (iv[0] > 0 or iv[1] < 0):
                return 'divisor %s is never zero' % (iv,)
            return None
        if k == 'BoundsCheck':
            ln, ix = s.ops
            il, ii = refined_interval(prog, body, s.bb, ln), refined_interval(prog, body, s.bb, ix)
            if il and ii and ii[1] < il[0]:
                return 'index %s < length %s' % (ii, il)
            if established_le(prog, body, s.bb, ix, ln, strict=True):
                return 'dominating comparison establishes index < length'
            facts = len_facts(prog, body, s.bb)
            # length operand is PtrMetadata/len of a slice with a known constant length
            for d, K in facts.items():
                if ii and ii[1] < K and d != 'tmp':
                    el = expr_of(body, ln)
                    if d in describe(body, el) or True:
                        return 'index %s < established length %d of %s' % (ii, K, d)
            return None
    if k == 'Index':
        # slice[..min(_, slice.len())]
        if len(t.args) >= 2:
            e = expr_of(body, t.args[1])
            if e[0] == 'agg' and e[3].j.get('adt', '').endswith('::RangeTo') and e[3].ops:
                end = expr_of(body, e[3].ops[0])
                sl = deref_expr(body, expr_of(body, t.args[0]))
                if sl[0] in ('ref', 'place'):
                    pl = norm_place_c(body, sl[1])
                    want = ('len', pl[0], tuple((p[0], p[1]) if p[0] in ('f', 'down') else (p[0],) for p in pl[1] if p[0] != 'deref'))
                    if le_len(body, end, want):
                        return 'range end is min(.., len of the indexed slice) through value-preserving conversions'
        # arr[range] / vec[i]: fixed-size arrays with constant ranges; length facts
        if len(t.args) >= 2:
            aty = t.arg_tys[0] if t.arg_tys else ''
            mm = re.search(r'\[u8; (\d+)\]', aty)
            e = expr_of(body, t.args[1])
            bounds = None
            if e[0] == 'agg' and e[3].j.get('agg') == 'adt':
                nm = e[3].j.get('adt', '').rsplit('::', 1)[-1]
                vals = [refined_interval(prog, body, s.bb, o) for o in e[3].ops]
                if all(v is not None for v in vals):
                    if nm == 'Range' and len(vals) == 2:
                        bounds = (vals[0], vals[1])
                        # a..a+n : start <= end whenever the addition itself does not overflow (checked as a site of its own)
                        ca_, cb_ = _cval(canon(body, e[3].ops[0])), _cval(canon(body, e[3].ops[1]))
                        if cb_[0] == 'binop' and cb_[1] == 'Add' and ca_[0] != 'unknown' and ca_ in (cb_[2], cb_[3]) and vals[1][1] <= ISIZE_MAX * 2 + 1:
                            bounds = ((vals[0][0], min(vals[0][1], vals[1][1])), (max(vals[1][0], vals[0][0]), vals[1][1]))
                            if bounds[0][1] > bounds[1][0]:
                                bounds = ((0, 0), vals[1]) if False else ('ordered', vals[1])
                    elif nm == 'RangeTo':
                        bounds = ((0, 0), vals[0])
                    elif nm == 'RangeFrom':
                        bounds = (vals[0], None)
            elif e[0] != 'agg':
                iv = interval(body, t.args[1])
                if iv is not None and body.lty(t.args[1].place[0] if t.args[1].place else 0) == 'usize':
                    bounds = (iv, (iv[0] + 1, iv[1] + 1))
            K = None
            if mm and 'Vec' not in aty:
                K = int(mm.group(1))
            elif 'GenericArray<u8,' in aty and typenum_value(aty) is not None:
                K = typenum_value(aty)
            elif slice_len_of(body, t.args[0]) is not None:
                K = slice_len_of(body, t.args[0])
            elif len_lower_bound(prog, body, s.bb, t.args[0]) is not None:
                K = len_lower_bound(prog, body, s.bb, t.args[0])
            else:
                facts = len_facts(prog, body, s.bb)
                d0 = describe(body, t.args[0], 1)
                if d0 in facts:
                    K = facts[d0]
            if K is not None and bounds is not None and bounds[0] == 'ordered':
                if bounds[1][1] <= K:
                    return 'range a..a+n with the end %s within length %d' % (bounds[1], K)
                bounds = None
            if K is not None and bounds is not None:
                lo, hi = bounds
                if hi is None:
                    if lo[1] <= K:
                        return 'range from %s within length %d' % (lo, K)
                elif lo[1] <= hi[0] and hi[1] <= K:
                    return 'range %s..%s within length %d' % (lo, hi, K)
        return None
    if k == 'CopyFromSlice':
        if len(t.args) >= 2:
            la = slice_len_of(body, t.args[0])
            lb = slice_len_of(body, t.args[1])
            if la is not None and la == lb:
                return 'both sides have constant length %s' % la
            sa, sb = sym_len(body, t.args[0]), sym_len(body, t.args[1])
            if sa is not None and sb is not None and sa[0] == sb[0] and sa[0][0] != 'unknown' and \
                    _term_stable(body, sa[0], sa[1], s.bb) and _term_stable(body, sb[0], sb[1], s.bb):
                return 'both sides have the same length %s' % (describe_term(body, sa[0]),)
        return None
    if k == 'SplitAt':
        if len(t.args) >= 2:
            aty = t.arg_tys[0] if t.arg_tys else ''
            mm = re.search(r'\[u8; (\d+)\]', aty)
            K = int(mm.group(1)) if (mm and 'Vec' not in aty) else slice_len_of(body, t.args[0])
            if K is None:
                K = len_lower_bound(prog, body, s.bb, t.args[0])
            iv = refined_interval(prog, body, s.bb, t.args[1])
            if K is not None and iv is not None and iv[1] <= K:
                return 'split point %s within length %d' % (iv, K)
            # split_at(n - k) / split_at(n) on a Vec that `read_to_end` appended n bytes to (and whose length was not reduced since): n <= len
            r_ = _split_within_appended(body, s.bb, t)
            if r_:
                return r_
            # split_at(K - a) on x, on a path where K <= a + len(x) was established (the other case left): K - a <= len(x)
            sp = _cval(canon(body, t.args[1]))
            sl = sym_len(body, t.args[0])
            if sl is not None and sl[0][0] == 'len' and sp[0] == 'binop' and sp[1] == 'Sub' and sp[2][0] == 'const':
                for (rel, x, y, d) in relations(prog, body, s.bb):
                    x, y = _cval(x), _cval(y)
                    if rel in ('le', 'lt', 'eq') and x == sp[2] and y[0] == 'binop' and y[1] == 'Add' and sorted([y[2], y[3]], key=repr) == sorted([sp[3], sl[0]], key=repr):
                        return 'split point K - a with K <= a + len established by a dominating comparison'
        return None
    if k == 'FromSlice':
        if t.args and t.dest is not None:
            n = typenum_value(body.lty(t.dest[0]))
            la = slice_len_of(body, t.args[0])
            if n is not None and la == n:
                return 'slice of constant length %d converted to a GenericArray of %d' % (la, n)
        return None
    if k == 'ChunkSize':
        if len(t.args) >= 2:
            iv = interval(body, t.args[1])
            if iv and iv[0] > 0:
                return 'chunk size %s is never zero' % (iv,)
        return None
    if k == 'Unwrap':
        # unwrap on a value constructed Some/Ok locally, or under a dominating is_some/is_ok
        if t.args and t.args[0].place is not None:
            e = expr_of(body, t.args[0])
            if e[0] == 'agg' and e[3].j.get('variant') in ('Some', 'Ok'):
                return 'value built as %s just before' % e[3].j.get('variant')
            if e[0] == 'call' and e[2].cmethod == 'new' and 'NonZero' in e[2].cargs:
                v = const_eval(body, e[2].args[0])
                if v:
                    return 'NonZero::new(%d)' % v
            if e[0] == 'call' and e[2].cmethod in ('get', 'remove', 'get_mut') and 'HashMap' in e[2].cdef and len(e[2].args) == 2:
                r = _paired_map_lookup(body, e[1], e[2])
                if r:
                    return r
        return None
    return None


LEN_NEUTRAL = ('deref', 'deref_mut', 'as_slice', 'as_mut_slice', 'as_ref', 'as_mut', 'index', 'index_mut', 'iter', 'iter_mut', 'len', 'is_empty', 'as_ptr', 'as_mut_ptr',
               'split_at', 'split_at_mut', 'borrow', 'borrow_mut', 'first', 'last', 'get', 'get_mut', 'copy_from_slice', 'fill', 'capacity', 'reserve', 'chunks', 'chunks_mut')


def _split_within_appended(body, site_bb, t):
    """the split point is `n` or `n - const`, n being the Ok payload of a `read_to_end(_, &mut V)` that dominates the site, the slice split is V itself
    (deref / as_mut_slice of it), and no call between can shorten V: len(V) >= n >= split point (the subtraction has its own site)"""
    if len(t.args) < 2 or t.args[0].place is None or t.args[1].place is None:
        return None
    op = t.args[0]
    for _ in range(4):
        e0 = deref_expr(body, expr_of(body, op))
        if e0[0] == 'call' and e0[2].cmethod in ('deref', 'deref_mut', 'as_slice', 'as_mut_slice', 'as_mut', 'as_ref') and e0[2].args and e0[2].args[0].place is not None:
            op = e0[2].args[0]
        else:
            break
    vs = [l for l in origins(body, [op.place[0]], through_calls=False).locals if body.lty(l).startswith('std::vec::Vec<') and
          any(d[2] == 'call' and d[3].cmethod in ('new', 'with_capacity', 'default') for d in body.defs.get(l, []))]
    if len(vs) != 1:
        return None
    V = vs[0]
    e = expr_of(body, t.args[1])
    if e[0] == 'binop' and e[1].startswith('Sub') and e[3][0] == 'const':
        e = e[2]
    if e[0] != 'place' or any(p[0] not in ('down', 'f') for p in e[1][1]):
        return None
    n = e[1][0]      # the count itself, or the ControlFlow / Result it is the payload of
    rte = [b for b in body.calls() if b.term.cmethod == 'read_to_end' and b.term.ctrait == 'std::io::Read' and len(b.term.args) == 2 and b.term.args[1].place is not None and
           V in origins(body, [b.term.args[1].place[0]], through_calls=False).locals and body.dominates(b.idx, site_bb)]
    if len(rte) != 1:
        return None
    R = rte[0]
    if not must_derive(body, n, lambda k, ob, bb: k == 'call' and bb == R.idx, extra_transparent=('branch',)):
        return None
    for b in body.calls():
        tt = b.term
        if b.idx in (R.idx, site_bb) or tt.cmethod in LEN_NEUTRAL or not tt.args:
            continue
        for a in tt.args:
            if a.place is None:
                continue
            o = origins(body, [a.place[0]], through_calls=False)
            if V in o.locals and a.place[0] != V or (a.place[0] == V):
                # a call that receives (a reference to) V: harmless only when it happens after the site on every path
                if not body.dominates(site_bb, b.idx) and b.idx in body.reachable(R.idx) and site_bb in body.reachable(b.idx):
                    return None
    return 'split point is (at most) the count read_to_end appended to %s' % body.lname(V)


def _map_owner(body, op):
    if op.place is None:
        return None
    ls = [l for l in origins(body, [op.place[0]], through_calls=False).locals if body.lty(l).startswith('std::collections::HashMap<') and l > body.arg_count]
    return ls[0] if len(ls) == 1 else None


def _paired_map_lookup(body, site_bb, look):
    """`M2.get(k) / M2.remove(k)` cannot miss when k runs over the keys of another map M1 of the same function, every insertion into M1 is dominated by an
    insertion of the same key into M2, and nothing is ever taken out of M2 except by this very lookup (each key of M1 is met once). Both maps are
    locals created in the function."""
    m2 = _map_owner(body, look.args[0])
    if m2 is None or look.args[1].place is None:
        return None
    ko = origins(body, [look.args[1].place[0]])
    nexts = [c for c in ko.calls if body.blocks[c].term.cmethod == 'next' and body.blocks[c].term.ctrait == 'std::iter::Iterator']
    if len(nexts) != 1:
        return None
    it = body.blocks[nexts[0]].term
    if not it.args or it.args[0].place is None:
        return None
    io_ = origins(body, [it.args[0].place[0]])
    m1s = [l for l in io_.locals if body.lty(l).startswith('std::collections::HashMap<') and l > body.arg_count and l != m2 and
           any(d[2] == 'call' and d[3].cmethod in ('new', 'default', 'with_capacity') for d in body.defs.get(l, []))]      # (moved copies of the map aside)
    if len(m1s) != 1:
        return None
    m1 = m1s[0]
    # the key type of the two maps is the same integer type
    k1 = body.lty(m1).split('<', 1)[1].split(',')[0]
    k2 = body.lty(m2).split('<', 1)[1].split(',')[0]
    if k1 != k2 or type_range(k1) is None:
        return None
    for l in (m1, m2):
        if not any(d[2] == 'call' and d[3].cmethod in ('new', 'default', 'with_capacity') for d in body.defs.get(l, [])):
            return None
    ins = {m1: [], m2: []}
    for b in body.calls():
        t = b.term
        if 'HashMap' not in t.cdef or not t.args:
            continue
        ow = _map_owner(body, t.args[0])
        if ow not in (m1, m2):
            continue
        if t.cmethod == 'insert':
            ins[ow].append(b)
        elif ow == m2 and t.cmethod in ('remove', 'clear', 'drain', 'retain', 'remove_entry', 'extract_if') and b.idx != site_bb:
            return None
        elif ow == m2 and t.cmethod in ('entry', 'iter_mut', 'values_mut'):
            return None
        elif ow == m1 and t.cmethod in ('entry', 'extend'):
            return None
    if not ins[m1] or not ins[m2]:
        return None

    def key_root(t):
        a = t.args[1]
        if a.place is None:
            return None
        o = origins(body, [a.place[0]], through_calls=False)
        return frozenset(o.locals)
    for i1 in ins[m1]:
        r1 = key_root(i1.term)
        if not r1 or not any(body.dominates(i2.idx, i1.idx) and key_root(i2.term) and (key_root(i2.term) & r1) for i2 in ins[m2]):
            return None
    return 'key runs over %s, whose every insertion is dominated by an insertion of the same key into %s, from which nothing else is removed' % (body.lname(m1), body.lname(m2))


# ------------------------------------------------------------------ taint
SOURCE_CALLS = [
    ('byteorder::ReadBytesExt', None), ('bincode::Options', 'deserialize_from'), ('bincode::Options', 'deserialize'),
]
DESER_SEEDS = None


class Taint:
    def __init__(self, prog, scope, extra_param_sources=()):
        self.prog = prog
        self.scope = {b.key: b for b in scope}
        self.fields = set()      # (adt, field)
        self.params = set(extra_param_sources)   # (body key, param local)
        self.rets = set()        # body key
        self.locals = {k: set() for k in self.scope}
        # seed: fields of Deserialize-derived structs and block payloads
        for pkg, c in prog.crates.items():
            for i in c.impls:
                if i['trait'].endswith('_serde::Deserialize') and i['derived'] and i['self_adt'] and i['self_adt'] in c.adts:
                    for v in c.adts[i['self_adt']]['variants']:
                        for f in v['fields']:
                            self.fields.add((i['self_adt'], f['name']))
        for f in ('filename', 'id', 'length', 'hash', 'data'):
            self.fields.add(('ArchiveFileBlock', f))
        self.fields.add(('ArchiveHeader', 'format_version'))
        self.fields.add(('ArchiveHeader', 'config'))
        self._fix()

    def is_source_call(self, t):
        tr, m = t.ctrait, t.cmethod
        if tr == 'byteorder::ReadBytesExt':
            return True
        if tr == 'bincode::Options' and m in ('deserialize_from', 'deserialize'):
            return True
        if tr == 'std::io::Read' and m in ('read', 'read_to_end', 'read_to_string', 'read_exact'):
            return True
        if tr == 'std::io::Seek' and m in ('seek', 'stream_position', 'stream_len'):
            return True
        if cnorm(t).endswith('BrotliDecompressStream'):
            return True
        if m == 'position' and 'Cursor' in t.cdef:
            return True
        return False

    def _adt_of(self, ofty):
        a = strip_generics(ofty)
        for cname in WS_CRATES:
            if a.startswith(cname + '::'):
                a = a[len(cname) + 2:]
        return a

    def body_pass(self, body):
        tl = self.locals[body.key]
        n0 = len(tl)
        for p in range(1, body.arg_count + 1):
            if (body.key, p) in self.params:
                tl.add(p)
        ma = mutarg_defs(body)
        changed = True
        while changed:
            changed = False
            for b in body.blocks:
                for s in b.stmts:
                    if s.kind != 'assign':
                        continue
                    d = s.place[0]
                    src_t = False
                    for pl in s.rv.src_places():
                        if pl[0] in tl:
                            src_t = True
                        for pr in pl[1]:
                            if pr[0] == 'f' and (self._adt_of(pr[3]), pr[2]) in self.fields:
                                src_t = True
                    if src_t and d not in tl:
                        tl.add(d)
                        changed = True
                t = b.term
                if t.kind == 'call' and t.dest is not None:
                    d = t.dest[0]
                    tainted = False
                    if self.is_source_call(t):
                        tainted = True
                    if any(a.place is not None and a.place[0] in tl for a in t.args):
                        tainted = True
                    cands, _ = resolve_call(self.prog, body, t)
                    if any(c.key in self.rets for c in cands):
                        tainted = True
                    if tainted and d not in tl:
                        tl.add(d)
                        changed = True
                    # read-like sources also taint the buffer / out-parameters they fill
                    if self.is_source_call(t):
                        for a in t.args[1:]:
                            if a.place is not None:
                                for base in refmap(body).get(a.place[0], ()):
                                    if base not in tl:
                                        tl.add(base)
                                        changed = True
            for base, lst in ma.items():
                if base in tl:
                    continue
                for (bb, t, ai) in lst:
                    if any(j != ai and a.place is not None and a.place[0] in tl for j, a in enumerate(t.args)):
                        tl.add(base)
                        changed = True
                        break
        return len(tl) != n0

    def _fix(self):
        for _ in range(30):
            changed = False
            for k, body in self.scope.items():
                if self.body_pass(body):
                    changed = True
                tl = self.locals[k]
                # outflows
                if 0 in tl and k not in self.rets:
                    self.rets.add(k)
                    changed = True
                for b in body.blocks:
                    for s in b.stmts:
                        if s.kind == 'assign' and s.place[1]:
                            val_t = any(pl[0] in tl for pl in s.rv.src_places())
                            if val_t:
                                fs = [p for p in s.place[1] if p[0] == 'f']
                                if fs:
                                    key = (self._adt_of(fs[-1][3]), fs[-1][2])
                                    if key not in self.fields:
                                        self.fields.add(key)
                                        changed = True
                        if s.kind == 'assign' and s.rv.r == 'aggregate' and s.rv.j.get('agg') == 'adt':
                            adt = self._adt_of(s.rv.j['adt'])
                            for fname, op in zip(s.rv.j.get('fields', []), s.rv.ops):
                                if op.place is not None and op.place[0] in tl:
                                    if (adt, fname) not in self.fields and not adt.startswith(('std::', 'core::')):
                                        self.fields.add((adt, fname))
                                        changed = True
                    t = b.term
                    if t.kind == 'call':
                        cands, _ = resolve_call(self.prog, body, t)
                        for c in cands:
                            if c.key not in self.scope:
                                continue
                            for j, a in enumerate(t.args):
                                if a.place is not None and a.place[0] in tl and j + 1 <= c.arg_count:
                                    if (c.key, j + 1) not in self.params:
                                        self.params.add((c.key, j + 1))
                                        changed = True
                # closures inherit captured taint through _1
                for c in self.prog.closures_of(body):
                    if c.key in self.scope:
                        # conservatively: if any local captured is tainted, the environment param is tainted
                        for b in body.blocks:
                            for s in b.stmts:
                                if s.kind == 'assign' and s.rv.r == 'aggregate' and s.rv.j.get('closure') == c.defpath:
                                    if any(op.place is not None and op.place[0] in tl for op in s.rv.ops):
                                        if (c.key, 1) not in self.params:
                                            self.params.add((c.key, 1))
                                            changed = True
            if not changed:
                break

    def site_tainted(self, s):
        tl = self.locals.get(s.body.key, set())
        for op in s.ops:
            if op is not None and getattr(op, 'place', None) is not None:
                if op.place[0] in tl:
                    return True
                # operand derived from tainted locals
                o = origins(s.body, [op.place[0]])
                if o.locals & tl:
                    return True
                for f in []:
                    pass
        return False


# ------------------------------------------------------------------ recursion
def recursive_components(prog, scope):
    g = call_graph(prog)
    keys = {b.key for b in scope}
    index, low, onst, st, comps = {}, {}, set(), [], []
    counter = [0]
    sys.setrecursionlimit(20000)

    def sc(v):
        index[v] = low[v] = counter[0]
        counter[0] += 1
        st.append(v)
        onst.add(v)
        for w in g.get(v, ()):
            if w not in keys:
                continue
            if w not in index:
                sc(w)
                low[v] = min(low[v], low[w])
            elif w in onst:
                low[v] = min(low[v], index[w])
        if low[v] == index[v]:
            comp = []
            while True:
                w = st.pop()
                onst.discard(w)
                comp.append(w)
                if w == v:
                    break
            if len(comp) > 1 or v in g.get(v, ()):
                comps.append(sorted(comp))
    for k in sorted(keys):
        if k not in index:
            sc(k)
    return comps


# ---------------------------------------------------------------------------------------------------------------------
# upper bound of the length of a Vec<u8> local at a use site (straight-line idioms: with_capacity / read_to_end(take(K)) /
# resize / truncate / clear / move into another local)

VEC_NEUTRAL = {'as_mut_slice', 'as_slice', 'deref_mut', 'deref', 'index_mut', 'index', 'len', 'is_empty', 'as_mut_ptr', 'as_ptr',
               'as_mut', 'as_ref', 'borrow_mut', 'borrow', 'capacity', 'reserve', 'reserve_exact', 'fill', 'iter_mut', 'iter', 'get_mut', 'get'}


def vec_len_ub(prog, body, local, use_bb):
    """(ub, why) with ub an int or None when no bound can be established"""
    from .core import unique_def, mutarg_defs, origins
    chain = [local]
    creation = None
    def whole_def(l):
        # the single whole-local assignment (the vector is borrowed mutably by the very operations modelled below, so unique_def refuses it)
        ds = [d for d in body.defs.get(l, []) if not (d[2] == 'assign' and d[3].place[1])]
        return ds[0] if len(ds) == 1 else None
    for _ in range(6):
        d = whole_def(chain[-1])
        if d is None:
            return None, 'no unique definition of the vector'
        if d[2] == 'call':
            creation = d
            break
        if d[2] == 'assign' and d[3].rv.r == 'use' and d[3].rv.ops[0].place is not None and not d[3].rv.ops[0].place[1]:
            chain.append(d[3].rv.ops[0].place[0])
            continue
        return None, 'vector defined by %s' % d[2]
    if creation is None:
        return None, 'definition chain too long'
    ct = creation[3]
    if ct.cmethod in ('with_capacity', 'new') and 'Vec' in cnorm_(ct):
        ub = 0
    else:
        ub = None     # taken from somewhere (mem::take of a cached buffer, ..): unknown until a dominating clear()
    loops = body.loop_blocks()
    ops = []
    md = mutarg_defs(body)
    for l in chain:
        for ent in md.get(l, []):
            bb, t = ent[0], ent[1]
            if bb == creation[0]:
                continue
            ops.append((bb, t))
    dom_ops = sorted([(bb, t) for bb, t in ops if body.dominates(bb, use_bb)], key=lambda x: len(body.doms.get(x[0], ())))
    other = [(bb, t) for bb, t in ops if not body.dominates(bb, use_bb) and use_bb in body.reachable(bb)]
    why = []
    for bb, t in dom_ops + other:
        m = t.cmethod
        dominating = (bb, t) in dom_ops
        if m in VEC_NEUTRAL or (t.arg_tys and not any(a.startswith('&mut std::vec::Vec<') for a in t.arg_tys) and m not in ('read_to_end', 'copy')):
            continue   # the callee sees a slice (or a shared reference): the length cannot change
        if m in ('clear',):
            if dominating:
                ub = 0
                why.append('clear()')
            continue
        if m == 'truncate':
            if dominating:
                iv = refined_interval(prog, body, bb, t.args[1])
                if iv is not None:
                    ub = iv[1] if ub is None else min(ub, iv[1])
                    why.append('truncate(<=%d)' % iv[1])
                # truncate(head.len()) with (head, tail) = v.split_last_chunk::<N>(): the new length is the old one minus N
                if ub is not None:
                    from .core import deref_expr
                    e_ = expr_of(body, t.args[1])
                    if e_[0] == 'call' and e_[2].cmethod == 'len' and e_[2].args:
                        a_ = deref_expr(body, expr_of(body, e_[2].args[0]))
                        if a_[0] == 'place' and [p[1] for p in a_[1][1] if p[0] == 'f'] == [0, 0]:
                            d_ = whole_def(a_[1][0])
                            mN = re.search(r'split_last_chunk(?:_mut)?::<(\d+)>', d_[3].cargs) if d_ is not None and d_[2] == 'call' else None
                            if mN and d_[3].args and d_[3].args[0].place is not None and \
                                    set(chain) & {l_ for l_ in origins(body, [d_[3].args[0].place[0]]).locals} and body.dominates(d_[0], bb) and \
                                    not [1 for (b2_, t2_) in ops if b2_ not in (bb, d_[0]) and t2_.cmethod not in VEC_NEUTRAL and body.dominates(d_[0], b2_) and bb in body.reachable(b2_)]:
                                # (no growth of the vector between the split and the truncate: the borrow of the halves is still alive at `len`)
                                ub = max(0, ub - int(mN.group(1)))
                                why.append('truncate(len - %s)' % mN.group(1))
            continue
        if ub is None and m != 'resize':
            continue      # still unknown: growth of an unknown length stays unknown
        if m == 'resize':
            iv = refined_interval(prog, body, bb, t.args[1])
            if not dominating or iv is None or bb in loops:
                return None, 'resize to an unbounded / conditional length'
            ub = iv[1]
            why.append('resize(<=%d)' % iv[1])
            continue
        if m == 'read_to_end' and t.ctrait == 'std::io::Read':
            ro = origins(body, [t.args[0].place[0]])
            tk = [body.blocks[c].term for c in ro.calls if body.blocks[c].term.cmethod == 'take' and body.blocks[c].term.ctrait == 'std::io::Read']
            if len(tk) != 1 or bb in loops:
                return None, 'read_to_end not through a single take()'
            iv = refined_interval(prog, body, bb, tk[0].args[1])
            if iv is None:
                return None, 'take() limit unbounded'
            ub += iv[1]
            why.append('read_to_end(take(<=%d))' % iv[1])
            continue
        return None, 'length changed by %s' % (m or '?')
    if ub is None:
        return None, 'vector taken from %s and never cleared before being filled' % (ct.cmethod or '?')
    return ub, ', '.join(why)


def cnorm_(t):
    from .core import cnorm
    return cnorm(t)


# ---------------------------------------------------------------------------------------------------------------------
# operand "leaves": what a site's operands are computed from, independently of how the expression is written

PURE_METHODS = {'saturating_sub', 'saturating_add', 'saturating_mul', 'checked_sub', 'checked_add', 'checked_mul', 'checked_div', 'wrapping_sub', 'wrapping_add',
                'min', 'max', 'try_from', 'try_into', 'from', 'into', 'map_err', 'unwrap_or', 'unwrap_or_default', 'unwrap_or_else', 'ok_or', 'ok_or_else', 'branch',
                'from_residual', 'clone', 'deref', 'deref_mut', 'as_ref', 'as_mut', 'map', 'map_or', 'map_or_else', 'and_then', 'ok', 'unwrap', 'expect', 'abs_diff', 'pow',
                'is_some', 'is_none', 'is_ok', 'is_err', 'borrow', 'borrow_mut', 'copied', 'cloned'}


def operand_leaves(body, op):
    from .core import origins
    if op.place is None:
        k = op.k or {}
        return ('const', k.get('def') or k.get('txt', '?'))
    o = origins(body, [op.place[0]], through_calls=True)
    calls = sorted({body.blocks[c].term.cmethod or cnorm_(body.blocks[c].term) for c in o.calls} - PURE_METHODS)
    # rename-proof: fields by (owner type, index), parameters by position; fields of tuples (checked-arithmetic results, multiple returns) are noise
    # ... and so are the payloads of the std carriers (`if let Ok(x)` vs `?` vs `match`): Result / Option / ControlFlow
    CARRIERS = ('std::result::Result', 'std::option::Option', 'std::ops::ControlFlow')
    fields = sorted({'/'.join('%s#%d' % (of, ix) for of, ix in f if of not in CARRIERS) for f in o.fields_ix
                     if f and not any(of.startswith('(') or of == '' for of, ix in f) and any(of not in CARRIERS for of, ix in f)})
    params = sorted('arg%d' % p for p in o.params)
    named = sorted({(c.get('def') or '') for c in o.consts if c.get('def')})
    return ('val', tuple(fields), tuple(params), tuple(calls), tuple(named))


def site_leaves(body, site):
    ops = site.ops if site.ops else (site.term.args if site.term is not None and site.term.kind == 'call' else [])
    return [site.kind] + [list(operand_leaves(body, o)) for o in ops]


# ---------------------------------------------------------------------------------------------------------------------
# accumulators: `place += x` on a field of a struct reached through a reference parameter (or a reference captured by a closure). What a review of such
# a site argues about is the counter (what it counts, how fast it can grow), wherever the addition is written: in the method, in a closure of it.

def _struct_path(fields_ix):
    return '/'.join('%s#%d' % (of, ix) for of, ix in fields_ix)


def accumulator_field(prog, body, site):
    """'Owner#idx[/..]' of the field that the overflow-checked addition of `site` updates in place, or None"""
    from .core import place_fields_ix, closure_captures
    if site.kind != 'Add' or site.term is None or site.term.kind != 'assert' or site.term.target is None:
        return None
    tb = body.blocks[site.term.target]
    dests = [norm_place_c(body, st.place) for st in tb.stmts[:4] if st.kind == 'assign' and st.place[1] and st.rv.r == 'use' and st.rv.ops and st.rv.ops[0].place is not None and
             any(p[0] == 'f' and p[1] == 0 and str(p[3]).startswith('(') for p in st.rv.ops[0].place[1])]
    if len(dests) != 1:
        return None
    dst = dests[0]
    hit = False
    for o in site.ops:
        e = expr_of(body, o)
        if e[0] == 'place' and e[1][1]:
            src = norm_place_c(body, e[1])
            if src[0] == dst[0] and [p[:2] for p in src[1]] == [p[:2] for p in dst[1]]:
                hit = True
    if not hit or not (1 <= dst[0] <= body.arg_count):
        return None
    fx = place_fields_ix(dst)
    if not fx:
        return None
    if body.kind == 'Closure' and fx[0][0].startswith('{closure'):
        parent = prog.body(body.pkg, body.defpath.rsplit('::{closure#', 1)[0])
        caps = closure_captures(prog, parent, body) if parent is not None else None
        k = fx[0][1]
        if caps is None or k >= len(caps):
            return None
        pe = expr_of(parent, caps[k])
        if pe[0] not in ('ref', 'place'):
            return None
        pp = norm_place_c(parent, pe[1])
        if not (1 <= pp[0] <= parent.arg_count):
            return None
        fx = tuple(place_fields_ix(pp)) + tuple(fx[1:])
        if not fx:
            return None
    return _struct_path(fx)


def describe_term(body, term):
    if term[0] == 'const':
        return str(term[1])
    if term[0] == 'binop':
        return '(%s %s %s)' % (describe_term(body, term[2]), {'Add': '+', 'Sub': '-', 'Mul': '*'}.get(term[1], term[1]), describe_term(body, term[3]))
    if term[0] == 'len':
        return 'len(%s)' % body.lname(term[1])
    if term[0] == 'place':
        return '%s%s' % (body.lname(term[1]), ''.join('.%s' % p[1] for p in term[2] if p[0] == 'f'))
    return '?'
